/-
  C12, second part: the fast solver's forward stepping and relaxation (all steps), the translation
  `Network.FastNetworkSolver()` globally, and the corollary tying the four solver paths to `evalNode`.

  Kind A (every scalar type, exact, same operation order):
  * `fast_forward` - `ForwardSteps(k)`, `k ≥` rank of every output, from a state with clean processing cells (fresh,
    flushed, or after any forward step / relaxation): no error and every output holds `fvalNode`.
    `fast_forward_any_state`: from ANY state (e.g. after `RecursiveSteps`, which leaves the processing cells dirty)
    one more step suffices.
  * `fast_relax` - `Relax(maxSteps, δ)` executes `relaxCount` forward steps (`fast_relax_state`: it leaves exactly the
    state of `ForwardSteps(relaxCount)`), `1 ≤ relaxCount ≤ maxSteps`, result `false` only if all steps were used, and
    every output of rank ≤ `relaxCount` holds `fvalNode`.  `fast_relax_stops`: for `δ > 0` it stops no later than step
    `D + 1` (`D` = largest rank of a neuron) and then reports `true`; needs "`δ < |v - v|` is false" for the finitely
    many neuron values (true in every ordered ring for `δ ≥ 0` - `fast_relax_stops_exact` - and for every finite
    float64).  `fast_relax_nonpos`: `δ ≤ 0` performs exactly one step and reports `true`.
  * `translation_wf` - the translated network is acyclic under the transported ranking, duplicate-free, its neurons
    have rank ≥ 1 and registered activation types: the hypotheses of all fast-solver theorems.
  Hypotheses on the fast network: `FFFast` (ranking), `NoDupConn` (no pair joined twice: then `adjacentMatrix` holds
  the weight of THE connection), neurons have rank ≥ 1 (a neuron whose links all come from bias nodes has no
  connection at all in the fast network but still needs one step).

  Kind B (exact commutative-semiring arithmetic, `[CommSemiring K] [ExactArith K]`):
  * `fval_eq_eval` / `fval_eq_eval_outputs` - `fvalNode (ofNet net) (idx i) = evalNode net i` for every neuron, and at
    output position `p` (fast index `nSensor + p`).
  * `all_solvers_fresh` - the same for fresh instances after `LoadSensors(xs)` on both (Proofs/LoadAgree.lean).
  * `all_solvers_eval` / `all_solvers_outputs` - standard `ForwardSteps`, fast `ForwardSteps`, fast `RecursiveSteps`
    and fast `Relax` (run for at least rank-of-the-output steps) all leave `evalNode` at every output.
  Helper lemmas: Proofs/FastFFAll.lean, Proofs/Translation.lean.
-/
import GoNeat.Props.C12
import GoNeat.Proofs.FastFFAll
import GoNeat.Proofs.Translation
import GoNeat.Proofs.LoadAgree
import GoNeat.Proofs.Exact

namespace GoNeat.C12
open GoNeat.SolverSpec

variable {W : Type} [Scalar W]

/-! ## fast solver: forward stepping and relaxation, all steps (Kind A) -/

private theorem lay0 (fn : Fast.FastNet W) (σ : Nat → W → Option W) (lvl : Nat → Nat)
    (hpos : ∀ i, fn.nSensor ≤ i → i < fn.nTotal → 1 ≤ lvl i) (s : Fast.FState W) (sig : Nat → W)
    (hS : s.signals.length = fn.nTotal) (hP : s.processing.length = fn.nTotal)
    (hzero : ∀ i, fn.nSensor ≤ i → i < fn.nTotal → Fast.getW s.processing i = Scalar.zero)
    (hsig : ∀ j, j < fn.nSensor → Fast.getW s.signals j = sig j) : Fast.Lay fn σ sig lvl 0 s :=
  ⟨hS, hP, hzero, hsig, fun i hi hit hl => by have := hpos i hi hit; omega⟩

/-- **Fast forward stepping (Kind A, exact).**  On an acyclic fast network without doubled connections whose neurons
    have rank ≥ 1, from any state with clean processing cells, `ForwardSteps(k)` with `k ≥` the rank of every output
    reports no error (and `true` for `k ≥ 1`, given `0 ≤ 0` on the scalar type), and every output neuron holds
    `fvalNode` of the current sensor signals. -/
theorem fast_forward (fn : Fast.FastNet W) (σ : Nat → W → Option W) (lvl : Nat → Nat) (hff : Fast.FFFast fn lvl)
    (hnd : Fast.NoDupConn fn) (hpos : ∀ i, fn.nSensor ≤ i → i < fn.nTotal → 1 ≤ lvl i)
    (hσ : ∀ i, fn.nSensor ≤ i → i < fn.nTotal → ∀ x, (σ (fn.acts.getD i 0) x).isSome = true)
    (s : Fast.FState W) (hS : s.signals.length = fn.nTotal) (hP : s.processing.length = fn.nTotal)
    (hzero : ∀ i, fn.nSensor ≤ i → i < fn.nTotal → Fast.getW s.processing i = Scalar.zero)
    (k : Nat) (hk : ∀ j, j < fn.nOutput → lvl (fn.nSensor + j) ≤ k) :
    (Fast.forwardSteps fn σ (k : Int) s).2.2 = none ∧
      (Scalar.le (Scalar.zero : W) Scalar.zero = true → 1 ≤ k → (Fast.forwardSteps fn σ (k : Int) s).2.1 = true) ∧
      ∀ j, j < fn.nOutput →
        Fast.fvalNode fn σ (Fast.getW s.signals) (lvl (fn.nSensor + j) + 1) (fn.nSensor + j) =
          some (Fast.getW (Fast.forwardSteps fn σ (k : Int) s).1.signals (fn.nSensor + j)) := by
  have hall : Fast.FFAll fn σ lvl := ⟨hff, hnd, hpos, hσ⟩
  unfold Fast.forwardSteps
  simp only [Int.toNat_natCast]
  obtain ⟨h1, h2, h3⟩ := Fast.fwdLoop_lay fn σ (Fast.getW s.signals) lvl hall k 0 false s
    (lay0 fn σ lvl hpos s _ hS hP hzero (fun _ _ => rfl))
  rw [Nat.zero_add] at h2
  exact ⟨h1, h3, fun j hj => h2.val _ (by omega) (by have := hff.outs; omega) (hk j hj)⟩

/-- the same from ANY state (processing cells possibly dirty, as `RecursiveSteps` leaves them): the first step cleans
    the cells, so `k + 1` steps suffice -/
theorem fast_forward_any_state (fn : Fast.FastNet W) (σ : Nat → W → Option W) (lvl : Nat → Nat) (hff : Fast.FFFast fn lvl)
    (hnd : Fast.NoDupConn fn) (hpos : ∀ i, fn.nSensor ≤ i → i < fn.nTotal → 1 ≤ lvl i)
    (hσ : ∀ i, fn.nSensor ≤ i → i < fn.nTotal → ∀ x, (σ (fn.acts.getD i 0) x).isSome = true)
    (s : Fast.FState W) (hS : s.signals.length = fn.nTotal) (hP : s.processing.length = fn.nTotal)
    (k : Nat) (hk : ∀ j, j < fn.nOutput → lvl (fn.nSensor + j) ≤ k) :
    (Fast.forwardSteps fn σ ((k + 1 : Nat) : Int) s).2.2 = none ∧
      ∀ j, j < fn.nOutput →
        Fast.fvalNode fn σ (Fast.getW s.signals) (lvl (fn.nSensor + j) + 1) (fn.nSensor + j) =
          some (Fast.getW (Fast.forwardSteps fn σ ((k + 1 : Nat) : Int) s).1.signals (fn.nSensor + j)) := by
  have hall : Fast.FFAll fn σ lvl := ⟨hff, hnd, hpos, hσ⟩
  obtain ⟨f1, f2, f3, f4, f5, _⟩ := Fast.forwardStep_full fn σ Scalar.zero s hS hP hσ
  unfold Fast.forwardSteps
  simp only [Int.toNat_natCast]
  unfold Fast.fwdLoop
  rcases hs : Fast.forwardStep fn σ Scalar.zero s with ⟨s', r, e⟩
  rw [hs] at f1 f2 f3 f4 f5
  simp only at f1 f2 f3 f4 f5
  subst f1
  simp only
  obtain ⟨h1, h2, _⟩ := Fast.fwdLoop_lay fn σ (Fast.getW s.signals) lvl hall k 0 r s'
    (lay0 fn σ lvl hpos s' _ f2 f3 (fun i a b => (f5 i a b).2) f4)
  rw [Nat.zero_add] at h2
  exact ⟨h1, fun j hj => h2.val _ (by omega) (by have := hff.outs; omega) (hk j hj)⟩

/-- **Relaxation (Kind A, exact).**  `Relax(maxSteps, δ)` from a clean state executes `m = relaxCount` forward steps,
    `m ≤ maxSteps`, `m ≥ 1` if `maxSteps ≥ 1`; it reports no error, reports `false` only when it used all `maxSteps`
    steps, and every output whose rank is ≤ `m` ("propagating for at least as many steps as the longest path") holds
    `fvalNode`. -/
theorem fast_relax (fn : Fast.FastNet W) (σ : Nat → W → Option W) (lvl : Nat → Nat) (hff : Fast.FFFast fn lvl)
    (hnd : Fast.NoDupConn fn) (hpos : ∀ i, fn.nSensor ≤ i → i < fn.nTotal → 1 ≤ lvl i)
    (hσ : ∀ i, fn.nSensor ≤ i → i < fn.nTotal → ∀ x, (σ (fn.acts.getD i 0) x).isSome = true)
    (s : Fast.FState W) (hS : s.signals.length = fn.nTotal) (hP : s.processing.length = fn.nTotal)
    (hzero : ∀ i, fn.nSensor ≤ i → i < fn.nTotal → Fast.getW s.processing i = Scalar.zero)
    (maxSteps : Nat) (delta : W) :
    (Fast.relax fn σ (maxSteps : Int) delta s).2.2 = none ∧
      Fast.relaxCount fn σ delta maxSteps s ≤ maxSteps ∧
      (1 ≤ maxSteps → 1 ≤ Fast.relaxCount fn σ delta maxSteps s) ∧
      ((Fast.relax fn σ (maxSteps : Int) delta s).2.1 = false → Fast.relaxCount fn σ delta maxSteps s = maxSteps) ∧
      ∀ j, j < fn.nOutput → lvl (fn.nSensor + j) ≤ Fast.relaxCount fn σ delta maxSteps s →
        Fast.fvalNode fn σ (Fast.getW s.signals) (lvl (fn.nSensor + j) + 1) (fn.nSensor + j) =
          some (Fast.getW (Fast.relax fn σ (maxSteps : Int) delta s).1.signals (fn.nSensor + j)) := by
  have hall : Fast.FFAll fn σ lvl := ⟨hff, hnd, hpos, hσ⟩
  unfold Fast.relax
  simp only [Int.toNat_natCast]
  obtain ⟨h1, h2, h3, h4⟩ := Fast.relaxLoop_lay fn σ (Fast.getW s.signals) lvl hall delta maxSteps 0 false s
    (lay0 fn σ lvl hpos s _ hS hP hzero (fun _ _ => rfl))
  rw [Nat.zero_add] at h2
  exact ⟨h1, Fast.relaxCount_le fn σ delta maxSteps s, h4, h3,
    fun j hj hl => h2.val _ (by omega) (by have := hff.outs; omega) hl⟩

/-- `relaxCount` counts forward steps: `Relax(maxSteps, δ)` leaves the state (and error) of `ForwardSteps(relaxCount)` -/
theorem fast_relax_state (fn : Fast.FastNet W) (σ : Nat → W → Option W) (s : Fast.FState W) (maxSteps : Nat) (delta : W) :
    (Fast.relax fn σ (maxSteps : Int) delta s).1 =
        (Fast.forwardSteps fn σ ((Fast.relaxCount fn σ delta maxSteps s : Nat) : Int) s).1 ∧
      (Fast.relax fn σ (maxSteps : Int) delta s).2.2 =
        (Fast.forwardSteps fn σ ((Fast.relaxCount fn σ delta maxSteps s : Nat) : Int) s).2.2 := by
  unfold Fast.relax Fast.forwardSteps
  simp only [Int.toNat_natCast]
  exact Fast.relaxLoop_state fn σ delta maxSteps false false s

/-- **Relaxation stops (Kind A given the self-difference test).**  With `δ > 0` (more exactly: whenever `δ < |v - v|`
    is false for the value `v` of every neuron) `Relax` executes at most `D + 1` steps, `D` = largest neuron rank, and
    if `maxSteps ≥ D + 1` it reports `true`. -/
theorem fast_relax_stops (fn : Fast.FastNet W) (σ : Nat → W → Option W) (lvl : Nat → Nat) (hff : Fast.FFFast fn lvl)
    (hnd : Fast.NoDupConn fn) (hpos : ∀ i, fn.nSensor ≤ i → i < fn.nTotal → 1 ≤ lvl i)
    (hσ : ∀ i, fn.nSensor ≤ i → i < fn.nTotal → ∀ x, (σ (fn.acts.getD i 0) x).isSome = true)
    (s : Fast.FState W) (hS : s.signals.length = fn.nTotal) (hP : s.processing.length = fn.nTotal)
    (hzero : ∀ i, fn.nSensor ≤ i → i < fn.nTotal → Fast.getW s.processing i = Scalar.zero)
    (maxSteps : Nat) (delta : W) (D : Nat) (hD : ∀ i, fn.nSensor ≤ i → i < fn.nTotal → lvl i ≤ D)
    (hδ : ∀ i, fn.nSensor ≤ i → i < fn.nTotal → ∀ v, Fast.fvalNode fn σ (Fast.getW s.signals) (lvl i + 1) i = some v →
      Scalar.lt delta (Scalar.abs (Scalar.sub v v)) = false) :
    Fast.relaxCount fn σ delta maxSteps s ≤ D + 1 ∧
      (D + 1 ≤ maxSteps → (Fast.relax fn σ (maxSteps : Int) delta s).2 = (true, none)) := by
  have hall : Fast.FFAll fn σ lvl := ⟨hff, hnd, hpos, hσ⟩
  have hL := lay0 fn σ lvl hpos s _ hS hP hzero (fun _ _ => rfl)
  obtain ⟨h1, h2⟩ := Fast.relaxLoop_stops fn σ (Fast.getW s.signals) lvl hall delta D hD hδ maxSteps 0 false s hL
  obtain ⟨e1, _⟩ := Fast.relaxLoop_lay fn σ (Fast.getW s.signals) lvl hall delta maxSteps 0 false s hL
  refine ⟨by omega, fun hm => ?_⟩
  unfold Fast.relax
  simp only [Int.toNat_natCast]
  exact Prod.ext (h2 (by omega)) e1

/-- the self-difference test holds in exact ordered-field arithmetic for every `δ ≥ 0` (Kind B) -/
theorem fast_relax_stops_exact {K : Type} [Field K] [LinearOrder K] [IsStrictOrderedRing K] [FloorRing K]
    (fn : Fast.FastNet K) (σ : Nat → K → Option K) (lvl : Nat → Nat) (hff : Fast.FFFast fn lvl)
    (hnd : Fast.NoDupConn fn) (hpos : ∀ i, fn.nSensor ≤ i → i < fn.nTotal → 1 ≤ lvl i)
    (hσ : ∀ i, fn.nSensor ≤ i → i < fn.nTotal → ∀ x, (σ (fn.acts.getD i 0) x).isSome = true)
    (s : Fast.FState K) (hS : s.signals.length = fn.nTotal) (hP : s.processing.length = fn.nTotal)
    (hzero : ∀ i, fn.nSensor ≤ i → i < fn.nTotal → Fast.getW s.processing i = Scalar.zero)
    (maxSteps : Nat) (delta : K) (hd : 0 ≤ delta) (D : Nat) (hD : ∀ i, fn.nSensor ≤ i → i < fn.nTotal → lvl i ≤ D) :
    Fast.relaxCount fn σ delta maxSteps s ≤ D + 1 ∧
      (D + 1 ≤ maxSteps → (Fast.relax fn σ (maxSteps : Int) delta s).2 = (true, none)) :=
  fast_relax_stops fn σ lvl hff hnd hpos hσ s hS hP hzero maxSteps delta D hD (fun _ _ _ v _ => by
    simp only [Exact.lt_eq, Exact.abs_eq, Exact.sub_eq, sub_self, abs_zero, decide_eq_false_iff_not, not_lt]
    exact hd)

/-- **`δ ≤ 0`: exactly one forward step**, result `true` (what the code does: the difference test is skipped) -/
theorem fast_relax_nonpos (fn : Fast.FastNet W) (σ : Nat → W → Option W) (s : Fast.FState W)
    (hS : s.signals.length = fn.nTotal) (hP : s.processing.length = fn.nTotal)
    (hσ : ∀ i, fn.nSensor ≤ i → i < fn.nTotal → ∀ x, (σ (fn.acts.getD i 0) x).isSome = true)
    (delta : W) (hle : Scalar.le delta Scalar.zero = true) (maxSteps : Nat) (hm : 1 ≤ maxSteps) :
    Fast.relax fn σ (maxSteps : Int) delta s = ((Fast.forwardStep fn σ delta s).1, true, none) := by
  unfold Fast.relax
  simp only [Int.toNat_natCast]
  obtain ⟨k, rfl⟩ : ∃ k, maxSteps = k + 1 := ⟨maxSteps - 1, by omega⟩
  exact Fast.relaxLoop_nonpos fn σ delta s hS hP hσ hle k false

/-! ## the translation, globally -/

/-- **The translated network is well-formed (Kind A).**  For a feed-forward network satisfying `TransWF` (distinct
    ids; outputs list duplicate-free and of output type; every node indexed; sensors without incoming links; no node
    pair joined twice; ranks bounded), whatever `FastNetworkSolver()` returns satisfies all hypotheses of the
    fast-solver theorems under the transported ranking `lvlF`. -/
theorem translation_wf (net : Net W) (σ : Nat → W → Option W) (lvl : Nat → Nat) (hff : FFNet net lvl = true)
    (hwf : Fast.TransWF net lvl = true) (fn : Fast.FastNet W) (hofn : Fast.ofNet net = .ok fn)
    (hσ : ∀ (i : Nat) (nd : NNodeS W), net.nodes[i]? = some nd → nd.isNeuron = true → ∀ x, (σ nd.act x).isSome = true) :
    Fast.FFFast fn (Fast.lvlF net lvl) ∧ Fast.NoDupConn fn ∧
      (∀ i, fn.nSensor ≤ i → i < fn.nTotal → 1 ≤ Fast.lvlF net lvl i) ∧
      (∀ i, fn.nSensor ≤ i → i < fn.nTotal → ∀ x, (σ (fn.acts.getD i 0) x).isSome = true) ∧
      fn.nOutput = net.outputs.length ∧ fn.nTotal = net.nodes.length := by
  have hw := Fast.TransWF_props net lvl hwf
  have hF := Fast.ofNet_facts net hw fn hofn
  have h := Fast.translated_FFAll net σ lvl (Solver.FFNet_props net lvl hff) hw fn hF hσ
  exact ⟨h.ff, h.nd, h.pos, h.tot, hF.nOutput, hF.nTotal⟩

section Exact
variable {K : Type} [Scalar K] [CommSemiring K] [ExactArith K]

/-- **The translation computes the same function (Kind B: exact arithmetic).**  `sens` = sensor values of the network
    (bias nodes valued 1), `sigF` = sensor signals of the fast solver, agreeing on the input nodes through the index
    map `idx` (= `neuronLookup`).  Then for EVERY neuron `i` the feed-forward value of the fast representation at
    `idx i` is the feed-forward value of the network at `i`. -/
theorem fval_eq_eval (net : Net K) (σ : Nat → K → Option K) (lvl : Nat → Nat) (hff : FFNet net lvl = true)
    (hwf : Fast.TransWF net lvl = true) (fn : Fast.FastNet K) (hofn : Fast.ofNet net = .ok fn)
    (hσ : ∀ (i : Nat) (nd : NNodeS K), net.nodes[i]? = some nd → nd.isNeuron = true → ∀ x, (σ nd.act x).isSome = true)
    (sens sigF : Nat → K)
    (hb : ∀ (j : Nat) (nd : NNodeS K), net.nodes[j]? = some nd → nd.kind = Kind.bias → sens j = 1)
    (hs : ∀ (j : Nat) (nd : NNodeS K), net.nodes[j]? = some nd → nd.kind = Kind.input → sigF (Fast.idx net j) = sens j)
    (i : Nat) (nd : NNodeS K) (hi : net.nodes[i]? = some nd) (hn : nd.isNeuron = true) :
    Fast.fvalNode fn σ sigF (lvl i + 1) (Fast.idx net i) = evalNode net σ sens (lvl i + 1) i := by
  have hw := Fast.TransWF_props net lvl hwf
  have hk : nd.kind ≠ Kind.bias := by
    intro h
    simp [NNodeS.isNeuron, h, Kind.bias, Kind.hidden, Kind.output] at hn
  obtain ⟨v, e1, e2⟩ := Fast.fval_eq_eval_aux net σ lvl (Solver.FFNet_props net lvl hff) hw fn hofn hσ sens sigF
    (fun j nd' h1 h2 => hb j nd' h1 (by simpa using h2)) hs (lvl i) i nd
    (Fast.order_covers net hw i (Fast.valid_lt net i nd hi)) hi hk (Nat.le_refl _)
  rw [e1, e2]

/-- the same at the outputs: output position `p` has fast index `nSensor + p` -/
theorem fval_eq_eval_outputs (net : Net K) (σ : Nat → K → Option K) (lvl : Nat → Nat) (hff : FFNet net lvl = true)
    (hwf : Fast.TransWF net lvl = true) (fn : Fast.FastNet K) (hofn : Fast.ofNet net = .ok fn)
    (hσ : ∀ (i : Nat) (nd : NNodeS K), net.nodes[i]? = some nd → nd.isNeuron = true → ∀ x, (σ nd.act x).isSome = true)
    (sens sigF : Nat → K)
    (hb : ∀ (j : Nat) (nd : NNodeS K), net.nodes[j]? = some nd → nd.kind = Kind.bias → sens j = 1)
    (hs : ∀ (j : Nat) (nd : NNodeS K), net.nodes[j]? = some nd → nd.kind = Kind.input → sigF (Fast.idx net j) = sens j)
    (p : Nat) (hp : p < net.outputs.length) :
    Fast.fvalNode fn σ sigF (lvl (net.outputs[p]) + 1) (fn.nSensor + p) =
        evalNode net σ sens (lvl (net.outputs[p]) + 1) (net.outputs[p]) ∧
      Fast.lvlF net lvl (fn.nSensor + p) = lvl (net.outputs[p]) := by
  have hw := Fast.TransWF_props net lvl hwf
  have hF := Fast.ofNet_facts net hw fn hofn
  obtain ⟨nd, hnd, hk⟩ := hw.outK _ (List.getElem_mem hp)
  have hn : nd.isNeuron = true := by simp [NNodeS.isNeuron, hk]
  have hidx := Fast.idx_output net hw fn hF p hp
  have := fval_eq_eval net σ lvl hff hwf fn hofn hσ sens sigF hb hs _ nd hnd hn
  rw [hidx] at this
  refine ⟨this, ?_⟩
  rw [← hidx]
  exact Fast.lvlF_idx net hw _ (Fast.order_covers net hw _ (Fast.valid_lt net _ nd hnd))

/-- **All four solver paths compute the feed-forward function (Kind B: exact arithmetic).**
    A feed-forward network (`FFNet`, `TransWF`), its translation `fn`; a state `s0` of the standard solver with loaded
    sensors (bias nodes at 1) and a state `sF` of the fast solver with clean processing cells whose input signals agree
    with `s0` through the index map.  For every output `o` (position `p`) there is ONE value `e = evalNode o` with
    * `Network.ForwardSteps(k)`  leaves `e` at `o`                      (`k ≥ 1`, `k ≥` rank of every output),
    * fast `ForwardSteps(k)`     leaves `e` at signal `nSensor + p`,
    * fast `RecursiveSteps`      leaves `e` there,
    * fast `Relax(m, δ)`         leaves `e` there whenever it executed at least rank-of-`o` steps. -/
theorem all_solvers_eval (net : Net K) (σ : Nat → K → Option K) (lvl : Nat → Nat) (hff : FFNet net lvl = true)
    (hwf : Fast.TransWF net lvl = true) (fn : Fast.FastNet K) (hofn : Fast.ofNet net = .ok fn)
    (hσ : ∀ (i : Nat) (nd : NNodeS K), net.nodes[i]? = some nd → nd.isNeuron = true → ∀ x, (σ nd.act x).isSome = true)
    (s0 : Solver.St K) (hlen : s0.length = net.nodes.length)
    (hloaded : ∀ (i : Nat) (nd : NNodeS K), net.nodes[i]? = some nd → nd.isSensor = true → (Solver.get s0 i).count > 0)
    (hbias : ∀ (j : Nat) (nd : NNodeS K), net.nodes[j]? = some nd → nd.kind = Kind.bias → (Solver.get s0 j).activation = 1)
    (sF : Fast.FState K) (hS : sF.signals.length = fn.nTotal) (hP : sF.processing.length = fn.nTotal)
    (hzero : ∀ i, fn.nSensor ≤ i → i < fn.nTotal → Fast.getW sF.processing i = Scalar.zero)
    (hagree : ∀ (j : Nat) (nd : NNodeS K), net.nodes[j]? = some nd → nd.kind = Kind.input →
      Fast.getW sF.signals (Fast.idx net j) = (Solver.get s0 j).activation)
    (k : Nat) (hk1 : 1 ≤ k) (hk : ∀ o ∈ net.outputs, lvl o ≤ k) (m : Nat) (delta : K)
    (p : Nat) (hp : p < net.outputs.length) :
    ∃ e, evalNode net σ (fun i => (Solver.get s0 i).activation) (lvl (net.outputs[p]) + 1) (net.outputs[p]) = some e ∧
      (Solver.get (Solver.forwardSteps net σ (k : Int) s0).1 (net.outputs[p])).activation = e ∧
      Fast.getW (Fast.forwardSteps fn σ (k : Int) sF).1.signals (fn.nSensor + p) = e ∧
      Fast.getW (Fast.recursiveSteps fn σ sF).1.signals (fn.nSensor + p) = e ∧
      (lvl (net.outputs[p]) ≤ Fast.relaxCount fn σ delta m sF →
        Fast.getW (Fast.relax fn σ (m : Int) delta sF).1.signals (fn.nSensor + p) = e) := by
  obtain ⟨w1, w2, w3, w4, w5, _⟩ := translation_wf net σ lvl hff hwf fn hofn hσ
  have hmem : net.outputs[p] ∈ net.outputs := List.getElem_mem hp
  have hstd := (std_forward net σ lvl hff hσ s0 hlen hloaded k hk1 hk).2 _ hmem _ (Nat.le_refl _)
  obtain ⟨hfe, hlv⟩ := fval_eq_eval_outputs net σ lvl hff hwf fn hofn hσ (fun i => (Solver.get s0 i).activation)
    (Fast.getW sF.signals) hbias hagree p hp
  have hpo : p < fn.nOutput := by rw [w5]; exact hp
  have hkF : ∀ j, j < fn.nOutput → Fast.lvlF net lvl (fn.nSensor + j) ≤ k := by
    intro j hj
    rw [w5] at hj
    rw [(fval_eq_eval_outputs net σ lvl hff hwf fn hofn hσ (fun i => (Solver.get s0 i).activation)
      (Fast.getW sF.signals) hbias hagree j hj).2]
    exact hk _ (List.getElem_mem hj)
  have hfw := (fast_forward fn σ _ w1 w2 w3 w4 sF hS hP hzero k hkF).2.2 p hpo
  have hrc := (fast_recursive_fval fn σ _ w1 w4 sF hS hP (by omega)).2 p hpo
  have hrl := (fast_relax fn σ _ w1 w2 w3 w4 sF hS hP hzero m delta).2.2.2.2 p hpo
  rw [hlv] at hfw hrc hrl
  rw [hfe, hstd] at hfw hrc hrl
  simp only [Option.some.injEq] at hfw hrc
  refine ⟨_, hstd, rfl, hfw.symm, hrc.symm, fun hl => ?_⟩
  have := hrl hl
  simp only [Option.some.injEq] at this
  exact this.symm

/-- cross-solver equality read through `ReadOutputs`: the standard solver, the fast forward stepping and the fast
    recursive activation return the same output vector -/
theorem all_solvers_outputs (net : Net K) (σ : Nat → K → Option K) (lvl : Nat → Nat) (hff : FFNet net lvl = true)
    (hwf : Fast.TransWF net lvl = true) (fn : Fast.FastNet K) (hofn : Fast.ofNet net = .ok fn)
    (hσ : ∀ (i : Nat) (nd : NNodeS K), net.nodes[i]? = some nd → nd.isNeuron = true → ∀ x, (σ nd.act x).isSome = true)
    (s0 : Solver.St K) (hlen : s0.length = net.nodes.length)
    (hloaded : ∀ (i : Nat) (nd : NNodeS K), net.nodes[i]? = some nd → nd.isSensor = true → (Solver.get s0 i).count > 0)
    (hbias : ∀ (j : Nat) (nd : NNodeS K), net.nodes[j]? = some nd → nd.kind = Kind.bias → (Solver.get s0 j).activation = 1)
    (sF : Fast.FState K) (hS : sF.signals.length = fn.nTotal) (hP : sF.processing.length = fn.nTotal)
    (hzero : ∀ i, fn.nSensor ≤ i → i < fn.nTotal → Fast.getW sF.processing i = Scalar.zero)
    (hagree : ∀ (j : Nat) (nd : NNodeS K), net.nodes[j]? = some nd → nd.kind = Kind.input →
      Fast.getW sF.signals (Fast.idx net j) = (Solver.get s0 j).activation)
    (k : Nat) (hk1 : 1 ≤ k) (hk : ∀ o ∈ net.outputs, lvl o ≤ k) :
    Fast.readOutputs fn (Fast.forwardSteps fn σ (k : Int) sF).1 =
        Solver.readOutputs net (Solver.forwardSteps net σ (k : Int) s0).1 ∧
      Fast.readOutputs fn (Fast.recursiveSteps fn σ sF).1 =
        Solver.readOutputs net (Solver.forwardSteps net σ (k : Int) s0).1 := by
  have hno := (translation_wf net σ lvl hff hwf fn hofn hσ).2.2.2.2.1
  have key := fun p hp => all_solvers_eval net σ lvl hff hwf fn hofn hσ s0 hlen hloaded hbias sF hS hP hzero hagree
    k hk1 hk 0 Scalar.zero p hp
  unfold Fast.readOutputs Solver.readOutputs
  constructor
  · apply List.ext_getElem (by simp [hno])
    intro p h1 h2
    simp only [List.length_map] at h2
    obtain ⟨e, _, a1, a2, _, _⟩ := key p h2
    simp only [List.getElem_map, List.getElem_range]
    rw [a1, a2]
  · apply List.ext_getElem (by simp [hno])
    intro p h1 h2
    simp only [List.length_map] at h2
    obtain ⟨e, _, a1, _, a3, _⟩ := key p h2
    simp only [List.getElem_map, List.getElem_range]
    rw [a1, a3]

/-- **As the property words it (Kind B).**  Fresh network and fresh fast solver built from it, the same input vector
    loaded into both with `LoadSensors` (`InputsCanon`: `net.inputs` holds exactly the sensors, input-type nodes in
    node-table order - then both solvers assign `xs[k]` to the same node): all four paths yield `evalNode` at every
    output. -/
theorem all_solvers_fresh (net : Net K) (σ : Nat → K → Option K) (lvl : Nat → Nat) (hff : FFNet net lvl = true)
    (hwf : Fast.TransWF net lvl = true) (hin : Fast.InputsCanon net = true) (fn : Fast.FastNet K)
    (hofn : Fast.ofNet net = .ok fn)
    (hσ : ∀ (i : Nat) (nd : NNodeS K), net.nodes[i]? = some nd → nd.isNeuron = true → ∀ x, (σ nd.act x).isSome = true)
    (xs : List K) (hxs : xs.length = (Fast.idxOfKind net Kind.input).length)
    (hload : (Solver.loadSensors net xs (Solver.init net)).2 = none)
    (k : Nat) (hk1 : 1 ≤ k) (hk : ∀ o ∈ net.outputs, lvl o ≤ k) (m : Nat) (delta : K)
    (p : Nat) (hp : p < net.outputs.length) :
    (Fast.loadSensors fn xs (Fast.init fn)).2 = none ∧
    ∃ e, evalNode net σ (fun i => (Solver.get (Solver.loadSensors net xs (Solver.init net)).1 i).activation)
        (lvl (net.outputs[p]) + 1) (net.outputs[p]) = some e ∧
      (Solver.get (Solver.forwardSteps net σ (k : Int) (Solver.loadSensors net xs (Solver.init net)).1).1
        (net.outputs[p])).activation = e ∧
      Fast.getW (Fast.forwardSteps fn σ (k : Int) (Fast.loadSensors fn xs (Fast.init fn)).1).1.signals (fn.nSensor + p) = e ∧
      Fast.getW (Fast.recursiveSteps fn σ (Fast.loadSensors fn xs (Fast.init fn)).1).1.signals (fn.nSensor + p) = e ∧
      (lvl (net.outputs[p]) ≤ Fast.relaxCount fn σ delta m (Fast.loadSensors fn xs (Fast.init fn)).1 →
        Fast.getW (Fast.relax fn σ (m : Int) delta (Fast.loadSensors fn xs (Fast.init fn)).1).1.signals (fn.nSensor + p) = e) := by
  have hw := Fast.TransWF_props net lvl hwf
  have hF := Fast.ofNet_facts net hw fn hofn
  obtain ⟨g1, g2, g3, g4, g5, g6, g7⟩ := Fast.load_agree net hw hin fn hF xs hxs hload
  obtain ⟨hl, hc⟩ := Solver.loadSensors_loaded net xs (Solver.init net) hload
  refine ⟨g1, all_solvers_eval net σ lvl hff hwf fn hofn hσ _ (by rw [hl]; simp [Solver.init]) (fun i nd hi hs => ?_)
    (fun j nd hj hkb => by rw [g6 j nd hj hkb, ExactArith.one_eq]) _ g2 g3 (fun i _ _ => g4 i) g7 k hk1 hk m delta p hp⟩
  exact hc i (g5 i nd hi hs) (by simp [Solver.isSensorAt, hi, hs]) (by simpa [Solver.init] using Fast.valid_lt net i nd hi)

end Exact

/-! ## non-vacuity (exact `Int` scalar; `ffNet`, `ffLvl` from Props/C12.lean: bias, input, hidden, output, a skip
    connection and two bias links) -/
section Examples
open GoNeat.ExactInt

/-- what `FastNetworkSolver()` builds from `ffNet`: index order bias 0, input 1, output 2, hidden 3; the bias links
    3 (→hidden) and 7 (→output) are folded into `biasList` -/
def ffFast : Fast.FastNet Int :=
  { nBias := 1, nInput := 1, nOutput := 1, nTotal := 4, acts := [17, 17, 14, 14], biasList := [0, 0, 7, 3],
    conns := [ { src := 1, dst := 3, w := 2 }, { src := 3, dst := 2, w := 1 }, { src := 1, dst := 2, w := 5 } ] }

example : (match Fast.ofNet ffNet with | .ok fn => sameFast fn ffFast | .error _ => false) = true := by decide
example : Fast.TransWF ffNet ffLvl = true := by decide
example : Fast.InputsCanon ffNet = true := by decide
example : Fast.NoDupConn ffFast := by decide
/-- the transported ranking: output (index 2) rank 2, hidden (index 3) rank 1 -/
example : (List.range 4).map (Fast.lvlF ffNet ffLvl) = [0, 0, 2, 1] := by decide
/-- fast forward stepping with k = depth = 2, recursive activation and relaxation give 80 = `evalNode` (Props/C12) -/
example : Fast.readOutputs ffFast (Fast.forwardSteps ffFast sigmaInt 2 (Fast.loadSensors ffFast [10] (Fast.init ffFast)).1).1
    = [80] := by decide
example : Fast.readOutputs ffFast (Fast.recursiveSteps ffFast sigmaInt (Fast.loadSensors ffFast [10] (Fast.init ffFast)).1).1
    = [80] := by decide
/-- `Relax(5, δ = 1)`: stops after depth + 1 = 3 steps with result `true` -/
example : Fast.relaxCount ffFast sigmaInt 1 5 (Fast.loadSensors ffFast [10] (Fast.init ffFast)).1 = 3 ∧
    (Fast.relax ffFast sigmaInt 5 1 (Fast.loadSensors ffFast [10] (Fast.init ffFast)).1).2 = (true, none) ∧
    Fast.readOutputs ffFast (Fast.relax ffFast sigmaInt 5 1 (Fast.loadSensors ffFast [10] (Fast.init ffFast)).1).1 = [80] := by
  decide
/-- `Relax(5, δ = 0)`: one step only - the output still misses the hidden neuron's contribution (57 = 5·10 + 7) -/
example : Fast.relaxCount ffFast sigmaInt 0 5 (Fast.loadSensors ffFast [10] (Fast.init ffFast)).1 = 1 ∧
    Fast.readOutputs ffFast (Fast.relax ffFast sigmaInt 5 0 (Fast.loadSensors ffFast [10] (Fast.init ffFast)).1).1 = [57] := by
  decide
/-- the two loaded states agree through the index map (hypotheses `hbias`, `hagree` of `all_solvers_eval`) -/
example : ((Solver.loadSensors ffNet [10] (Solver.init ffNet)).1.map (·.activation)) = [1, 10, 0, 0] ∧
    (Fast.loadSensors ffFast [10] (Fast.init ffFast)).1.signals = [1, 10, 0, 0] ∧
    [0, 1, 2, 3].map (Fast.idx ffNet) = [0, 1, 3, 2] := by decide

end Examples

end GoNeat.C12
