/-
  C11 - a phenotype network expresses exactly the enabled part of its genome, and the network's graph view and
  counts report exactly this structure.

  Kind A: the weight type `W` is arbitrary (`[DecidableEq W]` only to state equalities as Bool); no arithmetic.
  Model: Model/Genesis.lean (`Genome.Genesis`, the gonum adapters of network_graph.go incl. the control-node
  branches of `edgeBetween`, `NodeCount`/`LinkCount`/`Complexity`).  Specification on the GENOME (ids only, no
  indices, no search loops): Spec/Genesis.lean.  Helper lemmas: Proofs/Genesis.lean, Proofs/GraphView.lean.

  Shape of the result: (1) `Genesis` of a well-formed genome yields a network that `expresses` it; (2) on ANY
  network that `expresses` a well-formed genome (in particular the one dumped from the implementation) the
  graph-view queries answer what the genome-level specification says.  Hypotheses, all decidable and evaluated by
  the driver on the real inputs:
    `GenomeOk g`            - node ids pairwise different, every gene endpoint / module wire names a genome node,
                              control-node ids fresh;
    `enabledMods g = []`    - for the edge / From / To theorems of THIS file only (no enabled module); the general
                              versions for any number of enabled modules are in Props/C11Mod.lean
                              (`edge_spec_modular`, `hasEdgeBetween_spec_modular`, `from_to_spec_modular`).
                              `ctrl_overlap_legacy_counterexample`: the pre-513f15a code was wrong there.
-/
import GoNeat.Proofs.Genesis
import GoNeat.Model.LegacyGenesis

namespace GoNeat.C11
open GoNeat GoNeat.Genesis

variable {W : Type} [DecidableEq W]

/-! ## expression -/

/-- C11, first sentence: the phenotype of a well-formed genome has one node per genome node (same id, role,
    activation type, same order), inputs and outputs in genome order, at every node exactly the links of the ENABLED
    genes that end / start there (endpoints, weight, recurrence flag, gene order) - a disabled gene contributes
    nothing -, and one control node per enabled module wired to its listed inputs and outputs -/
theorem genesis_expresses (g : Genome W) (netId : Int) (net : Net W) (hok : GenomeOk g = true)
    (h : genesis g netId = .ok net) : expresses g netId net = true :=
  (expressed_iff g netId net).mpr (genesis_expressed ((ok_iff g).mp hok) h)

/-- the same, spelled out -/
theorem genesis_structure (g : Genome W) (netId : Int) (net : Net W) (hok : GenomeOk g = true)
    (h : genesis g netId = .ok net) :
    net.id = netId ∧
    nodeTriples net.nodes = g.nodes.map (fun n => (n.id, n.kind, n.act)) ∧
    net.inputs = positions (fun n => n.kind == Kind.input || n.kind == Kind.bias) g.nodes 0 ∧
    net.outputs = positions (fun n => n.kind == Kind.output) g.nodes 0 ∧
    (∀ nd ∈ net.nodes, nd.incoming.map (elink net) = linksInto g nd.id ∧ nd.outgoing.map (elink net) = linksOutOf g nd.id) ∧
    nodeTriples net.ctrl = (enabledMods g).map (fun m => (m.ctrl.id, m.ctrl.kind, m.ctrl.act)) ∧
    (∀ p ∈ net.ctrl.zip (enabledMods g), p.1.incoming.map (elink net) = modIns p.2 ∧ p.1.outgoing.map (elink net) = modOuts p.2) :=
  let hx := genesis_expressed ((ok_iff g).mp hok) h
  ⟨hx.id, hx.triples, hx.inputs, hx.outputs, hx.links, hx.ctrlTriples, hx.ctrlLinks⟩

/-- a well-formed genome with at least one gene and an output node is always expressed; the only refusals are
    "no genes" and "no outputs" -/
theorem genesis_total (g : Genome W) (netId : Int) (hok : GenomeOk g = true) (hg : g.genes.isEmpty = false)
    (ho : g.nodes.any (fun n => n.kind == Kind.output) = true) : ∃ net, genesis g netId = .ok net :=
  Genesis.genesis_total ((ok_iff g).mp hok) netId hg ho

omit [DecidableEq W] in
/-- disabled genes contribute nothing: removing them from the genome does not change the phenotype (as long as a
    gene remains, so that the "no genes" refusal is not triggered) -/
theorem genesis_ignores_disabled (g : Genome W) (netId : Int) (h : (g.genes.filter (·.en)).isEmpty = false) :
    genesis { g with genes := g.genes.filter (·.en) } netId = genesis g netId := by
  have hg : g.genes.isEmpty = false := by
    cases hgs : g.genes with
    | nil => simp [hgs] at h
    | cons a l => rfl
  unfold genesis
  simp only [h, hg, linkGenes_filter]

omit [DecidableEq W] in
/-- `NodeCount`, `LinkCount`, `Complexity` of the phenotype, for every genome `Genesis` accepts -/
theorem genesis_counts (g : Genome W) (netId : Int) (net : Net W) (h : genesis g netId = .ok net) :
    nodeCount net = specNodeCount g ∧ linkCount net = specLinkCount g ∧
      complexity net = specNodeCount g + specLinkCount g := by
  obtain ⟨h1, h2⟩ := genesis_counts' h
  unfold complexity specNodeCount specLinkCount enabledMods enabledGenes
  exact ⟨h1, h2, by rw [h1, h2]⟩

omit [DecidableEq W] in
/-- a newly inserted enabled gene shows in the phenotype: the network built AFTER `geneInsert` (what an add-link
    baby is evaluated with since 585232e) has exactly one link more than the one built before -/
theorem new_gene_adds_a_link (g : Genome W) (x : Gene W) (netId : Int) (stale fresh : Net W) (hx : x.en = true)
    (hs : genesis g netId = .ok stale) (hf : addLinkPhenotype g x netId = .ok fresh) :
    linkCount fresh = linkCount stale + 1 ∧ nodeCount fresh = nodeCount stale := by
  obtain ⟨h1, h2⟩ := genesis_counts' hs
  obtain ⟨h3, h4⟩ := genesis_counts' hf
  simp only at h3 h4
  rw [h1, h2, h3, h4]
  unfold geneInsert
  rw [filter_insertAt_length (·.en) g.genes _ x hx]
  omega

/-! ## graph view -/

/-- `Node(id)` and `Nodes()`, modules included: the node (id, role, activation) of the genome node or enabled
    control node with that id; nil for every other id -/
theorem node_spec (g : Genome W) (netId : Int) (net : Net W) (hx : expresses g netId net = true) (u : Int) :
    node? net u = specNode g u ∧ nodeIds net = specNodes g :=
  ⟨node_spec' ((expressed_iff g netId net).mp hx) u, nodes_spec' ((expressed_iff g netId net).mp hx)⟩

/-- `Edge` / `WeightedEdge` / `Weight` / `HasEdgeFromTo` for ALL ordered pairs of ids: the edge returned is the
    first enabled gene `u → v` (its endpoints, weight, recurrence flag); nil / (·, false) / false exactly when no
    enabled gene `u → v` exists - in particular for a disabled gene and when `u` or `v` is no node id -/
theorem edge_spec (g : Genome W) (netId : Int) (net : Net W) (hok : GenomeOk g = true)
    (hx : expresses g netId net = true) (hm : enabledMods g = []) (u v : Int) :
    (edge? net u v).map (elink net) = specEdge g u v ∧
    weight? net u v = (specEdge g u v).map (·.w) ∧
    hasEdgeFromTo net u v = specHasEdge g u v := by
  have hd := edgeBetween_directed ((ok_iff g).mp hok) ((expressed_iff g netId net).mp hx) hm u v
  have hs : specEdge g u v = (EG g).find? (edgeP u v) := by unfold specEdge; rw [dirEdges_nomod hm]; rfl
  refine ⟨by rw [hs]; exact hd, ?_, ?_⟩
  · unfold weight?
    rw [hs, ← hd]
    cases edgeBetween net u v true <;> rfl
  · unfold hasEdgeFromTo specHasEdge
    rw [dirEdges_nomod hm, any_eq_isSome_find, show (fun e : ELink W => e.src == some u && e.dst == some v) = edgeP u v from rfl,
      ← hd]
    cases edgeBetween net u v true <;> rfl

/-- `HasEdgeBetween(x, y)` is the symmetric closure of `HasEdgeFromTo` -/
theorem hasEdgeBetween_spec (g : Genome W) (netId : Int) (net : Net W) (hok : GenomeOk g = true)
    (hx : expresses g netId net = true) (hm : enabledMods g = []) (u v : Int) :
    hasEdgeBetween net u v = (specHasEdge g u v || specHasEdge g v u) := by
  have hd := edgeBetween_undirected ((ok_iff g).mp hok) ((expressed_iff g netId net).mp hx) hm u v
  have hs : ∀ a b, specHasEdge g a b = ((EG g).find? (edgeP a b)).isSome := by
    intro a b
    unfold specHasEdge
    rw [dirEdges_nomod hm, any_eq_isSome_find]; rfl
  unfold hasEdgeBetween
  rw [hs, hs]
  have : (edgeBetween net u v false).isSome = ((edgeBetween net u v false).map (elink net)).isSome := by
    cases edgeBetween net u v false <;> rfl
  rw [this, hd]
  cases (EG g).find? (edgeP v u) <;> cases (EG g).find? (edgeP u v) <;> rfl

/-- `From(id)` / `To(id)`: exactly the targets (sources) of the enabled genes leaving (entering) the node, in gene
    order; empty for an id that is no node id -/
theorem from_to_spec (g : Genome W) (netId : Int) (net : Net W) (hx : expresses g netId net = true)
    (hm : enabledMods g = []) (u : Int) : fromIds net u = specFrom g u ∧ toIds net u = specTo g u :=
  ⟨from_spec' ((expressed_iff g netId net).mp hx) hm u, to_spec' ((expressed_iff g netId net).mp hx) hm u⟩

/-- an id that is no node id: every query reports nil / empty / false -/
theorem absent_id (g : Genome W) (netId : Int) (net : Net W) (hok : GenomeOk g = true)
    (hx : expresses g netId net = true) (hm : enabledMods g = []) (u : Int) (hu : u ∉ nodeIds' g) :
    node? net u = none ∧ fromIds net u = [] ∧ toIds net u = [] ∧
    ∀ v, edge? net u v = none ∧ edge? net v u = none ∧ weight? net u v = none ∧ weight? net v u = none ∧
      hasEdgeFromTo net u v = false ∧ hasEdgeFromTo net v u = false ∧ hasEdgeBetween net u v = false ∧
      hasEdgeBetween net v u = false := by
  have hok' := (ok_iff g).mp hok
  have hxe := (expressed_iff g netId net).mp hx
  have hn : specNode g u = none := by
    unfold specNode
    rw [hm, List.map_nil, List.append_nil, List.find?_eq_none]
    intro t ht hp
    obtain ⟨n, hn, rfl⟩ := List.mem_map.mp ht
    exact hu (List.mem_map.mpr ⟨n, hn, by simpa using hp⟩)
  have hnone : ∀ a b, (a = u ∨ b = u) → (EG g).find? (edgeP a b) = none := by
    intro a b hab
    apply EG_find_none_of_absent hok'
    rcases hab with rfl | rfl
    · exact Or.inl hu
    · exact Or.inr hu
  have he : ∀ a b, (a = u ∨ b = u) → edgeBetween net a b true = none := by
    intro a b hab
    have := edgeBetween_directed hok' hxe hm a b
    rw [hnone a b hab] at this
    cases h : edgeBetween net a b true with
    | none => rfl
    | some l => simp [h] at this
  have hb : ∀ a b, (a = u ∨ b = u) → edgeBetween net a b false = none := by
    intro a b hab
    have := edgeBetween_undirected hok' hxe hm a b
    rw [hnone a b hab, hnone b a (hab.symm)] at this
    cases h : edgeBetween net a b false with
    | none => rfl
    | some l => simp [h] at this
  refine ⟨by rw [(node_spec g netId net hx u).1, hn], ?_, ?_, ?_⟩
  · rw [(from_to_spec g netId net hx hm u).1]; simp [specFrom, hu, hm]
  · rw [(from_to_spec g netId net hx hm u).2]; simp [specTo, hu, hm]
  · intro v
    simp [edge?, weight?, hasEdgeFromTo, hasEdgeBetween, he u v (Or.inl rfl), he v u (Or.inr rfl),
      hb u v (Or.inl rfl), hb v u (Or.inr rfl)]

/-- all of the above for the phenotype `Genesis` builds -/
theorem phenotype_graph_view (g : Genome W) (netId : Int) (net : Net W) (hok : GenomeOk g = true)
    (h : genesis g netId = .ok net) (hm : enabledMods g = []) (u v : Int) :
    node? net u = specNode g u ∧ nodeIds net = specNodes g ∧
    (edge? net u v).map (elink net) = specEdge g u v ∧ weight? net u v = (specEdge g u v).map (·.w) ∧
    hasEdgeFromTo net u v = specHasEdge g u v ∧
    hasEdgeBetween net u v = (specHasEdge g u v || specHasEdge g v u) ∧
    fromIds net u = specFrom g u ∧ toIds net u = specTo g u := by
  have hx := genesis_expresses g netId net hok h
  obtain ⟨e1, e2, e3⟩ := edge_spec g netId net hok hx hm u v
  exact ⟨(node_spec g netId net hx u).1, (node_spec g netId net hx u).2, e1, e2, e3,
    hasEdgeBetween_spec g netId net hok hx hm u v, (from_to_spec g netId net hx hm u).1, (from_to_spec g netId net hx hm u).2⟩

/-! ## non-vacuity, and the control-node defect of the unchanged code -/
section Examples

private def nd (id : Int) (kind : Kind) : Node := { id := id, kind := kind, act := 5, trait := none }
private def gene (inn src dst : Int) (w : Nat) (en recur : Bool) : Gene Nat :=
  { inn := inn, src := src, dst := dst, recur := recur, w := w, mnum := 0, en := en, trait := none }

/-- bias 1, input 2, output 3, hidden 4 and 5; genes: enabled, disabled, recurrent, self-loop -/
private def plain : Genome Nat :=
  { id := 1, traits := [], nodes := [nd 1 Kind.bias, nd 2 Kind.input, nd 3 Kind.output, nd 4 Kind.hidden, nd 5 Kind.hidden],
    genes := [gene 1 1 4 11 true false, gene 2 2 4 12 false false, gene 3 4 3 13 true false, gene 4 4 4 14 true true,
              gene 5 3 4 15 true true, gene 6 5 3 16 false false, gene 7 2 5 17 true false] }

/-- the same with an enabled module 10 (reads 4, writes 5) and a disabled module 11 -/
private def modular : Genome Nat :=
  { plain with modules :=
      [{ inn := 8, mnum := 0, en := true, ctrl := nd 10 Kind.hidden, ins := [⟨4, 21, false, none⟩], outs := [⟨5, 22, false, none⟩] },
       { inn := 9, mnum := 0, en := false, ctrl := nd 11 Kind.hidden, ins := [⟨1, 23, false, none⟩], outs := [⟨3, 24, false, none⟩] }] }

/-- module 10 reads node 4 and writes nodes 4 and 5 -/
private def overlap : Genome Nat :=
  { plain with modules :=
      [{ inn := 8, mnum := 0, en := true, ctrl := nd 10 Kind.hidden, ins := [⟨4, 21, false, none⟩],
         outs := [⟨4, 22, false, none⟩, ⟨5, 23, false, none⟩] }] }

private def netOf (g : Genome Nat) : Net Nat :=
  match genesis g 7 with
  | .ok n => n
  | .error _ => { id := 0, nodes := [], inputs := [], outputs := [] }

/-- the hypotheses of the theorems hold on concrete genomes with disabled, recurrent and self-loop genes and
    modules; the expressed network has 5 nodes (+1 control node) and 5 links (+2 wires) -/
example : GenomeOk plain = true ∧ enabledMods plain = [] ∧ (genesis plain 7).isOk = true ∧
    expresses plain 7 (netOf plain) = true ∧ nodeCount (netOf plain) = 5 ∧ linkCount (netOf plain) = 5 := by decide
example : GenomeOk modular = true ∧ expresses modular 7 (netOf modular) = true ∧
    nodeCount (netOf modular) = 6 ∧ linkCount (netOf modular) = 7 ∧ complexity (netOf modular) = 13 := by decide
/-- queries on the plain genome: enabled gene 4→3 (weight 13), disabled gene 5→3, recurrent 3→4, self-loop 4→4,
    absent id 9 -/
example : weight? (netOf plain) 4 3 = some 13 ∧ hasEdgeFromTo (netOf plain) 5 3 = false ∧
    hasEdgeBetween (netOf plain) 5 3 = false ∧ hasEdgeFromTo (netOf plain) 3 4 = true ∧
    hasEdgeFromTo (netOf plain) 4 4 = true ∧ hasEdgeBetween (netOf plain) 5 2 = true ∧
    hasEdgeFromTo (netOf plain) 5 2 = false ∧ node? (netOf plain) 9 = none ∧ fromIds (netOf plain) 9 = [] ∧
    fromIds (netOf plain) 4 = [some 3, some 4] ∧ toIds (netOf plain) 4 = [some 1, some 4, some 3] ∧
    edge? (netOf plain) 9 4 = none := by decide
/-- with the module: the control node is a node of the graph, fed by 4 and feeding 5 -/
example : node? (netOf modular) 10 = some (10, Kind.hidden, 5) ∧ node? (netOf modular) 11 = none ∧
    fromIds (netOf modular) 4 = [some 3, some 4, some 10] ∧ fromIds (netOf modular) 10 = [some 5] ∧
    hasEdgeFromTo (netOf modular) 4 10 = true ∧ hasEdgeFromTo (netOf modular) 10 5 = true ∧
    hasEdgeFromTo (netOf modular) 10 4 = false ∧ hasEdgeBetween (netOf modular) 10 4 = true := by decide

/-- the repaired control-node branch: a module that reads AND writes node 4 - the edge `10 → 4` is found -/
example : GenomeOk overlap = true ∧ expresses overlap 7 (netOf overlap) = true ∧
    fromIds (netOf overlap) 10 = [some 4, some 5] ∧ specHasEdge overlap 10 4 = true ∧
    hasEdgeFromTo (netOf overlap) 10 4 = true ∧ weight? (netOf overlap) 10 4 = some 22 ∧
    hasEdgeFromTo (netOf overlap) 4 10 = true ∧ weight? (netOf overlap) 4 10 = some 21 ∧
    hasEdgeFromTo (netOf overlap) 10 5 = true ∧ hasEdgeBetween (netOf overlap) 10 4 = true := by decide

/-- the pre-513f15a `edgeBetween` (Model/LegacyGenesis.lean) violates C11: the phenotype is expressed correctly and
    `From(10)` lists node 4, but the directed edge query `10 → 4` is denied - the search returned at the matching
    INPUT wire without looking at the output wires - while the specification has the edge (`10 → 5` is found) -/
theorem ctrl_overlap_legacy_counterexample :
    GenomeOk overlap = true ∧ expresses overlap 7 (netOf overlap) = true ∧
    fromIds (netOf overlap) 10 = [some 4, some 5] ∧ specHasEdge overlap 10 4 = true ∧
    Legacy.hasEdgeFromTo (netOf overlap) 10 4 = false ∧ Legacy.weight? (netOf overlap) 10 4 = none ∧
    Legacy.hasEdgeFromTo (netOf overlap) 10 5 = true := by decide

/-- the gene `mutateAddLink` adds: 5 → 4 -/
private def newGene : Gene Nat := gene 8 5 4 18 true false

private def netOfE (r : Except Stop (Net Nat)) : Net Nat :=
  match r with
  | .ok n => n
  | .error _ => { id := 0, nodes := [], inputs := [], outputs := [] }

/-- the pre-585232e phenotype of an add-link baby (built before the insert) violates C11: it does not express the
    mutated genome - the new link 5 → 4 is missing - whereas the repaired one does -/
theorem stale_phenotype_legacy_counterexample :
    GenomeOk { plain with genes := geneInsert plain.genes newGene } = true ∧
    expresses { plain with genes := geneInsert plain.genes newGene } 7 (netOfE (Legacy.addLinkPhenotype plain newGene 7)) = false ∧
    hasEdgeFromTo (netOfE (Legacy.addLinkPhenotype plain newGene 7)) 5 4 = false ∧
    linkCount (netOfE (Legacy.addLinkPhenotype plain newGene 7)) = 5 ∧
    expresses { plain with genes := geneInsert plain.genes newGene } 7 (netOfE (addLinkPhenotype plain newGene 7)) = true ∧
    hasEdgeFromTo (netOfE (addLinkPhenotype plain newGene 7)) 5 4 = true ∧
    linkCount (netOfE (addLinkPhenotype plain newGene 7)) = 6 := by decide

end Examples

end GoNeat.C11
