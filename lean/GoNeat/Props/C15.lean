/-
  C15 — everything the library writes it reads back unchanged.

  Part 1 (this section): the PLAIN genome format, the organism wire form and population files, over the token-line
  model `Model/PlainIO.lean`.  float64 spellings are abstract (`FloatsRoundTrip`: what `%g` prints parses back to
  the same value - validated by the driver on every token Go wrote); the activation registry maps are abstract
  with `ActsRoundTrip` (proved for the regenerated registry table in part 3).
  All statements hold for genomes of every size (induction over the trait, node and gene lists).
-/
import GoNeat.Proofs.PlainIO

namespace GoNeat.C15
open GoNeat.PlainIO

variable {F : Type}

/-- **Plain genome round trip.** For every genome satisfying the decidable `WFio`, what `WriteGenome` prints is
    read back by `plainGenomeReader.Read` as exactly the same genome: same id, traits with the same eight
    parameters, nodes with the same neuron type, activation type and trait pointer, genes with the same endpoints,
    weight, mutation number, innovation number, recurrent and enabled flags and trait pointer. -/
theorem parse_render (C : Codec F) (hF : FloatsRoundTrip C) (hA : ActsRoundTrip C) (g : Genome F)
    (h : WFio C g = true) : parse C (render C g) = .ok g := by
  simp only [WFio, Bool.and_eq_true, decide_eq_true_eq, List.all_eq_true, beq_iff_eq, bne_iff_ne, ne_eq,
    List.isEmpty_iff] at h
  obtain ⟨⟨⟨⟨⟨htr, hndT⟩, hndN⟩, hnodes⟩, hgenes⟩, hmods⟩ := h
  unfold parse render
  simp only [parseLines, step_startLine]
  rw [parseLines_append, parseLines_traits C hF g.traits {} (fun t ht => (htr t ht).1) (by simpa using hndT)]
  simp only [List.nil_append]
  rw [parseLines_append, parseLines_nodes C hA g.nodes _ (by simpa using hnodes) (by simpa using hndN)]
  simp only [List.nil_append]
  rw [parseLines_append, parseLines_genes C hF g.genes _ (by simpa using hgenes)]
  simp only [List.nil_append, parseLines, step_endLine, St.toGenome]
  cases g
  simp_all

/-- the writer side: `WriteGenome` succeeds on such a genome (every activation type has a name) -/
theorem write_ok (C : Codec F) (g : Genome F) (h : WFio C g = true) : write C g = .ok (render C g) := by
  simp only [WFio, Bool.and_eq_true, List.all_eq_true] at h
  have hn := h.1.1.2
  have : writable C g = true := by
    simp only [writable, List.all_eq_true]
    intro n hn'
    have := hn n hn'
    simp only [nodeOK, Bool.and_eq_true] at this
    cases hnm : C.actName n.act with
    | none => simp [hnm] at this
    | some _ => rfl
  simp [write, this]

/-- `ReadGenome(bytes, id)` of the written lines -/
theorem readGenome_render (C : Codec F) (hF : FloatsRoundTrip C) (hA : ActsRoundTrip C) (g : Genome F)
    (h : WFio C g = true) : readGenome C (render C g) g.id = .ok g := by
  simp [readGenome, parse_render C hF hA g h]

/-- **Organism wire form.** `UnmarshalBinary (MarshalBinary o)` restores fitness, generation, highest fitness,
    the champion-child flag and the genome. -/
theorem unmarshal_marshal (C : Codec F) (hF : FloatsRoundTrip C) (hA : ActsRoundTrip C) (o : OrgBin F)
    (h : WFio C o.genotype = true) : unmarshal C (marshal C o) = .ok o := by
  simp [unmarshal, marshal, orgHeader, hF o.fitness, hF o.highestFitness, parseInt_fmtInt, parseBool_fmtBool,
    readGenome_render C hF hA o.genotype h]

/-! ### populations -/

/-- what `ReadPopulation` needs beyond `WFio`: `getLastNodeId`/`getNextGeneInnovNum` fail on an empty genome -/
def WFpop (C : Codec F) (g : Genome F) : Bool := WFio C g && !g.nodes.isEmpty && !g.genes.isEmpty

theorem render_eq (C : Codec F) (g : Genome F) :
    render C g = startLine g.id ::
      ((g.traits.map (traitLine C) ++ (g.nodes.map (nodeLine C) ++ g.genes.map (geneLine C))) ++ [endLine g.id]) := by
  simp [render, List.append_assoc]

theorem bodyLines (C : Codec F) (g : Genome F) :
    ∀ l ∈ g.traits.map (traitLine C) ++ (g.nodes.map (nodeLine C) ++ g.genes.map (geneLine C)), bodyLine l = true := by
  intro l hl
  simp only [List.mem_append, List.mem_map] at hl
  rcases hl with ⟨t, _, rfl⟩ | ⟨n, _, rfl⟩ | ⟨x, _, rfl⟩
  · simp only [traitLine]; split <;> simp [bodyLine]
  · simp [nodeLine, bodyLine]
  · simp [geneLine, bodyLine]

/-- one genome of a population file: from a state without open buffer, the lines of `render g` end with the
    genome appended to the result and the buffer closed again -/
theorem popLines_render (C : Codec F) (hF : FloatsRoundTrip C) (hA : ActsRoundTrip C) (g : Genome F)
    (h : WFpop C g = true) (st : PSt F) (rest : List Line) :
    popLines C st (render C g ++ rest) = popLines C { buf := none, idCheck := -1, out := st.out ++ [g] } rest := by
  simp only [WFpop, Bool.and_eq_true, Bool.not_eq_true'] at h
  obtain ⟨⟨hwf, hn⟩, hg⟩ := h
  rw [render_eq]
  simp only [List.cons_append, popLines]
  have hstart : popStep C st (startLine g.id) = .ok { st with buf := some [startLine g.id], idCheck := g.id } := by
    simp [popStep, popStepKw, startLine, parseInt_fmtInt]
  rw [hstart]
  have hbody := popLines_body C _ { st with buf := some [startLine g.id], idCheck := g.id } [startLine g.id] rfl
    (bodyLines C g)
  -- split the remaining lines: body ++ (endLine :: rest)
  have happ : ∀ (ls1 ls2 : List Line) (s : PSt F), popLines C s (ls1 ++ ls2) =
      match popLines C s ls1 with
      | .error e => .error e
      | .ok s' => popLines C s' ls2 := by
    intro ls1 ls2
    induction ls1 with
    | nil => intro s; simp [popLines]
    | cons l ls ih =>
      intro s
      simp only [List.cons_append, popLines]
      cases popStep C s l with
      | error e => rfl
      | ok s' => exact ih s'
  simp only []
  rw [List.append_assoc, happ, hbody]
  simp only [List.cons_append, List.nil_append, popLines, popStep, endLine, popStepKw,
    show ¬ ("genomeend" = "genomestart") by decide, if_false, if_true, finishGenome]
  have hr : readGenome C (startLine g.id :: ((g.traits.map (traitLine C) ++
      (g.nodes.map (nodeLine C) ++ g.genes.map (geneLine C))) ++ [["genomeend", fmtInt g.id]])) g.id = .ok g := by
    have := readGenome_render C hF hA g hwf
    rw [render_eq] at this
    exact this
  rw [hr]
  simp [hn, hg]

/-- **Population round trip.** A population written genome by genome (`Population.Write`) is read back by
    `ReadPopulation` (with the repair of notes/proposed_fix_C15.patch) as the same genomes in the same order;
    list induction: populations of every size. -/
theorem parsePop_renderPop (C : Codec F) (hF : FloatsRoundTrip C) (hA : ActsRoundTrip C) (gs : List (Genome F))
    (h : ∀ g ∈ gs, WFpop C g = true) : parsePop C (renderPop C gs) = .ok gs := by
  have key : ∀ (gs : List (Genome F)) (st : PSt F), (∀ g ∈ gs, WFpop C g = true) → st.buf = none →
      popLines C st (renderPop C gs) = .ok { buf := none, idCheck := if gs.isEmpty then st.idCheck else -1, out := st.out ++ gs } := by
    intro gs
    induction gs with
    | nil => intro st _ hb; cases st; simp_all [renderPop, popLines]
    | cons g gs ih =>
      intro st hall _
      simp only [renderPop]
      rw [popLines_render C hF hA g (hall g List.mem_cons_self) st]
      rw [ih _ (fun g' hg' => hall g' (List.mem_cons_of_mem _ hg')) rfl]
      cases gs <;> simp
  unfold parsePop
  rw [key gs {} h rfl]
  simp

/-- the same with the comment lines `Species.Write` puts in front of every genome (organism header, winner marker) -/
theorem parsePop_renderPopCommented (C : Codec F) (hF : FloatsRoundTrip C) (hA : ActsRoundTrip C)
    (cgs : List (List (List String) × Genome F))
    (h : ∀ cg ∈ cgs, WFpop C cg.2 = true ∧ ∀ c ∈ cg.1, c ≠ []) :
    parsePop C (renderPopCommented C cgs) = .ok (cgs.map (·.2)) := by
  have key : ∀ (cgs : List (List (List String) × Genome F)) (st : PSt F),
      (∀ cg ∈ cgs, WFpop C cg.2 = true ∧ ∀ c ∈ cg.1, c ≠ []) → st.buf = none →
      ∃ i, popLines C st (renderPopCommented C cgs) = .ok { buf := none, idCheck := i, out := st.out ++ cgs.map (·.2) } := by
    intro cgs
    induction cgs with
    | nil => intro st _ hb; exact ⟨st.idCheck, by cases st; simp_all [renderPopCommented, popLines]⟩
    | cons cg cgs ih =>
      intro st hall _
      obtain ⟨cs, g⟩ := cg
      simp only [renderPopCommented]
      rw [popLines_comments C cs _ st (hall (cs, g) List.mem_cons_self).2,
        popLines_render C hF hA g (hall (cs, g) List.mem_cons_self).1 st]
      obtain ⟨i, hi⟩ := ih { buf := none, idCheck := -1, out := st.out ++ [g] }
        (fun cg' hcg' => hall cg' (List.mem_cons_of_mem _ hcg')) rfl
      exact ⟨i, by simpa [List.append_assoc] using hi⟩
  unfold parsePop
  obtain ⟨i, hi⟩ := key cgs {} h rfl
  rw [hi]
  simp

end GoNeat.C15
