/-
  C15 — everything the library writes it reads back unchanged.

  Part 1 (this section): the PLAIN genome format, the organism wire form and population files, over the token-line
  model `Model/PlainIO.lean`.  float64 spellings are abstract (`FloatsRoundTrip`: what `%g` prints parses back to
  the same value - validated by the driver on every token Go wrote); the activation registry maps are abstract
  with `ActsRoundTrip` (proved for the regenerated registry table in part 3).
  All statements hold for genomes of every size (induction over the trait, node and gene lists).
-/
import GoNeat.Proofs.PlainIO
import GoNeat.Proofs.Codec
import GoNeat.Model.RegistryCodec
import GoNeat.Model.LegacyCodec

namespace GoNeat.C15
open GoNeat.PlainIO

variable {F : Type}

/-- **Plain genome round trip.** For every genome satisfying the decidable `WFio`, what `WriteGenome` prints is
    read back by `plainGenomeReader.Read` as exactly the same genome: same id, traits with the same eight
    parameters, nodes with the same neuron type, activation type and trait pointer, genes with the same endpoints,
    weight, mutation number, innovation number, recurrent and enabled flags and trait pointer. -/
theorem parse_render (C : Codec F) (hF : FloatsRoundTrip C) (hA : ActsRoundTrip C) (g : Genome F)
    (h : WFio C g = true) : parse C (render C g) = .ok g :=
  parse_render_aux C hF hA g h

/-- the writer side: `WriteGenome` succeeds on such a genome (every activation type has a name) -/
theorem write_ok (C : Codec F) (g : Genome F) (h : WFio C g = true) : write C g = .ok (render C g) := by
  simp only [WFio, Bool.and_eq_true, List.all_eq_true] at h
  have hn := h.1.1.2
  have : writable C g = true := by
    simp only [writable, List.all_eq_true]
    intro n hn'
    have := hn n hn'
    simp only [nodeOK, Bool.and_eq_true] at this
    cases hnm : C.actName n.act with
    | none => simp [hnm] at this
    | some _ => rfl
  simp [write, this]

/-- `ReadGenome(bytes, id)` of the written lines -/
theorem readGenome_render (C : Codec F) (hF : FloatsRoundTrip C) (hA : ActsRoundTrip C) (g : Genome F)
    (h : WFio C g = true) : readGenome C (render C g) g.id = .ok g :=
  readGenome_render_aux C hF hA g h

/-- **Organism wire form.** `UnmarshalBinary (MarshalBinary o)` restores fitness, generation, highest fitness,
    the champion-child flag and the genome. -/
theorem unmarshal_marshal (C : Codec F) (hF : FloatsRoundTrip C) (hA : ActsRoundTrip C) (o : OrgBin F)
    (h : WFio C o.genotype = true) : unmarshal C (marshal C o) = .ok o := by
  simp [unmarshal, marshal, orgHeader, hF o.fitness, hF o.highestFitness, parseInt_fmtInt, parseBool_fmtBool,
    readGenome_render C hF hA o.genotype h]

/-! ### populations -/

/-- what `ReadPopulation` needs beyond `WFio`: `getLastNodeId`/`getNextGeneInnovNum` fail on an empty genome -/
def WFpop (C : Codec F) (g : Genome F) : Bool := WFio C g && !g.nodes.isEmpty && !g.genes.isEmpty

theorem render_eq (C : Codec F) (g : Genome F) :
    render C g = startLine g.id ::
      ((g.traits.map (traitLine C) ++ (g.nodes.map (nodeLine C) ++ g.genes.map (geneLine C))) ++ [endLine g.id]) := by
  simp [render, List.append_assoc]

theorem bodyLines (C : Codec F) (g : Genome F) :
    ∀ l ∈ g.traits.map (traitLine C) ++ (g.nodes.map (nodeLine C) ++ g.genes.map (geneLine C)), bodyLine l = true := by
  intro l hl
  simp only [List.mem_append, List.mem_map] at hl
  rcases hl with ⟨t, _, rfl⟩ | ⟨n, _, rfl⟩ | ⟨x, _, rfl⟩
  · simp only [traitLine]; split <;> simp [bodyLine]
  · simp [nodeLine, bodyLine]
  · simp [geneLine, bodyLine]

/-- one genome of a population file: from a state without open buffer, the lines of `render g` end with the
    genome appended to the result and the buffer closed again -/
theorem popLines_render (C : Codec F) (hF : FloatsRoundTrip C) (hA : ActsRoundTrip C) (g : Genome F)
    (h : WFpop C g = true) (st : PSt F) (rest : List Line) :
    popLines C st (render C g ++ rest) = popLines C { buf := none, idCheck := -1, out := st.out ++ [g] } rest := by
  simp only [WFpop, Bool.and_eq_true, Bool.not_eq_true'] at h
  obtain ⟨⟨hwf, hn⟩, hg⟩ := h
  rw [render_eq]
  simp only [List.cons_append, popLines]
  have hstart : popStep C st (startLine g.id) = .ok { st with buf := some [startLine g.id], idCheck := g.id } := by
    simp [popStep, popStepKw, startLine, parseInt_fmtInt]
  rw [hstart]
  have hbody := popLines_body C _ { st with buf := some [startLine g.id], idCheck := g.id } [startLine g.id] rfl
    (bodyLines C g)
  -- split the remaining lines: body ++ (endLine :: rest)
  have happ : ∀ (ls1 ls2 : List Line) (s : PSt F), popLines C s (ls1 ++ ls2) =
      match popLines C s ls1 with
      | .error e => .error e
      | .ok s' => popLines C s' ls2 := by
    intro ls1 ls2
    induction ls1 with
    | nil => intro s; simp [popLines]
    | cons l ls ih =>
      intro s
      simp only [List.cons_append, popLines]
      cases popStep C s l with
      | error e => rfl
      | ok s' => exact ih s'
  simp only []
  rw [List.append_assoc, happ, hbody]
  simp only [List.cons_append, List.nil_append, popLines, popStep, endLine, popStepKw,
    show ¬ ("genomeend" = "genomestart") by decide, if_false, if_true, finishGenome]
  have hr : readGenome C (startLine g.id :: ((g.traits.map (traitLine C) ++
      (g.nodes.map (nodeLine C) ++ g.genes.map (geneLine C))) ++ [["genomeend", fmtInt g.id]])) g.id = .ok g := by
    have := readGenome_render C hF hA g hwf
    rw [render_eq] at this
    exact this
  rw [hr]
  simp [hn, hg]

/-- **Population round trip.** A population written genome by genome (`Population.Write`) is read back by
    `ReadPopulation` (with the repair of notes/proposed_fix_C15.patch) as the same genomes in the same order;
    list induction: populations of every size. -/
theorem parsePop_renderPop (C : Codec F) (hF : FloatsRoundTrip C) (hA : ActsRoundTrip C) (gs : List (Genome F))
    (h : ∀ g ∈ gs, WFpop C g = true) : parsePop C (renderPop C gs) = .ok gs := by
  have key : ∀ (gs : List (Genome F)) (st : PSt F), (∀ g ∈ gs, WFpop C g = true) → st.buf = none →
      popLines C st (renderPop C gs) = .ok { buf := none, idCheck := if gs.isEmpty then st.idCheck else -1, out := st.out ++ gs } := by
    intro gs
    induction gs with
    | nil => intro st _ hb; cases st; simp_all [renderPop, popLines]
    | cons g gs ih =>
      intro st hall _
      simp only [renderPop]
      rw [popLines_render C hF hA g (hall g List.mem_cons_self) st]
      rw [ih _ (fun g' hg' => hall g' (List.mem_cons_of_mem _ hg')) rfl]
      cases gs <;> simp
  unfold parsePop
  rw [key gs {} h rfl]
  simp

/-- the same with the comment lines `Species.Write` puts in front of every genome (organism header, winner marker) -/
theorem parsePop_renderPopCommented (C : Codec F) (hF : FloatsRoundTrip C) (hA : ActsRoundTrip C)
    (cgs : List (List (List String) × Genome F))
    (h : ∀ cg ∈ cgs, WFpop C cg.2 = true ∧ ∀ c ∈ cg.1, c ≠ []) :
    parsePop C (renderPopCommented C cgs) = .ok (cgs.map (·.2)) := by
  have key : ∀ (cgs : List (List (List String) × Genome F)) (st : PSt F),
      (∀ cg ∈ cgs, WFpop C cg.2 = true ∧ ∀ c ∈ cg.1, c ≠ []) → st.buf = none →
      ∃ i, popLines C st (renderPopCommented C cgs) = .ok { buf := none, idCheck := i, out := st.out ++ cgs.map (·.2) } := by
    intro cgs
    induction cgs with
    | nil => intro st _ hb; exact ⟨st.idCheck, by cases st; simp_all [renderPopCommented, popLines]⟩
    | cons cg cgs ih =>
      intro st hall _
      obtain ⟨cs, g⟩ := cg
      simp only [renderPopCommented]
      rw [popLines_comments C cs _ st (hall (cs, g) List.mem_cons_self).2,
        popLines_render C hF hA g (hall (cs, g) List.mem_cons_self).1 st]
      obtain ⟨i, hi⟩ := ih { buf := none, idCheck := -1, out := st.out ++ [g] }
        (fun cg' hcg' => hall cg' (List.mem_cons_of_mem _ hcg')) rfl
      exact ⟨i, by simpa [List.append_assoc] using hi⟩
  unfold parsePop
  obtain ⟨i, hi⟩ := key cgs {} h rfl
  rw [hi]
  simp

end GoNeat.C15

/-! ## Part 2 — field maps of the YAML genome, the saved experiment (gob) and the fast-solver model (JSON)

  yaml.v3 + cast, encoding/gob and encoding/json are trusted to hand back the value tree / value sequence they were
  given; proved here is what the goNEAT code does around them (Model/Codec.lean). -/

namespace GoNeat.C15
open GoNeat.PlainIO GoNeat.Codec

variable {F : Type}

/-- **YAML genome round trip (modules included).** For every genome satisfying `WFyaml` the tree the YAML writer
    builds is taken apart by the YAML reader into the same genome.  `WFyaml` asks of a module what the reader
    rebuilds unconditionally (control node hidden, every module link weight `1.0`, not recurrent, no trait) and
    of every float that the YAML layer gives it back unchanged (`yf x = x`: every float64 but negative zero). -/
theorem decGenome_encGenome [DecidableEq F] (C : Codec F) (hA : ActsRoundTrip C) (K : Consts F) (g : Genome F)
    (h : WFyaml C K g = true) : decGenome C K (encGenome C g) = .ok g := by
  simp only [WFyaml, yamlStable, Bool.and_eq_true, decide_eq_true_eq, List.all_eq_true, beq_iff_eq, bne_iff_ne, ne_eq] at h
  obtain ⟨⟨⟨⟨⟨⟨⟨⟨hsT, hsG⟩, hsM⟩, htr⟩, hndT⟩, hndN⟩, hnodes⟩, hgenes⟩, hmods⟩ := h
  have ht := decTraits_enc K g.traits [] (fun t ht => (htr t ht).1) hsT (by simpa using hndT)
  have hn := decNodes_enc C hA g.traits g.nodes [] hnodes (by simpa using hndN)
  have hg := decGenes_enc K g.traits g.nodes g.genes hgenes hsG
  have hm := decModules_enc C hA K g.traits g.nodes g.modules hmods hsM
  simp only [List.nil_append] at ht hn
  cases g with
  | mk id traits nodes genes modules =>
    simp only at ht hn hg hm
    cases modules with
    | nil => simp [decGenome, encGenome, Codec.get, ht, hn, hg]
    | cons m ms =>
      simp only [List.map_cons] at hm
      simp [decGenome, encGenome, Codec.get, ht, hn, hg, hm]

/-- **Saved experiment round trip.** `Experiment.Decode` applied to the value sequence of `Experiment.Encode`
    restores id, name, every trial, every generation (all thirteen fields) and every champion with its genome,
    and consumes the whole stream — provided every generation has a champion with a genotype (`WFexp`). -/
theorem decExp_encExp (C : Codec F) (hF : FloatsRoundTrip C) (hA : ActsRoundTrip C) (e : Experiment F)
    (h : WFexp C e = true) : decExp C (encExp C e) = .ok (e, []) := by
  simp only [WFexp, List.all_eq_true] at h
  cases e with
  | mk id name trials =>
    have hn : ¬ ((trials.length : Int) < 0) := by omega
    have := decTrials_enc C hF hA trials h []
    simp only [List.append_nil] at this
    simp [decExp, encExp, hn, this]

/-- every statistic derived from the record (fitness, complexity, diversity, winner statistics are functions of
    the restored fields) has the same value on the restored experiment -/
theorem stats_restored {α : Type} (C : Codec F) (hF : FloatsRoundTrip C) (hA : ActsRoundTrip C) (e : Experiment F)
    (h : WFexp C e = true) (stat : Experiment F → α) :
    (decExp C (encExp C e)).toOption.map (fun r => stat r.1) = some (stat e) := by
  rw [decExp_encExp C hF hA e h]; rfl

/-- **Observation (known limit).** A generation WITHOUT champion is encoded without the organism block but decoded
    with one: the last generation of a stream then fails with end-of-stream instead of being restored. -/
theorem nil_champion_not_restored (C : Codec F) (g : Codec.Generation F) (h : g.champion = none) :
    decGen C (encGen C g) = .error .eof := by
  cases g with
  | mk id executed solved fitness age complexity diversity winnerEvals winnerNodes winnerGenes duration trialId champion =>
    simp only at h
    subst h
    simp [decGen, encGen, decOrg]

/-- **Fast-solver model round trip.** `ReadFMNSModel` rebuilds from the written object the same counts, activation
    types, bias list, connections (weights and signals) and modules. -/
theorem decModel_encModel (C : Codec F) (hA : ActsRoundTrip C) (m : FastModel F) (h : WFmodel C m = true) :
    decModel C (encModel C m) = .ok m := by
  simp only [WFmodel, Bool.and_eq_true, decide_eq_true_eq, List.all_eq_true] at h
  obtain ⟨⟨hs, hacts⟩, hmods⟩ := h
  have ha := decActs_enc C hA m.acts hacts
  have hl := decLinks_enc m.conns
  have hb := Codec.decFloats_map (fun x => x) m.biasList (fun _ _ => rfl)
  have hm := decMods_enc C hA m.modules hmods
  cases m with
  | mk id name nInput nSensor nOutput nBias nTotal acts biasList conns modules =>
    simp only at hs ha hl hb hm
    subst hs
    cases modules with
    | nil => simp [decModel, encModel, Codec.get, getInt, getStr, getList, ha, hl, hb, decMods]
    | cons md mds =>
      simp only [List.map_cons] at hm
      simp [decModel, encModel, Codec.get, getInt, getStr, getList, ha, hl, hb, hm]

/-- … hence a solver computing identical outputs: the solver description C12's theorems are about
    (`Fast.FastNet`) is the same, so every run of every operation script from every state gives the same
    observations. -/
theorem model_same_outputs [Scalar F] (C : Codec F) (hA : ActsRoundTrip C) (m : FastModel F) (h : WFmodel C m = true)
    (σ : Nat → F → Option F) (ops : List (Fast.Op F)) (s : Fast.FState F) :
    (decModel C (encModel C m)).toOption.map (fun m' => Fast.run m'.toFastNet σ ops s) =
      some (Fast.run m.toFastNet σ ops s) := by
  rw [decModel_encModel C hA m h]; rfl

end GoNeat.C15

/-! ## Part 3a — the regenerated activator registry -/

namespace GoNeat.C15
open GoNeat.PlainIO GoNeat.Codec

/-- **Registry names round-trip.** In the regenerated activator registry every registered type has a name that
    `ActivationTypeFromName` maps back to it: the hypothesis `ActsRoundTrip` of the theorems above holds for
    the real library, whatever the float spelling. -/
theorem registry_acts_roundtrip {F : Type} (fmtF : F → String) (parseF : String → Option F) :
    ActsRoundTrip (regCodec fmtF parseF) := by
  have table : ∀ r ∈ GoNeat.Gen.Registry.registered, regActOfName r.name = some r.code := by decide
  intro a nm h
  simp only [regCodec, regActName] at h
  cases hf : GoNeat.Gen.Registry.registered.find? (·.code == a) with
  | none => simp [hf] at h
  | some r =>
    simp only [hf, Option.some.injEq] at h
    have hmem := List.mem_of_find?_eq_some hf
    have hcode := List.find?_some hf
    simp only [beq_iff_eq] at hcode
    have := table r hmem
    rw [h, hcode] at this
    exact this

/-- every registered activation type (scalar and module activators) can be written and read by name -/
theorem registry_all_types_writable :
    ∀ r ∈ GoNeat.Gen.Registry.registered, regActName r.code = some r.name := by decide

end GoNeat.C15

/-! ## Non-vacuity and counterexamples -/

namespace GoNeat.C15
open GoNeat.PlainIO GoNeat.Codec

/-- a toy instance: "floats" are naturals printed in decimal; activation names from the real registry -/
def natCodec : Codec Nat :=
  regCodec fmtNat (fun s => match parseInt s with
    | some (.ofNat n) => some n
    | _ => none)

theorem natCodec_floats : FloatsRoundTrip natCodec := by
  intro x
  simp [natCodec, regCodec, parseInt_fmtNat]

/-- one trait, a bias + input + output + hidden node (one with a trait, the others nil), three genes: a disabled
    one, a recurrent self-loop with nil trait, and one with a trait -/
def exGenome : Genome Nat :=
  { id := 7
    traits := [{ id := 1, params := [1, 0, 0, 0, 0, 0, 0, 25] }, { id := 3, params := [0, 0, 0, 0, 0, 0, 0, 0] }]
    nodes := [{ id := 1, kind := Kind.bias, act := 17, trait := none }, { id := 2, kind := Kind.input, act := 17, trait := some 3 },
              { id := 4, kind := Kind.output, act := 4, trait := none }, { id := 9, kind := Kind.hidden, act := 11, trait := some 1 }]
    genes := [{ inn := 1, src := 1, dst := 4, recur := false, w := 5, mnum := 0, en := false, trait := some 1 },
              { inn := 2, src := 9, dst := 9, recur := true, w := 12345678901234567890, mnum := 3, en := true, trait := none },
              { inn := 5, src := 2, dst := 9, recur := false, w := 0, mnum := 0, en := true, trait := some 3 }] }

example : WFio natCodec exGenome = true := by decide
example : WFpop natCodec exGenome = true := by decide
example : WFyaml natCodec { zero := 0, one := 1 } exGenome = true := by decide
example : parse natCodec (render natCodec exGenome) = .ok exGenome :=
  parse_render natCodec natCodec_floats (registry_acts_roundtrip _ _) exGenome (by decide)

def exCtrl : Node := { id := 20, kind := Kind.hidden, act := 21, trait := some 1 }

def exModule : Module Nat :=
  { inn := 9, mnum := 2, en := true, ctrl := exCtrl,
    ins := [{ node := 2, w := 1, recur := false, trait := none }, { node := 9, w := 1, recur := false, trait := none }],
    outs := [{ node := 4, w := 1, recur := false, trait := none }] }

/-- a modular genome as the YAML reader builds it (module link weights `1`) -/
def exModular : Genome Nat := { exGenome with modules := [exModule] }

example : WFyaml natCodec { zero := 0, one := 1 } exModular = true := by decide

def exExperiment : Codec.Experiment Nat :=
  { id := 1, name := "xor", trials := [{ id := 0, gens := [
      { id := 0, executed := 1700000000000000000, solved := true, fitness := [3, 4], age := [1, 1], complexity := [7, 9],
        diversity := 2, winnerEvals := 150, winnerNodes := 4, winnerGenes := 3, duration := 1000, trialId := 0,
        champion := some { fitness := 4, isWinner := true, generation := 0, expectedOffspring := 2, error := 0,
                           genotype := some exGenome } }] }] }

example : WFexp natCodec exExperiment = true := by decide

def exModel : FastModel Nat :=
  { id := 1, name := "m", nInput := 2, nSensor := 3, nOutput := 1, nBias := 1, nTotal := 5, acts := [17, 17, 17, 4, 11],
    biasList := [0, 0, 0, 0, 2], conns := [{ src := 1, tgt := 4, weight := 3, signal := 0 }], modules := [{ act := 21, ins := [1, 2], outs := [4] }] }

example : WFmodel natCodec exModel = true := by decide

/-- **Counterexample against the shipped `ReadPopulation`** (`PlainIO.Legacy`: the per-genome buffer starts with
    `"genomestart <id>"` without a newline, so the first line behind it is glued to it and skipped by the genome
    reader).  Writing the one-genome population `[exGenome]` and reading it back loses the first trait (id 1)
    and with it the trait pointer of the first gene; with the repair (`parsePop`) both are restored. -/
theorem readPopulation_legacy_counterexample :
    (Legacy.parsePop natCodec (renderPop natCodec [exGenome])).toOption.map
        (·.map fun g => (g.traits.map (·.id), g.genes.map (·.trait))) = some [([3], [none, none, some 3])] ∧
    (parsePop natCodec (renderPop natCodec [exGenome])).toOption.map
        (·.map fun g => (g.traits.map (·.id), g.genes.map (·.trait))) = some [([1, 3], [some 1, none, some 3])] := by
  decide

/-- **Counterexample against the shipped `NodeWithId`** (`Codec.Legacy.decWires`: the helper answered nil for id 0).
    A module reading node 0 and writing node 1 - legal, `Genome.verify`, `Genesis` and the YAML writer accept it - is
    written, and the pre-repair reader refuses its own writer's output with "no MIMO input node with id: 0"; the repaired
    reader (`decWires`) restores the wires.  Replayed on the real code: op `ioYaml`, family `modular:hand`, node ids
    starting at 0 (VERIF_SEED=2..6 of the unchanged-tree sweep). -/
theorem yaml_module_node_zero_counterexample :
    let nodes : List Node := [{ id := 0, kind := Kind.input, act := 0, trait := none },
                              { id := 1, kind := Kind.output, act := 0, trait := none }]
    let ws : List (Wire Nat) := [{ node := 0, w := 1, recur := false, trait := none }]
    Codec.Legacy.decWires { zero := 0, one := 1 } nodes (encWires 0 ws) = .error (.noModuleNode 0) ∧
    decWires { zero := 0, one := 1 } nodes (encWires 0 ws) = .ok ws := by
  intro nodes ws
  exact ⟨by simp [nodes, ws, encWires, Codec.Legacy.decWires, Codec.get, List.lookup], by simp [nodes, ws, encWires, decWires, Codec.get, List.lookup]⟩

/-- **Observation (YAML modules).** The YAML writer does not write module link weights (`encWires` holds only
    endpoint id and order) and the reader rebuilds every module link as `NewLink(1.0, …)`: whatever the source
    weights were, every module link read back has weight `1.0`, is not recurrent and has no trait. -/
theorem yaml_module_links_read_as_one {F : Type} (K : Consts F) (nodes : List Node) (ws ws' : List (Wire F)) (i : Nat)
    (h : decWires K nodes (encWires i ws) = .ok ws') :
    ∀ w ∈ ws', w.w = K.one ∧ w.recur = false ∧ w.trait = none := by
  induction ws generalizing i ws' with
  | nil => simp [encWires, decWires] at h; subst h; simp
  | cons w ws ih =>
    simp only [encWires, decWires, Codec.get, List.find?, beq_self_eq_true] at h
    split at h
    · cases hd : decWires K nodes (encWires (i + 1) ws) with
      | error e => simp [hd] at h
      | ok r =>
        simp only [hd, Except.ok.injEq] at h
        subst h
        intro x hx
        rcases List.mem_cons.mp hx with rfl | hx
        · exact ⟨rfl, rfl, rfl⟩
        · exact ih r (i + 1) hd x hx
    · simp at h

end GoNeat.C15
