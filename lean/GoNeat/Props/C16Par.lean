/-
  C16(b), second part — the structural mutations of the species goroutines INTERLEAVE on the shared registry at the
  granularity of the Go calls (`Innovations()` snapshot · `NextNodeId()` · `NextInnovationNumber()` · `StoreInnovation`),
  and still every genome is well-formed and C03's consistency holds, for EVERY scheduler.

  Model: Model/ParEpoch.lean — `Prog` (a thread-local computation interrupted by registry operations), the non-atomic
  `mutateAddLinkP` / `mutateAddNodeP` / `mutateConnectSensorsP`, the species goroutine `reproduceSpeciesP`, `pstep` /
  `runSched` (any scheduler list), `parEpoch` (prepare · goroutines under a schedule · arrival in any order · speciate ·
  finalize).
  Tie to the Go code: (1) `nonatomic_eq_atomic` below (without interference = the co-simulated atomic model); (2) the
  non-atomic mutators are CO-SIMULATED UNDER INTERFERENCE: op `parInterleave` (harness ops_interleave.go, driver
  `hParInterleave` in Driver/Parallel.lean) runs the real mutators nested-interleaved on one Population, records the trace
  of registry operations and every thread's random values, and steps `pstep` along that trace - same operation and value
  at every step, same genomes / flags / errors / registry at the end.
    `nonatomic_eq_atomic`, `goroutine_eq_sequential`
                              run back to back on one registry, the non-atomic mutators / the species goroutine ARE the
                              atomic model functions of Model/Mutate.lean / Model/Epoch.lean (co-simulated bit-exactly)
    `regInv_frame`, `invB_frame`, `regInv_of_invB`   (Proofs/ParFrame.lean)
                              the registry hypotheses of the sequential theorems (C01 `RegInv`, C03 `InvB`) are stable
                              under what the other threads do (append records of numbers they own, raise the counters)
    `sched_sound`             (Proofs/ParFrameSound.lean) rely/guarantee: the global invariant + every thread's obligation
                              survive every step of every scheduler
    `par_mutation_wf`         for every scheduler list, any number of threads each mutating its own genome: whatever a
                              thread has returned is well-formed and keeps the IO nodes, trait ids, modules, first gene
    `par_mutation_consistent` … and when all have returned: C03's `Inv` for the final registry and the pool with all
                              results added (one number = one link, one node id = one role, records consistent and
                              pairwise distinct in their numbers, everything at most the counters), and C01's `RegInv`
                              for every genome
    `par_species_quota`       every species goroutine delivers exactly its quota of well-formed babies, any schedule
    `parEpoch_guarantees`     a whole epoch of the parallel executor: size / partition / unique ids (C02), all genomes
                              `WFT` and `PoolOk` (C01), `PopC03` for the extended history (C03) - every schedule, every
                              order of arrival; all invariants re-established
    `parEpochs_guarantees`    any number of parallel epochs with arbitrary evaluations in between
    `consecutive_breaks`      counterexample: a mutator that assumes its two numbers are consecutive (equal to the
                              atomic model when run alone!) makes one number denote two connections under an interleaving
-/
import GoNeat.Proofs.ParFrameEpoch
import GoNeat.Props.C02Epoch
import GoNeat.Proofs.ParFrameAtomic
import GoNeat.Model.LegacyParEpoch

set_option linter.unusedSectionVars false

namespace GoNeat.C16
open GoNeat GoNeat.C03 GoNeat.C01 Scalar
variable {W : Type} [Scalar W]

/-! ### the model is the atomic model when nothing interleaves -/

/-- **non-atomic = atomic when run alone.** Executing the registry operations of a structural mutator back to back
    on one registry gives exactly what the atomic model function gives: same genome, same registry, same flag, same
    rest of the random stream, same error. -/
theorem nonatomic_eq_atomic (k : MutKind W) (g : Genome W) (reg : Reg W) (rs : List Nat) :
    packM ((k.prog g rs).run reg) = k.atomic g reg rs := mutKind_run k g reg rs

/-- **the species goroutine run alone = `Species.reproduce` of the sequential model** (same babies, registry, allocation
    counter, rest of the random stream, error) -/
theorem goroutine_eq_sequential (o : EpochOpts W) (generation : Int) (s : Species W) (sorted : List (Species W)) (reg : Reg W)
    (nextUid : Nat) (rs : List Nat) :
    packB ((reproduceSpeciesP o generation s sorted reg nextUid rs).run reg) = reproduceSpecies o generation s sorted reg nextUid rs :=
  reproduceSpeciesP_run o generation s sorted reg nextUid rs

/-- `Prog.run` is "one `Prog.step` after the other" -/
theorem run_step {α : Type} (p : Prog W α) (reg : Reg W) : (p.step reg).1.run (p.step reg).2 = p.run reg := by
  cases p <;> rfl

/-! ### n threads, each mutating its own genome -/

/-- one thread's job: which mutation, on which genome, with which random numbers -/
structure Job (W : Type) where
  kind : MutKind W
  g : Genome W
  rs : List Nat

def startState (reg : Reg W) (jobs : List (Job W)) : PState W (MRes W) :=
  { reg := reg, threads := jobs.map (fun j => j.kind.prog j.g j.rs) }

/-- the genomes the finished threads have returned -/
def results (st : PState W (MRes W)) : List (Genome W) :=
  st.threads.filterMap (fun p => match p.result? with
    | some (.ok ((g', _), _)) => some g'
    | _ => none)

/-- every thread has returned without error -/
def AllDone (st : PState W (MRes W)) : Prop :=
  ∀ p ∈ st.threads, ∃ g' b rs', p = .done (.ok ((g', b), rs'))

/-- hypotheses on the start of the parallel phase: the pool `P` (which holds every job's genome) and the registry
    satisfy C03's invariant; `bi` is a base counter: every recorded number is above it, every job genome's first gene is
    at most it (at the start of an epoch the records are empty and `bi` = the innovation counter does) -/
structure StartOk (bi : Int) (reg : Reg W) (P : List (Genome W)) (jobs : List (Job W)) : Prop where
  inv : C03.Inv reg P
  mem : ∀ j ∈ jobs, j.g ∈ P
  wf : ∀ j ∈ jobs, WFT j.g
  head : ∀ j ∈ jobs, HeadLe bi j.g
  recAbove : ∀ k ∈ regInns reg, bi < k
  le : bi ≤ reg.nextInn

def jobPost (P : List (Genome W)) (jobs : List (Job W)) (t : Nat) : Local W → MRes W → Prop :=
  match jobs[t]? with
  | some j => MutPost j.g (view0 P)
  | none => fun _ _ => True

theorem start_covered {bi : Int} {reg : Reg W} {P : List (Genome W)} {jobs : List (Job W)} (h : StartOk bi reg P jobs) :
    Covered bi (jobPost P jobs) (binds P) (roles P) (startState reg jobs) := by
  refine ⟨⟨binds P, roles P, [], []⟩, fun _ => view0 P, ?_, ?_⟩
  · refine ⟨⟨h.inv, by simp, by simp, by simp, by simp, by simp, by simp, by simp, by simp, h.recAbove, by simp, h.le⟩,
            fun t => ⟨fun _ hb => hb, fun _ hp => hp, by simp [view0], by simp [view0], by simp [view0]⟩,
            fun _ hb => .inl hb, fun _ hp => .inl hp, fun _ hb => hb, fun _ hp => hp⟩
  · intro t p hp
    simp only [startState, List.getElem?_map] at hp
    cases hj : jobs[t]? with
    | none => rw [hj] at hp; cases hp
    | some j =>
      rw [hj] at hp
      simp only [Option.map_some, Option.some.injEq] at hp
      subst hp
      have hjm : j ∈ jobs := List.mem_of_getElem? hj
      unfold jobPost
      rw [hj]
      exact mutKind_valid j.kind j.g j.rs (view0 P) (h.wf j hjm)
        ⟨fun x hx => mem_binds_of_mem (h.mem j hjm) hx, fun n hn => mem_roles_of_mem (h.mem j hjm) hn⟩ (h.head j hjm)

/-- **C16, well-formedness under interleaving.** For ANY scheduler list interleaving the registry operations of any number
    of threads, each running one structural mutation (add-link / add-node / connect-sensors, any options, any random
    numbers) on its own well-formed genome: whenever a thread has returned `(g', flag)`, `g'` is well-formed (`WFT`),
    retains the input / bias / output nodes of the genome it started from, and is a structural step of it (old nodes and
    bindings kept, new nodes hidden, trait ids / modules / first gene unchanged). -/
theorem par_mutation_wf (bi : Int) (reg : Reg W) (P : List (Genome W)) (jobs : List (Job W)) (sched : List Nat)
    (h : StartOk bi reg P jobs) (t : Nat) (j : Job W) (hj : jobs[t]? = some j) (g' : Genome W) (b : Bool) (rs' : List Nat)
    (hdone : (runSched (startState reg jobs) sched).threads[t]? = some (.done (.ok ((g', b), rs')))) :
    WFT g' ∧ Retains j.g g' ∧ LStep j.g g' := by
  obtain ⟨G, Ls, hg, hv⟩ := (sched_sound sched (start_covered h)).ex
  have ht : t < (runSched (startState reg jobs) sched).threads.length := by
    rcases Nat.lt_or_ge t (runSched (startState reg jobs) sched).threads.length with h' | h'
    · exact h'
    · rw [List.getElem?_eq_none h'] at hdone; cases hdone
  obtain ⟨G', L', _, hp⟩ := flush ht (hv t _ hdone) rfl hg rfl
  unfold jobPost at hp
  rw [hj] at hp
  exact ⟨hp.1, hp.2.1.retains, hp.2.1⟩

theorem mem_binds {gs : List (Genome W)} {b : Bind} : b ∈ binds gs ↔ ∃ g ∈ gs, b ∈ gb g := by
  simp [binds, List.mem_flatMap]
theorem mem_roles {gs : List (Genome W)} {p : Role} : p ∈ roles gs ↔ ∃ g ∈ gs, p ∈ gr g := by
  simp [roles, List.mem_flatMap]

/-- **C16, C03's consistency under interleaving.** For ANY scheduler list after which all threads have returned without
    error: the final registry and the pool with ALL resulting genomes added satisfy C03's invariant `Inv` - an innovation
    number denotes one link and a node id one role across all genomes (`ConsistentGenes`, `ConsistentRoles`), every
    record denotes in the pool what it recorded and no two records carry the same number or node id (`RegCompat`; two
    threads that create the same link / split concurrently store two records with DIFFERENT numbers), everything held or
    recorded is at most the counters (`CounterAbove`) - and every genome satisfies C01's registry invariant `RegInv` for
    the final registry, so that the sequential theorems apply again afterwards. -/
theorem par_mutation_consistent (bi : Int) (reg : Reg W) (P : List (Genome W)) (jobs : List (Job W)) (sched : List Nat)
    (h : StartOk bi reg P jobs) (hall : AllDone (runSched (startState reg jobs) sched)) :
    let st := runSched (startState reg jobs) sched
    C03.Inv st.reg (results st ++ P) ∧ (∀ g' ∈ results st ++ P, C01.RegInv st.reg g') ∧
    reg.nextInn ≤ st.reg.nextInn ∧ reg.nextNode ≤ st.reg.nextNode := by
  intro st
  obtain ⟨G, Ls, hg, hpost⟩ := flush_all (sched_sound sched (start_covered h))
  have hlen : st.threads.length = jobs.length := by
    show (runSched (startState reg jobs) sched).threads.length = _
    rw [runSched_length]; simp [startState]
  -- every thread's result and its view
  have hres : ∀ t, t < st.threads.length → ∃ j g' b rs', jobs[t]? = some j ∧
      st.threads[t]? = some (.done (.ok ((g', b), rs'))) ∧ ViewExt (view0 P) (Ls t) g' := by
    intro t ht
    have hp : st.threads[t]? = some st.threads[t] := List.getElem?_eq_getElem ht
    obtain ⟨g', b, rs', e⟩ := hall _ (List.getElem_mem ht)
    rw [e] at hp
    have := hpost t _ hp
    have hjt : t < jobs.length := hlen ▸ ht
    unfold jobPost at this
    rw [List.getElem?_eq_getElem hjt] at this
    exact ⟨jobs[t], g', b, rs', List.getElem?_eq_getElem hjt, hp, this.2.2⟩
  have hmemres : ∀ g', g' ∈ results st ↔ ∃ (t : Nat) (b : Bool) (rs' : List Nat), st.threads[t]? = some (Prog.done (Except.ok ((g', b), rs'))) := by
    intro g'
    unfold results
    rw [List.mem_filterMap]
    constructor
    · rintro ⟨p, hp, hm⟩
      obtain ⟨g1, b, rs', rfl⟩ := hall p hp
      simp only [Prog.result?, Option.some.injEq] at hm
      subst hm
      obtain ⟨t, ht, e⟩ := List.getElem_of_mem hp
      exact ⟨t, b, rs', by rw [List.getElem?_eq_getElem ht, e]⟩
    · rintro ⟨t, b, rs', ht⟩
      exact ⟨_, List.mem_of_getElem? ht, rfl⟩
  have hB1 : ∀ b ∈ binds (results st ++ P), b ∈ G.B := by
    intro b hb
    obtain ⟨g', hg', hbg⟩ := mem_binds.mp hb
    rcases List.mem_append.mp hg' with hr | hP
    · obtain ⟨t, b', rs', ht⟩ := (hmemres g').mp hr
      have htl : t < st.threads.length := by
        rcases Nat.lt_or_ge t st.threads.length with h' | h'
        · exact h'
        · rw [List.getElem?_eq_none h'] at ht; cases ht
      obtain ⟨j, g1, b1, rs1, _, ht1, hv⟩ := hres t htl
      rw [ht] at ht1
      cases ht1
      obtain ⟨x, hx, rfl⟩ := List.mem_map.mp hbg
      exact (hg.loc t).subB _ (hv.holdB x hx)
    · exact hg.baseB b (mem_binds.mpr ⟨g', hP, hbg⟩)
  have hR1 : ∀ p ∈ roles (results st ++ P), p ∈ G.R := by
    intro p hp
    obtain ⟨g', hg', hpg⟩ := mem_roles.mp hp
    rcases List.mem_append.mp hg' with hr | hP
    · obtain ⟨t, b', rs', ht⟩ := (hmemres g').mp hr
      have htl : t < st.threads.length := by
        rcases Nat.lt_or_ge t st.threads.length with h' | h'
        · exact h'
        · rw [List.getElem?_eq_none h'] at ht; cases ht
      obtain ⟨j, g1, b1, rs1, _, ht1, hv⟩ := hres t htl
      rw [ht] at ht1
      cases ht1
      obtain ⟨x, hx, rfl⟩ := List.mem_map.mp hpg
      exact (hg.loc t).subR _ (hv.holdR x hx)
    · exact hg.baseR p (mem_roles.mpr ⟨g', hP, hpg⟩)
  have hB2 : ∀ b ∈ G.B, b ∈ binds (results st ++ P) := by
    intro b hb
    rcases hg.covB b hb with h0 | ⟨t, ht, hm⟩
    · obtain ⟨g', hg', hbg⟩ := mem_binds.mp h0
      exact mem_binds.mpr ⟨g', List.mem_append_right _ hg', hbg⟩
    · obtain ⟨j, g1, b1, rs1, _, ht1, hv⟩ := hres t ht
      rcases hv.exactB b hm with h0 | h1
      · obtain ⟨g', hg', hbg⟩ := mem_binds.mp h0
        exact mem_binds.mpr ⟨g', List.mem_append_right _ hg', hbg⟩
      · exact mem_binds.mpr ⟨g1, List.mem_append_left _ ((hmemres g1).mpr ⟨t, b1, rs1, ht1⟩), h1⟩
  have hinv : C03.Inv st.reg (results st ++ P) := hg.glob.inv.congr hB1 hB2 hR1
  refine ⟨hinv, fun g' hg' => ?_, ?_, ?_⟩
  · exact regInv_of_invB hinv (fun x hx => mem_binds_of_mem hg' hx) (fun n hn => mem_roles_of_mem hg' hn)
  · exact (runSched_mono sched (startState reg jobs)).1
  · exact (runSched_mono sched (startState reg jobs)).2.1

/-- the start hypotheses at the beginning of an epoch (no records): the innovation counter is a base counter -/
theorem startOk_of_empty (reg : Reg W) (P : List (Genome W)) (jobs : List (Job W)) (hinv : C03.Inv reg P)
    (hrec : reg.records = []) (hmem : ∀ j ∈ jobs, j.g ∈ P) (hwf : ∀ j ∈ jobs, WFT j.g) : StartOk reg.nextInn reg P jobs := by
  refine ⟨hinv, hmem, hwf, fun j hj h0 h0m => ?_, by simp [regInns_def, hrec], Int.le_refl _⟩
  exact hinv.above.inns _ (mem_binds_of_mem (hmem j hj) (List.mem_of_mem_take h0m))

/-- executable form of `AllDone` -/
def allDoneB (st : PState W (MRes W)) : Bool :=
  st.threads.all (fun p => match p.result? with
    | some (.ok _) => true
    | _ => false)

theorem allDone_of_B (st : PState W (MRes W)) (h : allDoneB st = true) : AllDone st := by
  intro p hp
  have := List.all_eq_true.mp h p hp
  cases p with
  | done a =>
    cases a with
    | error e => simp [Prog.result?] at this
    | ok v => obtain ⟨⟨g', b⟩, rs'⟩ := v; exact ⟨g', b, rs', rfl⟩
  | snap k => simp [Prog.result?] at this
  | nextNode k => simp [Prog.result?] at this
  | nextInn k => simp [Prog.result?] at this
  | store i k => simp [Prog.result?] at this

/-! ### the whole epoch of the parallel executor -/

/-- **C16: every species goroutine delivers exactly its quota of well-formed babies** - for every scheduler list and all
    random numbers: whenever goroutine `t` has returned `babies`, their number is the `expectedOffspring` of species `t`
    and every baby genome is well-formed. -/
theorem par_species_quota (X H : List (Genome W)) (o : EpochOpts W) (generation : Int) (p1 : Pop W) (ex : ExecState)
    (streams : List (List Nat)) (sched : List Nat) (hP1 : PoolOk p1.reg (X ++ genomesOfPop p1)) (hc1 : PopC03 H p1)
    (hX : ∀ g ∈ X, GenomeIn H g) (t : Nat) (bs : List (Org W)) (uid : Nat) (rs' : List Nat)
    (hdone : (runSched ({ reg := p1.reg, threads := speciesThreads o generation p1 ex streams } : PState W (BRes W)) sched).threads[t]?
        = some (Prog.done (Except.ok ((bs, uid), rs')))) :
    ∃ s, p1.species[t]? = some s ∧ bs.length = s.expectedOffspring.toNat ∧ ∀ b ∈ bs, WFT b.genome :=
  parSpecies_delivers X H o generation p1 ex streams sched hP1 hc1 hX t bs uid rs' hdone

open GoNeat.C02 in
/-- **C16: an epoch of the parallel executor gives the guarantees of the sequential one - for every schedule.**
    `parEpoch` (Model/ParEpoch.lean): sequential preparation; one goroutine per species (`reproduceSpeciesP` = the
    sequential `Species.reproduce`, `reproduceSpeciesP_run`) over the shared registry under an ARBITRARY scheduler list,
    with arbitrary random numbers per goroutine; the babies collected in an ARBITRARY order of arrival and decoded into
    fresh objects; `speciate`; `finalizeReproduction`.  If it returns (no goroutine failed), then for a population that
    satisfies the invariants of the sequential theorems (`UidInv`, `SpIdInv` of C02, `PoolOk` of C01, `PopC03` of C03):
    * **size / partition / ids (C02)**: exactly `PopSize` organisms, no duplicates, the organism list is the concatenation of
      the species' member lists, no empty species, nobody of the previous generation, unique genome ids, unique species ids;
    * **well-formed genomes (C01)**: every genome is `WFT`, and the whole pool invariant `PoolOk` holds again;
    * **innovation consistency (C03)**: `PopC03` holds for the history extended by every baby - an innovation number
      denotes one link and a node id one role across ALL genomes that ever lived (`same_number_same_link` applies), counters
      never fall, the records are cleared;
    and all invariants hold again, so the statement iterates over any number of epochs (`parEpochs_guarantees`). -/
theorem parEpoch_guarantees (X H : List (Genome W)) (o : EpochOpts W) (generation : Int) (p p' : Pop W) (ps : ParSchedule)
    (rs rs' : List Nat) (hu : UidInv p) (hs : SpIdInv p) (hP : PoolOk p.reg (X ++ genomesOfPop p)) (hc : PopC03 H p)
    (hX : ∀ g ∈ X, GenomeIn H g) (h : parEpoch o generation p ps rs = .ok (p', rs')) :
    (p'.organisms.length = o.popSize ∧ p'.organisms.Nodup ∧ p'.organisms = orgUids p'.species ∧
      (∀ s ∈ p'.species, s.orgs ≠ []) ∧ (∀ u ∈ p'.organisms, u ∉ p.organisms) ∧ (genomeIds p'.species).Nodup ∧
      UidInv p' ∧ SpIdInv p') ∧
    ((∀ g ∈ genomesOfPop p', WFT g) ∧ PoolOk p'.reg (X ++ genomesOfPop p')) ∧
    (∃ H', Ext H H' ∧ PopC03 H' p' ∧ CtrLe p.reg p'.reg ∧ ∀ g ∈ X, GenomeIn H' g) := by
  unfold parEpoch at h
  split at h
  · cases h
  rename_i p1 ex rs1 hprep
  split at h
  · cases h
  rename_i p2 hrep
  simp only [Except.ok.injEq, Prod.mk.injEq] at h
  obtain ⟨rfl, _⟩ := h
  -- the preparation phase (sequential lemmas)
  obtain ⟨hsubG, hreg⟩ := prepare_genomes o p p1 ex rs rs1 hprep
  have hP1 : PoolOk p1.reg (X ++ genomesOfPop p1) := by
    rw [hreg]
    apply hP.subset
    intro g hg
    rcases List.mem_append.mp hg with hx | hg
    · exact List.mem_append_left _ hx
    · obtain ⟨s, hs', x, hx, rfl⟩ := mem_genomesOfPop.mp hg
      obtain ⟨s0, hs0, y, hy, e⟩ := hsubG s hs' x hx
      exact List.mem_append_right _ (mem_genomesOfPop.mpr ⟨s0, hs0, y, hy, e⟩)
  obtain ⟨hfrom, _⟩ := prepare_from o p p1 ex rs rs1 hprep
  have hc1 : PopC03 H p1 := ⟨hreg ▸ hc.inv, AllOrgs.from hc.cov hfrom, by rw [hreg]; exact hc.norec⟩
  obtain ⟨hu1, hsubO⟩ := prepare_uidInv o p p1 ex rs rs1 hs.nodup hu hprep
  obtain ⟨hlast, hnu, doomed, mid, _, hsub0, _, hsp⟩ := prepare_spec o p p1 ex rs rs1 hs.nodup hprep
  have hs1 : SpIdInv p1 := by
    have hsub : (p1.species.map skey).Sublist (p.species.map skey) := by
      rw [hsp, map_skeys_of_pres _ _ (by intro s; rfl)]; exact hsub0
    refine ⟨(ids_sublist_of_keys hsub).nodup hs.nodup, ?_⟩
    intro s hs'
    have : skey s ∈ p.species.map skey := hsub.subset (List.mem_map_of_mem hs')
    obtain ⟨s0, hs0, e⟩ := List.mem_map.mp this
    have := hs.le s0 hs0
    have e1 := congrArg Prod.fst e
    simp only [skey] at e1
    rw [hlast, ← e1]; exact this
  -- the parallel phase
  obtain ⟨babies, regF, G, hlen, hspec, hglob, hbB, hbR, hbabies, hci, hcn⟩ :=
    parReproduce_facts X H o generation p1 p2 ex ps hP1 hc1 hX hrep
  obtain ⟨hdu, hdg⟩ := decodeAll_spec p1.nextUid babies
  obtain ⟨horgs, hreg2⟩ := speciate_orgs o _ _ _ hspec
  have hreg2' : p2.reg = regF := hreg2
  obtain ⟨f1, f2, f3, _, f5, _⟩ := finalize_spec p2
  obtain ⟨hfromF, hregF⟩ := finalize_from p2
  -- C02: the join
  have hu1' : UidInv ({ p1 with reg := regF } : Pop W) := ⟨hu1.listed, hu1.below⟩
  have hs1' : SpIdInv ({ p1 with reg := regF } : Pop W) := ⟨hs1.nodup, hs1.le⟩
  have hjoin := speciate_finalize_popInv o _ p2 (decodeAll p1.nextUid babies) hu1' hs1'
    (by rw [hdu]; exact List.nodup_range')
    (by rw [hdu]; intro u hu'; exact (List.mem_range'_1.mp hu').1)
    (by rw [← hlen]; have := congrArg List.length hdu; simpa using this) hspec
  simp only at hjoin
  obtain ⟨j1, j2, j3, j4, _, j6, j7⟩ := hjoin
  -- where the new organisms come from
  have hnewuid : ∀ u ∈ (finalizeReproduction p2).organisms, p1.nextUid ≤ u ∧ u < p1.nextUid + o.popSize := by
    intro u hu'
    unfold speciate at hspec
    split at hspec
    · cases hspec
    · obtain ⟨hperm, horg, _⟩ := speciateLoop_uids o _ _ _ hspec
      simp only at hperm horg
      rw [f1, f3, List.mem_filter] at hu'
      obtain ⟨hu1m, hu2m⟩ := hu'
      rw [horg] at hu2m
      rcases List.mem_append.mp (hperm.mem_iff.mp hu1m) with hb | hold
      · rw [hdu] at hb
        have := List.mem_range'_1.mp hb
        omega
      · have := hu1.listed u hold
        simp [this] at hu2m
  refine ⟨⟨j1, j2, j3, j4, ?_, j6, ⟨fun u hu' => by rw [j3]; exact hu', fun u hu' => (hnewuid u hu').2⟩, ⟨j7.nodup, j7.le⟩⟩, ?_, ?_⟩
  · intro u hu' hmem
    have := hu.below u hmem
    have := (hnewuid u hu').1
    omega
  · -- C01
    have hpool : PoolOk regF ((X ++ genomesOfPop p1) ++ babies.map (·.genome)) := by
      apply poolOk_join hglob
      intro m hm
      rcases List.mem_append.mp hm with hm0 | hmb
      · have hin : GenomeIn H m := by
          rcases List.mem_append.mp hm0 with hx | hg
          · exact hX m hx
          · obtain ⟨s, hs', x, hx, rfl⟩ := mem_genomesOfPop.mp hg
            exact hc1.cov s hs' x hx
        exact ⟨(hP1 m hm0).wft, ⟨m, hP1 m hm0, LStep.refl m⟩, ⟨m, hm0⟩,
               fun x hx => hbB _ (hin.1 _ (List.mem_map_of_mem hx)), fun n hn => hbR _ (hin.2 _ (List.mem_map_of_mem hn))⟩
      · obtain ⟨b, hb, rfl⟩ := List.mem_map.mp hmb
        exact hbabies b hb
    have hpool2 : PoolOk p2.reg (X ++ genomesOfPop p2) := by
      rw [hreg2']
      apply hpool.subset
      intro g hg
      rcases List.mem_append.mp hg with hx | hg
      · exact List.mem_append_left _ (List.mem_append_left _ hx)
      · obtain ⟨s, hs', x, hx, rfl⟩ := mem_genomesOfPop.mp hg
        rcases horgs x (mem_allOrgs.mpr ⟨s, hs', hx⟩) with h' | h'
        · obtain ⟨s0, hs0, hx0⟩ := mem_allOrgs.mp h'
          exact List.mem_append_left _ (List.mem_append_right _ (mem_genomesOfPop.mpr ⟨s0, hs0, x, hx0, rfl⟩))
        · refine List.mem_append_right _ ?_
          rw [← hdg]; exact List.mem_map_of_mem h'
    have hfin := finalize_closed X p2 hpool2
    exact ⟨fun g hg => (hfin g (List.mem_append_right _ hg)).wft, hfin⟩
  · -- C03
    refine ⟨babies.map (·.genome) ++ H, ⟨_, rfl⟩, ⟨?_, ?_, f5⟩, ⟨?_, ?_⟩, ?_⟩
    · show C03.Inv (finalizeReproduction p2).reg _
      rw [hregF, hreg2']
      apply inv_cleared hglob
      · intro b hb
        rw [binds_append] at hb
        rcases List.mem_append.mp hb with hb | hb
        · obtain ⟨g, hg, hbg⟩ := mem_binds.mp hb
          obtain ⟨x, hx, rfl⟩ := List.mem_map.mp hg
          obtain ⟨y, hy, rfl⟩ := List.mem_map.mp hbg
          exact (hbabies x hx).B y hy
        · exact hbB b hb
      · intro r hr
        rw [roles_append] at hr
        rcases List.mem_append.mp hr with hr | hr
        · obtain ⟨g, hg, hrg⟩ := mem_roles.mp hr
          obtain ⟨x, hx, rfl⟩ := List.mem_map.mp hg
          obtain ⟨y, hy, rfl⟩ := List.mem_map.mp hrg
          exact (hbabies x hx).R y hy
        · exact hbR r hr
    · show C03.Covered _ (finalizeReproduction p2).species
      refine AllOrgs.from ?_ hfromF
      intro s hs' x hx
      rcases horgs x (mem_allOrgs.mpr ⟨s, hs', hx⟩) with h' | h'
      · obtain ⟨s0, hs0, hx0⟩ := mem_allOrgs.mp h'
        exact GenomeIn.mono (hc1.cov s0 hs0 x hx0) ⟨_, rfl⟩
      · have hgm : x.genome ∈ babies.map (·.genome) := by rw [← hdg]; exact List.mem_map_of_mem h'
        exact ⟨fun b hb => by
                 obtain ⟨y, hy, rfl⟩ := List.mem_map.mp hb
                 exact mem_binds_of_mem (List.mem_append_left _ hgm) hy,
               fun r hr => by
                 obtain ⟨y, hy, rfl⟩ := List.mem_map.mp hr
                 exact mem_roles_of_mem (List.mem_append_left _ hgm) hy⟩
    · show p.reg.nextInn ≤ (finalizeReproduction p2).reg.nextInn
      rw [← hreg, hregF, hreg2']; exact hci
    · show p.reg.nextNode ≤ (finalizeReproduction p2).reg.nextNode
      rw [← hreg, hregF, hreg2']; exact hcn
    · intro g hg
      exact GenomeIn.mono (hX g hg) ⟨_, rfl⟩

/-! ### any number of parallel epochs, with arbitrary evaluations in between -/

/-- `k` generations of the parallel executor: evaluate, turn over under a schedule, evaluate, … -/
def parEpochs (o : EpochOpts W) : List (ParSchedule × (Pop W → Pop W)) → Int → Pop W → Rand (Pop W)
  | [], _, p, rs => .ok (p, rs)
  | (ps, ev) :: rest, gen, p, rs =>
    match parEpoch o gen (ev p) ps rs with
    | .error e => .error e
    | .ok (p', rs') => parEpochs o rest (gen + 1) p' rs'

/-- what an evaluation between two epochs may not change: which organisms exist and where, the species' ids / ages / flags
    (`C02.SameShape`), the registry, and the genomes -/
def EvalOk (ev : Pop W → Pop W) : Prop :=
  ∀ p, C02.SameShape p (ev p) ∧ (ev p).reg = p.reg ∧ GenomesSub (ev p).species p.species

/-- the invariants of C02, C01 and C03 together -/
structure ParInv (X H : List (Genome W)) (p : Pop W) : Prop where
  uid : C02.UidInv p
  spid : C02.SpIdInv p
  pool : PoolOk p.reg (X ++ genomesOfPop p)
  c03 : PopC03 H p
  hX : ∀ g ∈ X, GenomeIn H g

theorem ParInv.eval {X H : List (Genome W)} {p : Pop W} (h : ParInv X H p) {ev : Pop W → Pop W} (he : EvalOk ev) :
    ParInv X H (ev p) := by
  obtain ⟨hsh, hreg, hsub⟩ := he p
  obtain ⟨u, sp⟩ := C02.sameShape_inv p (ev p) hsh h.uid h.spid
  refine ⟨u, sp, ?_, ⟨hreg ▸ h.c03.inv, ?_, by rw [hreg]; exact h.c03.norec⟩, h.hX⟩
  · rw [hreg]
    apply h.pool.subset
    intro g hg
    rcases List.mem_append.mp hg with hx | hg
    · exact List.mem_append_left _ hx
    · obtain ⟨s, hs', x, hx, rfl⟩ := mem_genomesOfPop.mp hg
      obtain ⟨s0, hs0, y, hy, e⟩ := hsub s hs' x hx
      exact List.mem_append_right _ (mem_genomesOfPop.mpr ⟨s0, hs0, y, hy, e⟩)
  · intro s hs' x hx
    obtain ⟨s0, hs0, y, hy, e⟩ := hsub s hs' x hx
    rw [← e]; exact h.c03.cov s0 hs0 y hy

/-- **C16, any number of epochs of the parallel executor.** From a population that satisfies the invariants, after any
    number of generations - whatever the evaluations assign, whatever the schedules, the random numbers of the
    goroutines and the orders of arrival - the invariants hold again for a history that extends the old one: so every
    genome is well-formed, the population has exactly its species partition with unique ids, and an innovation number
    denotes one connection across all genomes of all generations. -/
theorem parEpochs_guarantees (X : List (Genome W)) (o : EpochOpts W) (runs : List (ParSchedule × (Pop W → Pop W))) :
    ∀ (H : List (Genome W)) (generation : Int) (p p' : Pop W) (rs rs' : List Nat), ParInv X H p →
      (∀ r ∈ runs, EvalOk r.2) → parEpochs o runs generation p rs = .ok (p', rs') →
      ∃ H', Ext H H' ∧ ParInv X H' p' ∧ (∀ g ∈ genomesOfPop p', WFT g) ∧ CtrLe p.reg p'.reg := by
  induction runs with
  | nil =>
    intro H generation p p' rs rs' hinv _ h
    simp only [parEpochs, Except.ok.injEq, Prod.mk.injEq] at h
    obtain ⟨rfl, _⟩ := h
    exact ⟨H, Ext.refl H, hinv, fun g hg => (hinv.pool g (List.mem_append_right _ hg)).wft, CtrLe.refl _⟩
  | cons r rest ih =>
    intro H generation p p' rs rs' hinv hev h
    obtain ⟨ps, ev⟩ := r
    unfold parEpochs at h
    split at h
    · cases h
    · rename_i p1 rs1 hep
      have hinv' := hinv.eval (hev (ps, ev) List.mem_cons_self)
      obtain ⟨⟨_, _, _, _, _, _, u1, s1⟩, ⟨_, pool1⟩, H1, e1, c1, ctr1, hX1⟩ :=
        parEpoch_guarantees X H o generation (ev p) p1 ps rs rs1 hinv'.uid hinv'.spid hinv'.pool hinv'.c03 hinv'.hX hep
      obtain ⟨H2, e2, inv2, w2, ctr2⟩ := ih H1 (generation + 1) p1 p' rs1 rs' ⟨u1, s1, pool1, c1, hX1⟩
        (fun r hr => hev r (List.mem_cons_of_mem _ hr)) h
      refine ⟨H2, e1.trans e2, inv2, w2, ?_⟩
      have hreg := (hev (ps, ev) List.mem_cons_self p).2.1
      exact CtrLe.trans (by rw [← hreg]; exact ctr1) ctr2

/-! ### non-vacuity and the counterexample -/

section Examples
attribute [local instance] drawScalar

/-- two threads split the SAME gene (number 4, `1 → 4`) of two sibling genomes; the registry already holds three records -/
def exJobs : List (Job Int) := [⟨.addNode mo, ev2, [2, 2, 2]⟩, ⟨.addNode mo, ev1, [2, 2, 2]⟩]
/-- strict alternation: snapshot·snapshot·NextNodeId·NextNodeId·NextInn·NextInn·NextInn·NextInn·store·store -/
def exSched : List Nat := [0, 1, 0, 1, 0, 1, 0, 1, 0, 1]

def summary (st : PState Int (MRes Int)) :
    List (List Int × List Int) × List Int × List (List Int) :=
  ((results st).map (fun g => (g.genes.map (·.inn), g.nodes.map (·.id))), [st.reg.nextInn, st.reg.nextNode],
   st.reg.records.map (fun i => [(i.typ : Int), i.inId, i.outId, i.oldInn, i.newNode, i.inn, i.inn2]))

/-- the hypotheses of `par_mutation_wf` / `par_mutation_consistent` hold for a registry WITH records of both kinds -/
theorem exStart : StartOk 3 evReg [ev1, ev2] exJobs :=
  ⟨by decide, fun j hj => by simp only [exJobs, List.mem_cons, List.not_mem_nil, or_false] at hj; rcases hj with rfl | rfl <;> simp,
   by decide, by decide, by decide, by decide⟩

/-- … and in this run both threads miss each other's record: two records for the same split, with different node ids
    and numbers, and neither thread's two numbers are consecutive (8, 10 and 9, 11) -/
example : allDoneB (runSched (startState evReg exJobs) exSched) = true ∧
    summary (runSched (startState evReg exJobs) exSched) =
      ([([1, 2, 4, 5, 7, 8, 10], [1, 2, 3, 4, 6]), ([1, 2, 4, 5, 6, 9, 11], [1, 2, 3, 4, 7])], [11, 7],
       [[1, 1, 3, 1, 4, 4, 5], [2, 2, 4, 0, 0, 6, 0], [2, 4, 4, 0, 0, 7, 0], [1, 1, 4, 4, 6, 8, 10], [1, 1, 4, 4, 7, 9, 11]]) := by
  decide

/-- … while under the sequential schedule the second thread reuses the first one's record -/
example : summary (runSched (startState evReg exJobs) [0, 0, 0, 0, 0, 1, 1, 1, 1, 1]) =
      ([([1, 2, 4, 5, 7, 8, 9], [1, 2, 3, 4, 6]), ([1, 2, 4, 5, 6, 8, 9], [1, 2, 3, 4, 6])], [9, 6],
       [[1, 1, 3, 1, 4, 4, 5], [2, 2, 4, 0, 0, 6, 0], [2, 4, 4, 0, 0, 7, 0], [1, 1, 4, 4, 6, 8, 9]]) := by
  decide

/-- the conclusion, instantiated -/
example : C03.Inv (runSched (startState evReg exJobs) exSched).reg
    (results (runSched (startState evReg exJobs) exSched) ++ [ev1, ev2]) :=
  (par_mutation_consistent 3 evReg [ev1, ev2] exJobs exSched exStart (allDone_of_B _ (by decide))).1

/-- **counterexample (the seeded change C16-A).** A mutator that takes "the number after my first one" instead of the
    number its second `NextInnovationNumber()` call returned: under the alternating schedule thread 0 uses 8 and 9,
    thread 1 uses 9 and 10 - number 9 denotes `6 → 3` in one genome and `1 → 7` in the other. -/
theorem consecutive_breaks :
    let st := runSched ({ reg := evReg, threads := [Legacy.mutateAddNodeP_consecutive ev2 mo [2, 2, 2],
                                                      Legacy.mutateAddNodeP_consecutive ev1 mo [2, 2, 2]] } : PState Int (MRes Int)) exSched
    allDoneB st = true ∧ ¬ ConsistentGenes (results st) := by
  decide

/-- … although, run alone, it computes exactly what the atomic model computes -/
example : packM ((Legacy.mutateAddNodeP_consecutive ev2 mo [2, 2, 2]).run evReg) = mutateAddNode ev2 evReg mo [2, 2, 2] := by
  rfl

/-! a whole parallel epoch: two species of two organisms each, every baby gets an add-node mutation, the registry
    operations of the two goroutines alternate, the second goroutine's result arrives first -/
def eo : EpochOpts Int :=
  { popSize := 4, dropOffAge := 15, ageSignificance := 1, survivalThresh := 1, babiesStolen := 0, compatThreshold := 3,
    compat := ⟨1, 1, 1, false⟩, mutateOnlyProb := 100, mutateAddNodeProb := 100, mutateAddLinkProb := 0, mutateConnectSensors := 0,
    interspeciesMateRate := 0, mateMultipointProb := 0, mateMultipointAvgProb := 0, mateSinglepointProb := 0, mateOnlyProb := 0,
    mopts := C01.mo }

def mkOrg (uid : Nat) (g : Genome Int) (fit : Int) : Org Int :=
  { uid := uid, fitness := fit, genome := g, expectedOffspring := 0, generation := 1, originalFitness := 0, highestFitness := 0 }

def popE : Pop Int :=
  { species := [{ id := 1, age := 1, maxFitnessEver := 0, expectedOffspring := 0, isNovel := false, ageOfLastImprovement := 0,
                  orgs := [mkOrg 0 ev1 2, mkOrg 1 { ev1 with id := 2 } 2] },
                { id := 2, age := 1, maxFitnessEver := 0, expectedOffspring := 0, isNovel := false, ageOfLastImprovement := 0,
                  orgs := [mkOrg 2 ev2 2, mkOrg 3 { ev2 with id := 4 } 2] }],
    organisms := [0, 1, 2, 3], lastSpecies := 2, highestFitness := 0, epochsHighestLastChanged := 0,
    reg := { records := [], nextInn := 7, nextNode := 5 }, nextUid := 4 }

def psE : ParSchedule :=
  ⟨[List.replicate 30 2, List.replicate 30 2], [0,1,0,1,0,1,0,1,0,1,0,1,0,1,0,1,0,1,0,1,0,1,0,1], [1, 0]⟩

/-- one line per organism: species id, allocation id, genome id, the innovation numbers, 0, the node ids -/
def popSummary (r : Except Stop (Pop Int × List Nat)) : Option (List (List Int) × List Nat × List Int) :=
  match r with
  | .error _ => none
  | .ok (p, _) => some (p.species.flatMap (fun s => s.orgs.map (fun x =>
                          [s.id, (x.uid : Int), x.genome.id] ++ x.genome.genes.map (·.inn) ++ [0] ++ x.genome.nodes.map (·.id))),
                        p.organisms, [p.reg.nextInn, p.reg.nextNode, (p.nextUid : Int)])

/-- the hypotheses of `parEpoch_guarantees` are satisfiable … -/
theorem exParInv : ParInv [] [ev1, ev2] popE := by
  refine ⟨⟨by decide, by decide⟩, ⟨by decide, by decide⟩, by decide, ⟨by decide, ?_, rfl⟩, by simp⟩
  intro s hs o ho
  simp only [popE, List.mem_cons, List.not_mem_nil, or_false] at hs
  rcases hs with rfl | rfl <;> simp only [List.mem_cons, List.not_mem_nil, or_false] at ho <;> rcases ho with rfl | rfl
  · exact GenomeIn.of_mem List.mem_cons_self
  · exact AllB.same (GenomeIn.of_mem (H := [ev1, ev2]) List.mem_cons_self) ⟨rfl, rfl⟩
  · exact GenomeIn.of_mem (List.mem_cons_of_mem _ List.mem_cons_self)
  · exact AllB.same (GenomeIn.of_mem (H := [ev1, ev2]) (List.mem_cons_of_mem _ List.mem_cons_self)) ⟨rfl, rfl⟩

/-- … and the epoch returns: in species 2 the first baby drew node 7 and numbers 9, 11 while species 1 drew 6 and 8, 10 for
    the same split (two records); the later babies reuse the first record; four fresh objects 4…7 in two species -/
example : popSummary (parEpoch eo 1 popE psE (List.replicate 30 2)) =
    some ([[1, 6, 0, 1, 2, 4, 5, 6, 8, 10, 0, 1, 2, 3, 4, 6], [1, 7, 1, 1, 2, 4, 5, 6, 8, 10, 0, 1, 2, 3, 4, 6],
           [2, 4, 2, 1, 2, 4, 5, 7, 9, 11, 0, 1, 2, 3, 4, 7], [2, 5, 3, 1, 2, 4, 5, 7, 8, 10, 0, 1, 2, 3, 4, 6]],
          [6, 7, 4, 5], [11, 7, 8]) := by decide +kernel

end Examples

end GoNeat.C16
