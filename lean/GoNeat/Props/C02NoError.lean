/-
  Property C02, clause "turning over an epoch SUCCEEDS WITHOUT ERROR".

  `nextEpoch_no_error`  : under `Hyp S o p` (decidable) and the two float facts, for every stream of 63-bit raw values
                          `nextEpoch o gen p rs` is never `.error (.error msg)` (running out of a finite stream,
                          `.error .outOfRandom`, is outside the statement — DESIGN §2.3).
  `nextEpoch_popOk`     : the population part of `Hyp` holds again for the population returned.
  `runEpochs_no_error`  : any number of evaluated generations.

  Kind A: every scalar type `W`, every stream, registry, option setting.  Float arithmetic enters only through
  hypotheses that are stated explicitly (see the table) and proved for exact arithmetic in Props/C02NoErrorExact.lean.

  ## Inventory of the `.error (.error "…")` exits reachable from `nextEpoch`, and what rules each out

  | exit (Model file)                                             | ruled out by                                                          |
  |---------------------------------------------------------------|-----------------------------------------------------------------------|
  | Rand.intn "panic:intn-nonpositive" (Rand)                     | n > 0 at every call: non-empty species / gene / node / trait lists    |
  |   – Intn(len(s.Organisms))            reproduceOne            | `PopOk.nonempty` + `prepare_parents` + `OptsOk.parents` (numParents≥1)|
  |   – Intn(len(g.Traits)), Intn(len(g.Genes)), Intn(len(Nodes)) | `WF.traits`, `WF.hasGene`, `WF.hasOutput` (C01 pool invariant)        |
  |   – Intn(nodesLen − firstNonSensor)   pickDistinct/pickPair   | `WF.hasOutput` (an output is not a sensor: `takeWhile_lt`)            |
  |   – Intn(len(disconnectedSensors))    mutateConnectSensors    | guarded by the code (`isEmpty` test)                                  |
  |   – Intn(len(shorter.Genes))          mateSinglePoint         | `WF.hasGene` of both parents                                          |
  | "panic:index" s.orgs[k]?, genes[k]?, traits[k]?, nodes[i]?    | `intn_lt` (C04): the draw is below the length (`safe_intn`)           |
  | "panic:index" traitAt g inn.traitNum (registry record)        | NEW invariant `RecTraits`: recorded trait index < common trait count  |
  | "panic:index" traitAt g 0                mutateAddNode        | `WF.traits` (≥ 1 trait)                                               |
  | "panic:index" pickOtherSpecies sorted[idx]                    | float fact `PickLaw` + sorted species list non-empty (`safe_prepare`) |
  | "panic:index" sp.orgs.head? (interspecies mate)               | species non-empty after the preparation phase (as first row)          |
  | "panic:index" / "reproduceEmptySpecies"  reproduceSpecies     | species non-empty after the preparation phase (as first row)          |
  | "panic:index" adjustFitness (empty species)                   | `PopOk.nonempty` (C02 `nextEpoch_popInv` re-establishes it)           |
  | "panic:index" prepare: sorted = [] / best.orgs = []           | quotas total PopSize ≥ 1 after the fix-up (`purgeZero_nonempty`, C09) |
  | "panic:index" deltaCoding, giveBabiesToTheBest                | the same + keys preserved (`giveLoop_keys`, `stealLoop_keys`)         |
  | "progenySizeMismatch"                    reproducePhase       | C09 `prepared_progeny_exact` under `QuotaOk` (float fact, observed)   |
  | "noOrganismsToSpeciate"                  speciate             | PopSize ≥ 1 babies                                                    |
  | "compatThresholdZero"                    speciateOne          | `OptsOk.compat`                                                       |
  | "dup:missingInNode/OutNode/Module…"      Genome.duplicate     | `WFT` + no modules (`C01.duplicate_wf`, `C06.duplicate_exact`)        |
  | "noGenes", "genesis:noGenes/noOutputs", "noTraits",           | `WF.hasGene`, `WF.hasOutput`, `WF.traits` of the genome at that point |
  |   "noTraitsOrGenes", "noTraitsOrNodes"   mutators             |   of the chain (`Like.basic`; for a child: C01 closure + `SharedHead`)|
  | "wrongGeneCreated"                       mutateAddLink        | `WF.nodesSorted`: two different positions have different node ids     |
  | "noActivators", "activatorProbsMismatch", "rouletteFailed"    | `OptsOk.acts` (`ActOk`) + float fact `UnitMulLe`                      |
  | "model:modular", "traitCountMismatch"    matePrologue         | no modules; equal trait ids (`NodeLineage`, C01)                      |
  | "traitParamsCountMismatch"               traitAvg             | NEW invariant: one trait shape `S` for the whole population           |
  | "panic:index" mateTraits, childTraitRef  crossovers           | `WF.traits` (consecutive ids) + `WF.traitRefs` + equal trait ids      |
  | "model:danglingEndpoint"                 addChosen            | `WF.endpoints` of both parents                                        |

  Known finding K1 (single-point crossover may return a gene-less child, whose later mutation / genesis fails) is
  excluded by `SharedHead`, which is part of the C01 pool invariant and holds in every population spawned from one
  genome; it is NOT excluded for `NewPopulationRandom` / hand-written populations (see DESIGN §3 C01, known_findings).

  ## Why each hypothesis is an invariant of real runs, or what float fact it stands for
  * `PopOk` : `uid, spid, size, perm, nodup, nonempty` — `nextEpoch_popInv`; `pool` — `C01.nextEpoch_closed`
    (established by `spawn_poolOk`); `unmarked`, `shaped` — babies are created unmarked and inherit the trait shape
    (`safe_nextEpoch_core`); `recs` — `finalizeReproduction` clears the records.  All re-established: `nextEpoch_popOk`.
  * `OptsOk.parents` : `floor(survival_thresh·n + 1) ≥ 1`; in exact arithmetic from `survival_thresh ≥ 0`
    (`C09.numParents_pos`); for float64 a monotonicity fact of rounding.
  * `QuotaOk` : raw quotas non-negative, raw total ≤ PopSize — the C09 hypotheses (`prepare_quota_total`); exact
    arithmetic: the raw total is exactly PopSize (C09Exact); the `epoch` op of the check reports any implementation
    error on a valid population as a C02 violation, which observes this fact on every generated case.
  * `FloatFacts` : `UnitMulLe` (f·t ≤ t for a draw f ∈ [0,1), t ≥ 0) and `PickLaw` (0 ≤ floor(f/4·n) < n);
    both hold in exact arithmetic (C02NoErrorExact) and for float64 by monotonicity of rounding (trusted, observed).
-/
import GoNeat.Proofs.NoErrorEpoch
import GoNeat.Proofs.NoErrorSpawn

set_option linter.unusedSectionVars false

namespace GoNeat.C02
open GoNeat Scalar GoNeat.NoErr GoNeat.C01
variable {W : Type} [Scalar W]

/-- the two facts about unit-interval draws that the turnover relies on -/
structure FloatFacts (W : Type) [Scalar W] : Prop where
  unitMul : UnitMulLe W
  pick : PickLaw W

/-- **C02, "succeeds without error", one epoch.** -/
theorem nextEpoch_no_error (hff : FloatFacts W) (S : List Nat) (o : EpochOpts W) (p : Pop W) (h : Hyp S o p) (gen : Int) :
    ∀ rs, Valid rs → ∀ msg, nextEpoch o gen p rs ≠ .error (.error msg) :=
  fun rs hv msg => (safe_nextEpoch_core hff.unitMul hff.pick S o p h gen rs hv).ne msg

theorem nextEpoch_records (o : EpochOpts W) (gen : Int) (p p' : Pop W) (rs rs' : List Nat)
    (h : nextEpoch o gen p rs = .ok (p', rs')) : p'.reg.records = [] := by
  unfold nextEpoch at h
  split at h
  · cases h
  · split at h
    · cases h
    · simp only [Except.ok.injEq, Prod.mk.injEq] at h
      obtain ⟨rfl, _⟩ := h
      rfl

/-- **the population hypotheses are an invariant**: they hold again for the population `NextEpoch` returns -/
theorem nextEpoch_popOk (hff : FloatFacts W) (S : List Nat) (o : EpochOpts W) (p : Pop W) (h : Hyp S o p) (gen : Int)
    (rs rs' : List Nat) (hv : Valid rs) (p' : Pop W) (he : nextEpoch o gen p rs = .ok (p', rs')) : PopOk S o p' := by
  obtain ⟨⟨a1, a2, a3, a4, _, _⟩, hu', hs'⟩ := nextEpoch_popInv o gen p p' rs rs' h.pop.uid h.pop.spid he
  have hnew := (safe_nextEpoch_core hff.unitMul hff.pick S o p h gen rs hv).post he
  have hpool := nextEpoch_closed [] o gen p p' rs rs' (by simpa using h.pop.pool) he
  have hrec := nextEpoch_records o gen p p' rs rs' he
  refine ⟨hu', hs', a1, a3 ▸ List.Perm.refl _, a2, a4, fun x hx => (hnew x hx).2, by simpa using hpool, ?_, ?_⟩
  · intro i hi; rw [hrec] at hi; cases hi
  · intro g hg
    obtain ⟨s, hs, x, hx, rfl⟩ := mem_genomesOfPop.mp hg
    exact (hnew x (mem_allOrgs.mpr ⟨s, hs, hx⟩)).1

/-! ### any number of epochs -/

/-- what an evaluation between two epochs may do: assign fitness values and the like (`SameShape`: same organisms,
    marks, species ids, ages, flags), touch no genome and not the registry -/
def EvalOk (q q' : Pop W) : Prop :=
  SameShape q q' ∧ (∀ g ∈ genomesOfPop q', g ∈ genomesOfPop q) ∧ q'.reg = q.reg

/-- the C09 quota facts hold in every generation this run reaches (decidable along the run; it is what the
    `epoch` op of the check observes) -/
def QuotaAlong (o : EpochOpts W) : List (Pop W → Pop W) → Int → Pop W → List Nat → Prop
  | [], _, _, _ => True
  | ev :: evs, gen, p, rs =>
    QuotaOk o (ev p) ∧
    match nextEpoch o gen (ev p) rs with
    | .error _ => True
    | .ok (p', rs') => QuotaAlong o evs (gen + 1) p' rs'

theorem popOk_eval (S : List Nat) (o : EpochOpts W) (q q' : Pop W) (h : PopOk S o q) (he : EvalOk q q') : PopOk S o q' := by
  obtain ⟨hsh, hg, hreg⟩ := he
  obtain ⟨hu', hs'⟩ := sameShape_inv q q' hsh h.uid h.spid
  obtain ⟨h1, h2, h3, h4⟩ := hsh
  have huids : orgUids q'.species = orgUids q.species := by rw [uids_of_ukeys, h4, ← uids_of_ukeys]
  refine ⟨hu', hs', by rw [h1]; exact h.size, by rw [h1, huids]; exact h.perm, by rw [h1]; exact h.nodup,
    ne_of_keys h4 h.nonempty, ?_, ?_, by rw [hreg]; exact h.recs, fun g hg' => h.shaped g (hg g hg')⟩
  · intro x hx
    obtain ⟨s', hs'm, hxs⟩ := mem_allOrgs.mp hx
    have hk : ukey s' ∈ q.species.map ukey := by rw [← h4]; exact List.mem_map_of_mem hs'm
    obtain ⟨s, hsm, e⟩ := List.mem_map.mp hk
    have hm : (x.uid, x.toEliminate) ∈ (ukey s').2 := List.mem_map_of_mem (f := fun x => (x.uid, x.toEliminate)) hxs
    rw [← e] at hm
    obtain ⟨y, hy, hyx⟩ := List.mem_map.mp hm
    have := h.unmarked y (mem_allOrgs.mpr ⟨s, hsm, hy⟩)
    simp only [Prod.mk.injEq] at hyx
    rw [← hyx.2]; exact this
  · rw [hreg]; exact h.pool.subset hg

/-- **C02, "succeeds without error", any number of consecutive epochs** with arbitrary evaluations in between -/
theorem runEpochs_no_error (hff : FloatFacts W) (S : List Nat) (o : EpochOpts W) (ho : OptsOk o)
    (evs : List (Pop W → Pop W)) (hev : ∀ ev ∈ evs, ∀ q, EvalOk q (ev q)) (gen : Int) (p : Pop W) (rs : List Nat)
    (hv : Valid rs) (hp : PopOk S o p) (hq : QuotaAlong o evs gen p rs) :
    ∀ msg, runEpochs o evs gen p rs ≠ .error (.error msg) := by
  induction evs generalizing gen p rs with
  | nil => intro msg h; simp [runEpochs] at h
  | cons ev evs ih =>
    intro msg
    have hyp : Hyp S o (ev p) := ⟨ho, popOk_eval S o p (ev p) hp (hev ev (by simp) p), hq.1⟩
    have hne := nextEpoch_no_error hff S o (ev p) hyp gen rs hv
    have hq2 := hq.2
    unfold runEpochs
    split
    · next e he => intro h; cases h; exact hne msg he
    · next p' rs' he =>
      rw [he] at hq2
      exact ih (fun e he' => hev e (by simp [he'])) (gen + 1) p' rs'
        (valid_of_ok (nextEpoch_prefixDet o gen (ev p)) hv he)
        (nextEpoch_popOk hff S o (ev p) hyp gen rs rs' hv p' he) hq2 msg

/-! ### construction establishes the population hypotheses -/

/-- **a population spawned from a well-formed non-modular genome satisfies `PopOk`** with the trait shape of that genome:
    together with `nextEpoch_popOk` the population hypotheses hold in every generation of a run that starts with
    `NewPopulation` -/
theorem spawn_popOk (o : EpochOpts W) (g : Genome W) (rs rs' : List Nat) (p : Pop W) (hw : WFT g) (hm : g.modules = [])
    (h : spawn o g rs = .ok (p, rs')) : PopOk (shape g) o p := by
  obtain ⟨hu, hs, hsize, hperm⟩ := spawn_inv o g p rs rs' h
  have hpool := (spawn_poolOk o g rs rs' p hw hm h).subset (P' := genomesOfPop p) (fun x hx => List.mem_append_right _ hx)
  unfold spawn at h
  split at h
  · cases h
  · split at h
    · cases h
    · next orgs rs1 hloop =>
      split at h
      · cases h
      · split at h
        · cases h
        · simp only at h
          split at h
          · cases h
          · next lastNode _ nextInn _ p1 hsp =>
            simp only [Except.ok.injEq, Prod.mk.injEq] at h
            obtain ⟨rfl, _⟩ := h
            obtain ⟨horgs, hreg⟩ := speciate_orgs o _ _ _ hsp
            have horg := spawnLoop_orgs g o.popSize 0 0 orgs rs rs1 hloop
            have hnew : ∀ x ∈ allOrgs p1, x ∈ orgs := by
              intro x hx
              rcases horgs x hx with h0 | h0
              · simp [allOrgs] at h0
              · exact h0
            have hsl := hsp
            unfold speciate at hsl
            split at hsl
            · cases hsl
            · refine ⟨hu, hs, hsize, hperm, ?_, ?_, fun x hx => (horg x (hnew x hx)).1, hpool, ?_, ?_⟩
              · rw [(speciateLoop_uids o _ p1 orgs hsl).2.1]
                show (orgs.map (·.uid)).Nodup
                rw [spawnLoop_uids g o.popSize 0 0 orgs rs rs1 hloop]
                exact range_shift_nodup _ _
              · exact speciateLoop_nonempty o _ p1 orgs hsl (by intro s hs'; cases hs')
              · intro i hi; rw [hreg] at hi; cases hi
              · intro g' hg'
                obtain ⟨s, hs', x, hx, rfl⟩ := mem_genomesOfPop.mp hg'
                exact (horg x (hnew x (mem_allOrgs.mpr ⟨s, hs', hx⟩))).2

/-! ### the hypotheses are decidable, and not vacuous -/

instance (p : Pop W) : Decidable (UidInv p) :=
  if h : (∀ u ∈ orgUids p.species, u ∈ p.organisms) ∧ (∀ u ∈ p.organisms, u < p.nextUid) then isTrue ⟨h.1, h.2⟩
  else isFalse (fun w => h ⟨w.1, w.2⟩)

instance (p : Pop W) : Decidable (SpIdInv p) :=
  if h : (p.species.map (·.id)).Nodup ∧ (∀ s ∈ p.species, s.id ≤ p.lastSpecies) then isTrue ⟨h.1, h.2⟩
  else isFalse (fun w => h ⟨w.1, w.2⟩)

instance (o : EpochOpts W) : Decidable (OptsOk o) :=
  if h : 1 ≤ o.popSize ∧ 0 ≤ o.babiesStolen ∧ eq o.compatThreshold zero = false ∧ ActOk o.mopts ∧
      (∀ n, n ≤ o.popSize → 1 ≤ C09.numParents o n) then isTrue ⟨h.1, h.2.1, h.2.2.1, h.2.2.2.1, h.2.2.2.2⟩
  else isFalse (fun w => h ⟨w.1, w.2, w.3, w.4, w.5⟩)

instance (S : List Nat) (o : EpochOpts W) (p : Pop W) : Decidable (PopOk S o p) :=
  if h : UidInv p ∧ SpIdInv p ∧ p.organisms.length = o.popSize ∧ (orgUids p.species).Perm p.organisms ∧ p.organisms.Nodup ∧
      (∀ s ∈ p.species, s.orgs ≠ []) ∧ (∀ x ∈ allOrgs p, x.toEliminate = false) ∧ PoolOk p.reg (genomesOfPop p) ∧
      RecTraits S.length p.reg ∧ (∀ g ∈ genomesOfPop p, shape g = S)
  then isTrue ⟨h.1, h.2.1, h.2.2.1, h.2.2.2.1, h.2.2.2.2.1, h.2.2.2.2.2.1, h.2.2.2.2.2.2.1, h.2.2.2.2.2.2.2.1,
    h.2.2.2.2.2.2.2.2.1, h.2.2.2.2.2.2.2.2.2⟩
  else isFalse (fun w => h ⟨w.1, w.2, w.3, w.4, w.5, w.6, w.7, w.8, w.9, w.10⟩)

instance (S : List Nat) (o : EpochOpts W) (p : Pop W) : Decidable (Hyp S o p) :=
  if h : OptsOk o ∧ PopOk S o p ∧ QuotaOk o p then isTrue ⟨h.1, h.2.1, h.2.2⟩ else isFalse (fun w => h ⟨w.1, w.2, w.3⟩)

section NonVacuity
open GoNeat.ExactInt
attribute [local instance] intScalar

/-- options for `tinyPop` (Props/C02Epoch.lean): three organisms, two species -/
def tinyOpts : EpochOpts Int :=
  { popSize := 3, dropOffAge := 15, ageSignificance := 1, survivalThresh := 0, babiesStolen := 0, compatThreshold := 3,
    compat := { disjointCoeff := 1, excessCoeff := 1, mutdiffCoeff := 1, linear := true },
    mutateOnlyProb := 1, mutateAddNodeProb := 1, mutateAddLinkProb := 1, mutateConnectSensors := 1,
    interspeciesMateRate := 1, mateMultipointProb := 1, mateMultipointAvgProb := 1, mateSinglepointProb := 1,
    mateOnlyProb := 1, mopts := C01.mo }

/-- a concrete population and option setting satisfy every hypothesis of `nextEpoch_no_error` (trait shape `[0]`:
    one trait without parameters) -/
example : Hyp [0] tinyOpts tinyPop := by decide

/-- the float facts hold for the toy instance (every draw is 0) -/
example : FloatFacts Int :=
  ⟨fun x t _ _ h => by simpa [Scalar.le, Scalar.mul, Scalar.ofUnit63, Scalar.zero, intScalar] using h,
   fun x n _ hn _ => by simp [Scalar.floorInt, Scalar.mul, Scalar.div, Scalar.ofUnit63, Scalar.ofInt]; omega⟩

end NonVacuity

end GoNeat.C02
