/-
  Property C09 — offspring quotas follow shared fitness and total the population size.

  Kind A (integer logic, no float law): the make-up/fallback step, stolen babies and delta coding conserve the
  total for EVERY outcome of the rounded float computation that precedes them and for every random stream.
  Kind B (exact arithmetic, `Props/C09Exact.lean`): the carry of fractions in `countOffspring`.
-/
import GoNeat.Model.Population

namespace GoNeat.C09
open GoNeat Scalar
variable {W : Type} [Scalar W]

/-- sum of the offspring quotas of a species list -/
def quotaSum (l : List (Species W)) : Int := (l.map (·.expectedOffspring)).sum

@[simp] theorem quotaSum_nil : quotaSum ([] : List (Species W)) = 0 := rfl
@[simp] theorem quotaSum_cons (s : Species W) (l : List (Species W)) : quotaSum (s :: l) = s.expectedOffspring + quotaSum l := by
  simp [quotaSum]
theorem quotaSum_append (a b : List (Species W)) : quotaSum (a ++ b) = quotaSum a + quotaSum b := by
  induction a with
  | nil => simp
  | cons x xs ih => simp [ih]; omega
theorem quotaSum_reverse (a : List (Species W)) : quotaSum a.reverse = quotaSum a := by
  induction a with
  | nil => simp
  | cons x xs ih => simp [quotaSum_append, ih]; omega

/-! ### the make-up offspring and the "population died" fallback -/

theorem bestQuotaIndex_range (ss : List (Species W)) (i : Nat) (mx : Int) (best : Option Nat)
    (hb : ∀ b, best = some b → b < i) : ∀ b, bestQuotaIndex ss i mx best = some b → b < i + ss.length := by
  induction ss generalizing i mx best with
  | nil => intro b h; simp [bestQuotaIndex] at h; have := hb b h; simpa using this
  | cons s ss ih =>
    intro b h
    unfold bestQuotaIndex at h
    split at h
    · have := ih (i + 1) _ (some i) (by intro b' hb'; cases hb'; omega) b h
      simp only [List.length_cons]; omega
    · have := ih (i + 1) _ best (by intro b' hb'; have := hb b' hb'; omega) b h
      simp only [List.length_cons]; omega

theorem bestQuotaIndex_isSome (ss : List (Species W)) (i : Nat) (mx : Int) (best : Option Nat)
    (h : best.isSome = true ∨ ∃ s ∈ ss, s.expectedOffspring ≥ mx) : (bestQuotaIndex ss i mx best).isSome = true := by
  induction ss generalizing i mx best with
  | nil =>
    rcases h with h | ⟨s, hs, _⟩
    · simpa [bestQuotaIndex] using h
    · cases hs
  | cons s ss ih =>
    unfold bestQuotaIndex
    split
    · exact ih _ _ _ (Or.inl rfl)
    · rename_i hlt
      apply ih
      rcases h with h | ⟨t, ht, hge⟩
      · exact Or.inl h
      · rcases List.mem_cons.mp ht with rfl | ht'
        · exact absurd hge hlt
        · exact Or.inr ⟨t, ht', hge⟩

theorem quotaSum_modify (l : List (Species W)) (b : Nat) (f : Species W → Species W) (s : Species W) (h : l[b]? = some s) :
    quotaSum (l.modify b f) = quotaSum l - s.expectedOffspring + (f s).expectedOffspring := by
  induction l generalizing b with
  | nil => simp at h
  | cons x xs ih =>
    cases b with
    | zero => simp at h; subst h; simp [List.modify]; omega
    | succ b => simp at h; simp [List.modify_succ_cons, ih b h]; omega

theorem quotaSum_zeroed (l : List (Species W)) : quotaSum (l.map (fun s => { s with expectedOffspring := 0 })) = 0 := by
  induction l with
  | nil => rfl
  | cons x xs ih => simp [ih]

/-- **C09 (make-up offspring, Kind A).** Whatever raw quotas the rounded computation produced (all non-negative,
    total `T`): if `T ≤ n` the quotas after the fix-up total exactly the population size `n` — by one extra
    offspring for one species when rounding lost one, by the "population died" fallback when more is missing —
    and if `T ≥ n` nothing is changed. -/
theorem fixupQuotas_total (ss : List (Species W)) (n : Int) (hne : ss ≠ [])
    (hnn : ∀ s ∈ ss, s.expectedOffspring ≥ 0) :
    (quotaSum ss ≤ n → quotaSum (fixupQuotas ss (quotaSum ss) n) = n) ∧
    (quotaSum ss ≥ n → fixupQuotas ss (quotaSum ss) n = ss) := by
  have hsome : (bestQuotaIndex ss 0 0 none).isSome = true := by
    apply bestQuotaIndex_isSome
    right
    obtain ⟨s, hs⟩ := List.exists_mem_of_ne_nil ss hne
    exact ⟨s, hs, hnn s hs⟩
  constructor
  · intro hle
    unfold fixupQuotas
    by_cases hlt : quotaSum ss < n
    · simp only [hlt, ↓reduceIte]
      cases hb : bestQuotaIndex ss 0 0 none with
      | none => rw [hb] at hsome; cases hsome
      | some b =>
        simp only
        have hrange : b < ss.length := by
          have := bestQuotaIndex_range ss 0 0 none (by intro b h; cases h) b hb; simpa using this
        obtain ⟨s, hs⟩ : ∃ s, ss[b]? = some s := ⟨ss[b], by simp [hrange]⟩
        split
        · have hs' : (ss.map (fun s => { s with expectedOffspring := 0 }))[b]? = some { s with expectedOffspring := 0 } := by
            simp [hs]
          rw [quotaSum_modify _ b _ _ hs', quotaSum_zeroed]; simp
        · rw [quotaSum_modify _ b _ _ hs]; simp only; omega
    · have : quotaSum ss = n := by omega
      simp [hlt, this]
  · intro hge
    unfold fixupQuotas
    have : ¬ quotaSum ss < n := by omega
    simp [this]

/-- removing the species with a zero quota does not change the total (quotas are never negative) -/
theorem quotaSum_filter_pos (ss : List (Species W)) (hnn : ∀ s ∈ ss, s.expectedOffspring ≥ 0) :
    quotaSum (ss.filter (fun s => s.expectedOffspring > 0)) = quotaSum ss := by
  induction ss with
  | nil => rfl
  | cons x xs ih =>
    have hx := hnn x (by simp)
    have ih' := ih (fun s hs => hnn s (by simp [hs]))
    by_cases hpos : x.expectedOffspring > 0
    · simp [List.filter, hpos, ih']
    · have : x.expectedOffspring = 0 := by omega
      simp [List.filter, hpos, ih', this]

/-! ### delta coding -/

/-- **C09 (delta coding, Kind A).** After delta coding the quotas total exactly the population size, and each
    super-champion reservation equals its species' quota. -/
theorem deltaCoding_total (sorted sorted' : List (Species W)) (o : EpochOpts W) (h : deltaCoding sorted o = .ok sorted') :
    quotaSum sorted' = o.popSize ∧
    ∀ s ∈ sorted', ∀ t, s.orgs.head? = some t → t.superChampOffspring ≤ s.expectedOffspring ∨ s.expectedOffspring = 0 := by
  unfold deltaCoding at h
  simp only at h
  split at h
  · cases h
  · rename_i s
    split at h
    · cases h
    · cases h
      refine ⟨by simp, ?_⟩
      intro s' hs' t ht
      simp at hs'; subst hs'
      cases hso : s.orgs with
      | nil => simp [setTopOrg, hso] at ht
      | cons o1 os => simp [setTopOrg, hso] at ht; subst ht; left; simp
  · rename_i s1 s2 rest
    split at h
    · cases h
    · cases h
      refine ⟨?_, ?_⟩
      · have : quotaSum (rest.map (fun s => { s with expectedOffspring := 0 })) = 0 := quotaSum_zeroed rest
        simp [this]
        omega
      · intro s' hs' t ht
        simp only [List.mem_cons, List.mem_map] at hs'
        rcases hs' with rfl | rfl | ⟨r, _, rfl⟩
        · cases hso : s1.orgs with
          | nil => simp [setTopOrg, hso] at ht
          | cons o1 os => simp [setTopOrg, hso] at ht; subst ht; left; simp
        · cases hso : s2.orgs with
          | nil => simp [setTopOrg, hso] at ht
          | cons o1 os => simp [setTopOrg, hso] at ht; subst ht; left; simp
        · right; rfl

/-! ### stolen babies -/

theorem stealLoop_conserves (bs : Int) (l : List (Species W)) (stolen : Int) :
    quotaSum (stealLoop bs l stolen).1 + (stealLoop bs l stolen).2 = quotaSum l + stolen := by
  induction l generalizing stolen with
  | nil => simp [stealLoop]
  | cons s ss ih =>
    unfold stealLoop
    split
    · split
      · split
        · have := ih bs
          simp only [quotaSum_cons] at *
          omega
        · have := ih (stolen + s.expectedOffspring - 1)
          simp only [quotaSum_cons] at *
          omega
      · have := ih stolen
        simp only [quotaSum_cons] at *
        omega
    · simp

theorem quota_setTopOrg (s : Species W) (f : Org W → Org W) : (setTopOrg s f).expectedOffspring = s.expectedOffspring := by
  unfold setTopOrg; split <;> rfl

theorem giveLoop_conserves (o : EpochOpts W) (blocks : List Int) (l l' : List (Species W)) (bi : Nat) (stolen left : Int)
    (rs rs' : List Nat) (h : giveLoop o blocks l bi stolen rs = .ok ((l', left), rs')) :
    quotaSum l' + left = quotaSum l + stolen := by
  induction l generalizing l' bi stolen left rs rs' with
  | nil => simp [giveLoop] at h; obtain ⟨⟨rfl, rfl⟩, _⟩ := h; simp
  | cons s ss ih =>
    unfold giveLoop at h
    split at h
    · split at h
      · cases h
      · rename_i rest st rs1 hrec
        simp only [Except.ok.injEq, Prod.mk.injEq] at h
        obtain ⟨⟨rfl, rfl⟩, _⟩ := h
        have := ih _ _ _ _ _ _ hrec
        simp only [quotaSum_cons]; omega
    · simp only at h
      split at h
      · cases h
      · rename_i s' st rs1 hstep
        -- the step moves `stolen - st` babies into `s'`
        have hs : s'.expectedOffspring + st = s.expectedOffspring + stolen := by
          split at hstep
          · simp only [Except.ok.injEq, Prod.mk.injEq] at hstep
            obtain ⟨⟨rfl, rfl⟩, _⟩ := hstep
            simp [quota_setTopOrg]; omega
          · split at hstep
            · split at hstep
              · cases hstep
              · split at hstep
                · split at hstep
                  · simp only [Except.ok.injEq, Prod.mk.injEq] at hstep
                    obtain ⟨⟨rfl, rfl⟩, _⟩ := hstep
                    simp [quota_setTopOrg]; omega
                  · simp only [Except.ok.injEq, Prod.mk.injEq] at hstep
                    obtain ⟨⟨rfl, rfl⟩, _⟩ := hstep
                    simp [quota_setTopOrg]
                · simp only [Except.ok.injEq, Prod.mk.injEq] at hstep
                  obtain ⟨⟨rfl, rfl⟩, _⟩ := hstep
                  rfl
            · simp only [Except.ok.injEq, Prod.mk.injEq] at hstep
              obtain ⟨⟨rfl, rfl⟩, _⟩ := hstep
              rfl
        split at h
        · simp only [Except.ok.injEq, Prod.mk.injEq] at h
          obtain ⟨⟨rfl, rfl⟩, _⟩ := h
          simp only [quotaSum_cons]; omega
        · split at h
          · cases h
          · rename_i rest st' rs2 hrec
            simp only [Except.ok.injEq, Prod.mk.injEq] at h
            obtain ⟨⟨rfl, rfl⟩, _⟩ := h
            have := ih _ _ _ _ _ _ hrec
            simp only [quotaSum_cons]; omega

theorem stealLoop_nonneg (bs : Int) (hbs : 0 ≤ bs) (l : List (Species W)) (stolen : Int) (h0 : 0 ≤ stolen) :
    0 ≤ (stealLoop bs l stolen).2 := by
  induction l generalizing stolen with
  | nil => simpa [stealLoop] using h0
  | cons s ss ih =>
    unfold stealLoop
    split
    · split
      · rename_i hcond
        simp only [Bool.and_eq_true, decide_eq_true_eq] at hcond
        split
        · exact ih bs hbs
        · exact ih _ (by omega)
      · exact ih _ h0
    · exact h0

theorem giveLoop_nonneg (o : EpochOpts W) (blocks : List Int) (hb : ∀ b ∈ blocks, 0 ≤ b) (l l' : List (Species W)) (bi : Nat)
    (stolen left : Int) (rs rs' : List Nat) (h0 : 0 ≤ stolen)
    (h : giveLoop o blocks l bi stolen rs = .ok ((l', left), rs')) : 0 ≤ left := by
  induction l generalizing l' bi stolen left rs rs' with
  | nil => simp [giveLoop] at h; obtain ⟨⟨_, rfl⟩, _⟩ := h; exact h0
  | cons s ss ih =>
    unfold giveLoop at h
    split at h
    · split at h
      · cases h
      · rename_i rest st rs1 hrec
        simp only [Except.ok.injEq, Prod.mk.injEq] at h
        obtain ⟨⟨_, rfl⟩, _⟩ := h
        exact ih _ _ _ _ _ _ h0 hrec
    · simp only at h
      split at h
      · cases h
      · rename_i s' st rs1 hstep
        have hst : 0 ≤ st := by
          split at hstep
          · rename_i hc
            simp only [Except.ok.injEq, Prod.mk.injEq] at hstep
            obtain ⟨⟨_, rfl⟩, _⟩ := hstep
            simp only [Bool.and_eq_true, decide_eq_true_eq] at hc
            omega
          · split at hstep
            · split at hstep
              · cases hstep
              · split at hstep
                · split at hstep
                  · simp only [Except.ok.injEq, Prod.mk.injEq] at hstep
                    obtain ⟨⟨_, rfl⟩, _⟩ := hstep
                    omega
                  · simp only [Except.ok.injEq, Prod.mk.injEq] at hstep
                    obtain ⟨⟨_, rfl⟩, _⟩ := hstep
                    omega
                · simp only [Except.ok.injEq, Prod.mk.injEq] at hstep
                  obtain ⟨⟨_, rfl⟩, _⟩ := hstep
                  exact h0
            · simp only [Except.ok.injEq, Prod.mk.injEq] at hstep
              obtain ⟨⟨_, rfl⟩, _⟩ := hstep
              exact h0
        split at h
        · simp only [Except.ok.injEq, Prod.mk.injEq] at h
          obtain ⟨⟨_, rfl⟩, _⟩ := h
          exact hst
        · split at h
          · cases h
          · rename_i rest st' rs2 hrec
            simp only [Except.ok.injEq, Prod.mk.injEq] at h
            obtain ⟨⟨_, rfl⟩, _⟩ := h
            exact ih _ _ _ _ _ _ hst hrec

/-- **C09 (stolen babies, Kind A).** For every sorted species list, every `BabiesStolen ≥ 0` setting and every random
    stream, `giveBabiesToTheBest` only moves offspring between species: the quotas total what they totalled before. -/
theorem giveBabies_conserves (sorted sorted' : List (Species W)) (o : EpochOpts W) (rs rs' : List Nat)
    (hbs : 0 ≤ o.babiesStolen)
    (h : giveBabiesToTheBest sorted o rs = .ok (sorted', rs')) : quotaSum sorted' = quotaSum sorted := by
  unfold giveBabiesToTheBest at h
  simp only at h
  have hsteal := stealLoop_conserves (W := W) o.babiesStolen sorted.reverse 0
  have hsn := stealLoop_nonneg (W := W) o.babiesStolen hbs sorted.reverse 0 (Int.le_refl 0)
  cases hst : stealLoop o.babiesStolen sorted.reverse 0 with
  | mk revAfter stolen =>
    rw [hst] at h hsteal hsn
    simp only at h hsteal hsn
    split at h
    · cases h
    · rename_i l left rs1 hg
      have hgive := giveLoop_conserves o _ _ _ _ _ _ _ _ hg
      have hleft := giveLoop_nonneg o _ (by
        intro b hb
        simp only [List.mem_cons, List.mem_nil_iff, or_false] at hb
        rcases hb with rfl | rfl | rfl <;> omega) _ _ _ _ _ _ _ hsn hg
      rw [quotaSum_reverse] at hgive
      rw [quotaSum_reverse] at hsteal
      split at h
      · split at h
        · cases h
        · rename_i s ss
          split at h
          · cases h
          · simp only [Except.ok.injEq, Prod.mk.injEq] at h
            obtain ⟨rfl, _⟩ := h
            simp only [quotaSum_cons, quota_setTopOrg] at *
            omega
      · simp only [Except.ok.injEq, Prod.mk.injEq] at h
        obtain ⟨rfl, _⟩ := h
        omega

end GoNeat.C09
