/-
  Property C02 — an epoch conserves population size and keeps species a partition.
  Kind A: every theorem holds for every scalar type, random stream, registry and option setting.

  Shape: "if `nextEpoch` returns a population then …" (that it does return for valid input rests on C09: quotas
  total the population size, and on C01: operators do not fail on well-formed genomes; the remaining error exit
  is the known finding K1).
-/
import GoNeat.Model.Epoch

namespace GoNeat.C02
open GoNeat Scalar
variable {W : Type} [Scalar W]

/-- allocation ids of all organisms listed by a species list -/
def orgUids (ss : List (Species W)) : List Nat := ss.flatMap (fun s => s.orgs.map (·.uid))

@[simp] theorem orgUids_nil : orgUids ([] : List (Species W)) = [] := rfl
@[simp] theorem orgUids_cons (s : Species W) (ss : List (Species W)) : orgUids (s :: ss) = s.orgs.map (·.uid) ++ orgUids ss := by
  simp [orgUids]
theorem orgUids_append (a b : List (Species W)) : orgUids (a ++ b) = orgUids a ++ orgUids b := by
  simp [orgUids]

/-! ### speciation adds every arriving organism to exactly one species -/

theorem orgUids_modify_append (ss : List (Species W)) (i : Nat) (org : Org W) (h : i < ss.length) :
    (orgUids (ss.modify i (fun s => { s with orgs := s.orgs ++ [org] }))).Perm (org.uid :: orgUids ss) := by
  induction ss generalizing i with
  | nil => simp at h
  | cons s ss ih =>
    cases i with
    | zero =>
      simp only [List.modify, orgUids_cons, List.map_append, List.map_cons, List.map_nil, List.append_assoc]
      have : (s.orgs.map (·.uid) ++ ([org.uid] ++ orgUids ss)).Perm ([org.uid] ++ (s.orgs.map (·.uid) ++ orgUids ss)) := by
        rw [← List.append_assoc, ← List.append_assoc]
        exact List.Perm.append_right _ List.perm_append_comm
      simpa using this
    | succ i =>
      simp only [List.modify_succ_cons, orgUids_cons]
      have := ih i (by simpa using h)
      exact (List.Perm.append_left _ this).trans (by
        have : (s.orgs.map (·.uid) ++ ([org.uid] ++ orgUids ss)).Perm ([org.uid] ++ (s.orgs.map (·.uid) ++ orgUids ss)) := by
          rw [← List.append_assoc, ← List.append_assoc]
          exact List.Perm.append_right _ List.perm_append_comm
        simpa using this)

theorem bestCompatible_lt (o : EpochOpts W) (g : Genome W) (ss : List (Species W)) (i : Nat) (best : Option Nat) (bv : W)
    (hb : ∀ b, best = some b → b < i) : ∀ b, bestCompatible o g ss i best bv = some b → b < i + ss.length := by
  induction ss generalizing i best bv with
  | nil => intro b h; simp [bestCompatible] at h; have := hb b h; simpa using this
  | cons s ss ih =>
    intro b h
    unfold bestCompatible at h
    split at h
    · have := ih (i + 1) best bv (fun b' hb' => by have := hb b' hb'; omega) b h
      simp only [List.length_cons]; omega
    · simp only at h
      split at h
      · have := ih (i + 1) (some i) _ (fun b' hb' => by cases hb'; omega) b h
        simp only [List.length_cons]; omega
      · have := ih (i + 1) best bv (fun b' hb' => by have := hb b' hb'; omega) b h
        simp only [List.length_cons]; omega

/-- one arriving organism: the organism ids of the species list grow by exactly that organism; everything else of
    the population (organism list, allocation counter) is untouched -/
theorem speciateOne_uids (o : EpochOpts W) (p p' : Pop W) (org : Org W) (h : speciateOne o p org = .ok p') :
    (orgUids p'.species).Perm (org.uid :: orgUids p.species) ∧ p'.organisms = p.organisms ∧ p'.nextUid = p.nextUid := by
  unfold speciateOne at h
  simp only at h
  have hnew : ∀ s : Species W, s.orgs = [org] → (orgUids (p.species ++ [s])).Perm (org.uid :: orgUids p.species) := by
    intro s hs
    rw [orgUids_append]; simp only [orgUids_cons, hs, List.map_cons, List.map_nil, orgUids_nil, List.append_nil]
    exact List.perm_append_comm
  split at h
  · cases h; exact ⟨hnew _ rfl, rfl, rfl⟩
  · split at h
    · cases h
    · split at h
      · rename_i i hb
        cases h
        have hi : i < p.species.length := by
          have := bestCompatible_lt o org.genome p.species 0 none maxVal (by intro b h; cases h) i hb; simpa using this
        exact ⟨orgUids_modify_append _ _ _ hi, rfl, rfl⟩
      · cases h; exact ⟨hnew _ rfl, rfl, rfl⟩

theorem speciateLoop_uids (o : EpochOpts W) (p p' : Pop W) (orgs : List (Org W)) (h : speciateLoop o p orgs = .ok p') :
    (orgUids p'.species).Perm (orgs.map (·.uid) ++ orgUids p.species) ∧ p'.organisms = p.organisms ∧ p'.nextUid = p.nextUid := by
  induction orgs generalizing p with
  | nil => simp [speciateLoop] at h; subst h; exact ⟨List.Perm.refl _, rfl, rfl⟩
  | cons x xs ih =>
    unfold speciateLoop at h
    split at h
    · cases h
    · rename_i p1 h1
      obtain ⟨a1, a2, a3⟩ := speciateOne_uids o p p1 x h1
      obtain ⟨b1, b2, b3⟩ := ih _ h
      refine ⟨?_, by rw [b2, a2], by rw [b3, a3]⟩
      refine b1.trans ?_
      have : (xs.map (·.uid) ++ (x.uid :: orgUids p.species)).Perm (x.uid :: (xs.map (·.uid) ++ orgUids p.species)) :=
        List.perm_middle
      exact (List.Perm.append_left _ a1).trans (by simpa using this)

/-! ### removing the old generation and building the new organism list -/

theorem purgeOrAgeLoop_uids (ss : List (Species W)) (k : Int) :
    orgUids (purgeOrAgeLoop ss k) = orgUids ss := by
  induction ss generalizing k with
  | nil => rfl
  | cons s ss ih =>
    unfold purgeOrAgeLoop
    split
    · rename_i he
      rw [ih]
      have : s.orgs = [] := by simpa using he
      simp [this]
    · simp only [orgUids_cons, ih]
      congr 1
      generalize s.orgs = l
      induction l generalizing k with
      | nil => rfl
      | cons x xs ihx => simp [renumber, ihx]

theorem purgeOrAgeLoop_nonempty (ss : List (Species W)) (k : Int) : ∀ s ∈ purgeOrAgeLoop ss k, s.orgs ≠ [] := by
  induction ss generalizing k with
  | nil => intro s hs; cases hs
  | cons x xs ih =>
    intro s hs
    unfold purgeOrAgeLoop at hs
    split at hs
    · exact ih _ s hs
    · rename_i hne
      rcases List.mem_cons.mp hs with rfl | h'
      · simp only
        cases hxo : x.orgs with
        | nil => simp [hxo] at hne
        | cons a as => simp [renumber]
      · exact ih _ s h'

/-- ages after the turnover: every surviving species is exactly one generation older, except that a species
    founded during this turnover (or at construction: flag `isNovel`) keeps its age and loses the flag -/
theorem purgeOrAgeLoop_ages (ss : List (Species W)) (k : Int) :
    ∀ s' ∈ purgeOrAgeLoop ss k, ∃ s ∈ ss, s'.id = s.id ∧ s'.isNovel = false ∧
      s'.age = (if s.isNovel then s.age else s.age + 1) := by
  induction ss generalizing k with
  | nil => intro s hs; cases hs
  | cons x xs ih =>
    intro s' hs
    unfold purgeOrAgeLoop at hs
    split at hs
    · obtain ⟨s, h1, h2⟩ := ih _ s' hs
      exact ⟨s, by simp [h1], h2⟩
    · rcases List.mem_cons.mp hs with rfl | h'
      · exact ⟨x, by simp, rfl, rfl, rfl⟩
      · obtain ⟨s, h1, h2⟩ := ih _ s' h'
        exact ⟨s, by simp [h1], h2⟩

/-- what survives `purgeOldGeneration`: exactly the organisms that are not in the old organism list -/
theorem purgeOld_uids (p : Pop W) :
    orgUids (purgeOldGeneration p).species = (orgUids p.species).filter (fun u => !p.organisms.contains u) := by
  unfold purgeOldGeneration
  simp only
  generalize p.species = ss
  induction ss with
  | nil => rfl
  | cons s ss ih =>
    simp only [List.map_cons, orgUids_cons, List.filter_append, ih]
    congr 1
    generalize s.orgs = l
    induction l with
    | nil => rfl
    | cons x xs ihx =>
      simp only [List.filter_cons, List.map_cons]
      split <;> simp_all

/-- **C02 (finalisation).** After `finalizeReproduction`: the population's organism list is exactly the
    concatenation of the species' member lists (every organism belongs to exactly one species, which lists it);
    no species is empty; the survivors are those organisms that were not part of the old generation; ages step as
    the property says; the innovation records are forgotten. -/
theorem finalize_spec (p : Pop W) :
    let p' := finalizeReproduction p
    p'.organisms = orgUids p'.species ∧
    (∀ s ∈ p'.species, s.orgs ≠ []) ∧
    orgUids p'.species = (orgUids p.species).filter (fun u => !p.organisms.contains u) ∧
    (∀ s' ∈ p'.species, ∃ s ∈ p.species, s'.id = s.id ∧ s'.isNovel = false ∧ s'.age = (if s.isNovel then s.age else s.age + 1)) ∧
    p'.reg.records = [] ∧ p'.lastSpecies = p.lastSpecies := by
  intro p'
  simp only [p', finalizeReproduction, purgeOrAgeSpecies]
  refine ⟨by simp [orgUids], purgeOrAgeLoop_nonempty _ _, ?_, ?_, trivial, rfl⟩
  · rw [purgeOrAgeLoop_uids, purgeOld_uids]
  · intro s' hs'
    obtain ⟨s, hs, h1, h2, h3⟩ := purgeOrAgeLoop_ages _ _ s' hs'
    unfold purgeOldGeneration at hs
    simp only [List.mem_map] at hs
    obtain ⟨s0, hs0, rfl⟩ := hs
    exact ⟨s0, hs0, h1, h2, h3⟩

/-! ### the reproduction phase -/

theorem range_shift_nodup (n k : Nat) : ((List.range n).map (· + k)).Nodup := by
  rw [List.nodup_iff_pairwise_ne, List.pairwise_map]
  exact List.Pairwise.imp (fun h => by omega) (List.nodup_iff_pairwise_ne.mp List.nodup_range)


/-- allocation ids handed out by `reproduceOne`/`reproduceLoop`/`reproduceAll` are consecutive from the counter -/
theorem reproduceOne_uid (o : EpochOpts W) (gen : Int) (s : Species W) (sorted : List (Species W)) (champ : Org W)
    (count : Int) (st st' : ReproState W) (rs rs' : List Nat)
    (h : reproduceOne o gen s sorted champ count st rs = .ok (st', rs')) :
    ∃ b, st'.babies = st.babies ++ [b] ∧ b.uid = st.nextUid ∧ st'.nextUid = st.nextUid + 1 := by
  unfold reproduceOne at h
  simp only at h
  repeat' (split at h)
  all_goals (first
    | (simp only [Except.ok.injEq, Prod.mk.injEq] at h; obtain ⟨rfl, _⟩ := h; exact ⟨_, rfl, rfl, rfl⟩)
    | cases h)

theorem reproduceLoop_uids (o : EpochOpts W) (gen : Int) (s : Species W) (sorted : List (Species W)) (champ : Org W)
    (n : Nat) (count : Int) (st st' : ReproState W) (rs rs' : List Nat)
    (h : reproduceLoop o gen s sorted champ n count st rs = .ok (st', rs')) :
    st'.babies.map (·.uid) = st.babies.map (·.uid) ++ (List.range n).map (· + st.nextUid) ∧ st'.nextUid = st.nextUid + n := by
  induction n generalizing count st rs with
  | zero => simp [reproduceLoop] at h; obtain ⟨rfl, _⟩ := h; simp
  | succ n ih =>
    unfold reproduceLoop at h
    split at h
    · cases h
    · rename_i st1 rs1 hone
      obtain ⟨b, hb, hu, hn⟩ := reproduceOne_uid _ _ _ _ _ _ _ _ _ _ hone
      obtain ⟨i1, i2⟩ := ih _ _ _ h
      refine ⟨?_, by rw [i2, hn]; omega⟩
      rw [i1, hb, hn]
      simp only [List.map_append, List.map_cons, List.map_nil, hu, List.append_assoc]
      congr 1
      rw [List.range_succ_eq_map]
      simp only [List.map_cons, List.map_map, Nat.zero_add, List.singleton_append]
      congr 1
      apply List.map_congr_left
      intro a _; simp only [Function.comp]; omega

theorem reproduceSpecies_uids (o : EpochOpts W) (gen : Int) (s : Species W) (sorted : List (Species W)) (reg reg' : Reg W)
    (uid uid' : Nat) (babies : List (Org W)) (rs rs' : List Nat)
    (h : reproduceSpecies o gen s sorted reg uid rs = .ok ((babies, reg', uid'), rs')) :
    babies.map (·.uid) = (List.range babies.length).map (· + uid) ∧ uid' = uid + babies.length := by
  unfold reproduceSpecies at h
  split at h
  · split at h <;> cases h
  · simp only at h
    split at h
    · cases h
    · rename_i st rs1 hloop
      simp only [Except.ok.injEq, Prod.mk.injEq] at h
      obtain ⟨⟨rfl, _, rfl⟩, _⟩ := h
      obtain ⟨h1, h2⟩ := reproduceLoop_uids _ _ _ _ _ _ _ _ _ _ _ hloop
      simp only [List.map_nil, List.nil_append] at h1
      have hlen : st.babies.length = s.expectedOffspring.toNat := by
        have := congrArg List.length h1; simpa using this
      rw [hlen]; exact ⟨h1, h2⟩

theorem reproduceAll_uids (o : EpochOpts W) (gen : Int) (sorted ss : List (Species W)) (reg reg' : Reg W) (uid uid' : Nat)
    (acc babies : List (Org W)) (rs rs' : List Nat)
    (h : reproduceAll o gen sorted ss reg uid acc rs = .ok ((babies, reg', uid'), rs'))
    (hacc : ∀ u ∈ acc.map (·.uid), u < uid) (hnd : (acc.map (·.uid)).Nodup) :
    (babies.map (·.uid)).Nodup ∧ (∀ u ∈ babies.map (·.uid), u < uid') ∧
    (∀ u ∈ babies.map (·.uid), u ∈ acc.map (·.uid) ∨ uid ≤ u) := by
  induction ss generalizing reg uid acc rs with
  | nil =>
    simp [reproduceAll] at h
    obtain ⟨⟨rfl, _, rfl⟩, _⟩ := h
    exact ⟨hnd, hacc, fun u hu => Or.inl hu⟩
  | cons s ss ih =>
    unfold reproduceAll at h
    split at h
    · cases h
    · rename_i bs reg1 uid1 rs1 hs
      obtain ⟨hb1, hb2⟩ := reproduceSpecies_uids _ _ _ _ _ _ _ _ _ _ _ hs
      have hnew : ∀ u ∈ bs.map (·.uid), uid ≤ u ∧ u < uid1 := by
        intro u hu; rw [hb1] at hu
        obtain ⟨a, ha, rfl⟩ := List.mem_map.mp hu
        have := List.mem_range.mp ha; omega
      have hnd' : ((acc ++ bs).map (·.uid)).Nodup := by
        rw [List.map_append, List.nodup_append]
        refine ⟨hnd, ?_, ?_⟩
        · rw [hb1]
          exact range_shift_nodup _ _
        · intro a ha b hb hab
          have := hacc a ha; have := (hnew b hb).1; omega
      obtain ⟨r1, r2, r3⟩ := ih _ _ _ _ h (by
        intro u hu
        rw [List.map_append] at hu
        rcases List.mem_append.mp hu with h' | h'
        · have := hacc u h'; omega
        · exact (hnew u h').2) hnd'
      refine ⟨r1, r2, ?_⟩
      intro u hu
      rcases r3 u hu with h' | h'
      · rw [List.map_append] at h'
        rcases List.mem_append.mp h' with h'' | h''
        · exact Or.inl h''
        · exact Or.inr (hnew u h'').1
      · right; omega

/-- allocation discipline: every organism listed by a species is in the population's organism list, and the
    allocation counter is above every id in that list -/
structure UidInv (p : Pop W) : Prop where
  listed : ∀ u ∈ orgUids p.species, u ∈ p.organisms
  below : ∀ u ∈ p.organisms, u < p.nextUid

/-- **C02 (size, partition, freshness).** If the reproduction phase returns, then after finalisation the
    population holds exactly the configured number of organisms; each of them is listed by exactly one species
    (the organism list is the duplicate-free concatenation of the species' member lists); no species is empty;
    and none of them belonged to the previous generation. For every stream, registry and option setting. -/
theorem reproduce_finalize_popInv (o : EpochOpts W) (gen : Int) (p1 p2 : Pop W) (ex : ExecState) (rs rs' : List Nat)
    (hinv : UidInv p1) (h : reproducePhase o gen p1 ex rs = .ok (p2, rs')) :
    let p3 := finalizeReproduction p2
    p3.organisms.length = o.popSize ∧ p3.organisms.Nodup ∧ p3.organisms = orgUids p3.species ∧
    (∀ s ∈ p3.species, s.orgs ≠ []) ∧ (∀ u ∈ p3.organisms, u ∉ p1.organisms) := by
  intro p3
  unfold reproducePhase at h
  simp only at h
  split at h
  · cases h
  · rename_i babies reg uid rs1 hall
    split at h
    · cases h
    · rename_i hlen
      split at h
      · cases h
      · rename_i p2' hsp
        simp only [Except.ok.injEq, Prod.mk.injEq] at h
        obtain ⟨rfl, _⟩ := h
        obtain ⟨hnd, _, hge⟩ := reproduceAll_uids o gen _ _ _ _ _ _ [] babies _ _ hall (by simp) (by simp)
        unfold speciate at hsp
        split at hsp
        · cases hsp
        · obtain ⟨hperm, horg, _⟩ := speciateLoop_uids o _ _ _ hsp
          simp only at hperm horg
          obtain ⟨f1, f2, f3, _⟩ := finalize_spec p2'
          have hfilter : ((orgUids p2'.species).filter (fun u => !p2'.organisms.contains u)).Perm (babies.map (·.uid)) := by
            refine (hperm.filter _).trans ?_
            rw [List.filter_append, horg]
            have hb : (babies.map (·.uid)).filter (fun u => !p1.organisms.contains u) = babies.map (·.uid) := by
              rw [List.filter_eq_self]
              intro u hu
              rcases hge u hu with h' | h'
              · simp at h'
              · simp only [Bool.not_eq_true', List.contains_eq_mem, decide_eq_false_iff_not]
                intro hmem; have := hinv.below u hmem; omega
            have ho : (orgUids p1.species).filter (fun u => !p1.organisms.contains u) = [] := by
              rw [List.filter_eq_nil_iff]
              intro u hu
              simp [hinv.listed u hu]
            rw [hb, ho, List.append_nil]
          have hp3 : p3.organisms.Perm (babies.map (·.uid)) := by
            show (finalizeReproduction p2').organisms.Perm _
            rw [f1, f3]; exact hfilter
          refine ⟨?_, hp3.nodup_iff.mpr hnd, f1, f2, ?_⟩
          · rw [hp3.length_eq, List.length_map]
            simpa using hlen
          · intro u hu hmem
            have hu' := hp3.mem_iff.mp hu
            rcases hge u hu' with h' | h'
            · simp at h'
            · have := hinv.below u hmem; omega

end GoNeat.C02
