/-
  C16 — the parallel epoch executor is race-free under every schedule and preserves the population guarantees.

  (a) `lockset_drf`            no valid trace (= no schedule, any number of threads, any length) of a program that
                               follows the locking discipline contains a data race            [Proofs/ParallelDRF]
      `access_table_disciplined`  the REGENERATED table of shared-memory accesses of the goroutine body
                               (`Gen/Access.lean`, rewritten from the Go sources on every run) follows the committed
                               protection classes / ownership table — re-proved by evaluation on every run
      `table_discipline_sound` a trace whose worker accesses are instances of table rows (holding the locks the rows
                               claim) and whose main-thread accesses are before the fork / after the join is
                               `Disciplined`; with `lockset_drf`: `table_drf`
  (b) `interleaved_consistent` for every interleaving of the registry micro-steps of any number of threads: issued
                               numbers pairwise distinct and above the base counters, every number denotes one
                               connection, every node id one role                              [Proofs/RegistryPar]
  Unchanged code before repair e5dce51 (F8): `legacy_table_not_disciplined`, `legacy_innovations_race`.
-/
import GoNeat.Proofs.ParallelDRF
import GoNeat.Proofs.RegistryPar
import GoNeat.Spec.AccessExpect
import GoNeat.Gen.Access

namespace GoNeat.C16
open GoNeat.Par GoNeat.AccessTable

/-! ### (a) data-race freedom -/

/-- In EVERY valid trace — every schedule, any number of threads, any length — if every access is serial (main thread,
    before the fork / after the join) or follows the protection class of its location (one common mutex held /
    thread-owned / read-only / atomic-only), no two conflicting accesses are unordered by happens-before. -/
theorem lockset_drf {L M : Type} [DecidableEq M] (cls : L → LocClass M) (tr : Trace L M)
    (hv : Valid tr) (hd : Disciplined cls tr) : ∀ i j, ¬ Race tr i j :=
  Par.lockset_drf cls tr hv hd

/-- the obligation on the regenerated access table: nothing unrecognised, every access of `Population` state /
    package-level / captured variables follows its protection class, every field write goes to a fresh or
    species-owned object covered by the committed table, every external callee is on the justified list -/
theorem access_table_disciplined :
    AccessExpect.obligation Gen.accesses Gen.fieldWrites Gen.fieldReads Gen.externalCalls Gen.unrecognised = true := by
  decide +kernel

/-- consequences spelled out for the three pieces of shared registry state -/
theorem innovations_guarded :
    (Gen.accesses.filter (·.loc == "genetics.Population.innovations")).all
      (fun a => a.kind != .atomic && a.holds "genetics.Population.mutex") = true ∧
    (Gen.accesses.filter (·.loc == "genetics.Population.innovations")).any (·.kind == .wr) = true := by
  decide +kernel

theorem counters_atomic :
    (Gen.accesses.filter (fun a => a.loc == "genetics.Population.nextInnovNum" || a.loc == "genetics.Population.nextNodeId")).all
      (fun a => a.prot == .atomic) = true ∧
    (Gen.accesses.filter (fun a => a.loc == "genetics.Population.nextInnovNum" || a.loc == "genetics.Population.nextNodeId")).length ≥ 2 := by
  decide +kernel

def toLocClass : SharedClass → LocClass String
  | .guarded m => .guarded m
  | .readOnly => .readOnly
  | .atomicOnly => .atomicOnly

def kindOf : Op String String → Option AccKind
  | .rd _ => some .rd
  | .wr _ => some .wr
  | .atomic _ => some .atomic
  | _ => none

/-- "the trace is an execution of the program the table was extracted from" — the assumption that ties the static
    table to dynamic traces (soundness of the extractor and of its lock analysis; fork/join shape of the executor):
    every access is either *serial* (made by the main goroutine while every other thread is already joined or not yet
    forked: everything `NextEpoch` does before the `go` statements and after `wg.Wait()`), or an instance of a table
    row — the table covers the goroutine bodies AND the part of the forking function that runs concurrently with
    them (the `for … { go … }` loop up to `wg.Wait()`) — holding every mutex the row claims -/
structure Conforms (rows : List Access) (tr : Trace String String) : Prop where
  access : ∀ (k : Nat) (e : Event String String) (l : String), tr[k]? = some e → e.op.loc? = some l →
      Serial tr k e ∨
      ∃ r ∈ rows, r.loc = l ∧ kindOf e.op = some r.kind ∧ ∀ m, r.holds m = true → Holds tr k e.tid m

/-- the static discipline of the table implies the dynamic discipline of every conforming trace -/
theorem table_discipline_sound (classOf : String → SharedClass) (rows : List Access) (tr : Trace String String)
    (hs : sharedDiscipline classOf rows = true) (hc : Conforms rows tr) :
    Disciplined (fun l => toLocClass (classOf l)) tr := by
  intro k e he
  have hrow : ∀ l, e.op.loc? = some l → Serial tr k e ∨
      ∃ r ∈ rows, r.loc = l ∧ kindOf e.op = some r.kind ∧ (∀ m, r.holds m = true → Holds tr k e.tid m) ∧
        rowOk (classOf l) r = true := by
    intro l hl
    rcases hc.access k e l he hl with hser | ⟨r, hr, hloc, hk, hh⟩
    · exact Or.inl hser
    · refine Or.inr ⟨r, hr, hloc, hk, hh, ?_⟩
      have := List.all_eq_true.mp hs r hr
      simpa [hloc] using this
  unfold AccessOk
  cases hop : e.op with
  | rd l =>
    rcases hrow l (by simp [hop, Op.loc?]) with hser | ⟨r, _, _, hk, hh, hok⟩
    · exact Or.inl hser
    · right
      cases hc' : classOf l with
      | guarded m =>
        simp only [hc', rowOk, Bool.and_eq_true] at hok
        simpa only [hc', toLocClass] using hh m hok.2
      | readOnly => simp only [hc', toLocClass]
      | atomicOnly =>
        simp only [hc', rowOk, Bool.and_eq_true, beq_iff_eq] at hok
        simp [hop, kindOf, hok.1] at hk
  | wr l =>
    rcases hrow l (by simp [hop, Op.loc?]) with hser | ⟨r, _, _, hk, hh, hok⟩
    · exact Or.inl hser
    · right
      cases hc' : classOf l with
      | guarded m =>
        simp only [hc', rowOk, Bool.and_eq_true] at hok
        simpa only [hc', toLocClass] using hh m hok.2
      | readOnly =>
        simp only [hc', rowOk, Bool.and_eq_true, beq_iff_eq] at hok
        simp [hop, kindOf, hok.1] at hk
      | atomicOnly =>
        simp only [hc', rowOk, Bool.and_eq_true, beq_iff_eq] at hok
        simp [hop, kindOf, hok.1] at hk
  | atomic l =>
    rcases hrow l (by simp [hop, Op.loc?]) with hser | ⟨r, _, _, hk, hh, hok⟩
    · exact Or.inl hser
    · right
      cases hc' : classOf l with
      | guarded m =>
        simp only [hc', rowOk, Bool.and_eq_true] at hok
        simpa only [hc', toLocClass] using hh m hok.2
      | readOnly =>
        simp only [hc', rowOk, Bool.and_eq_true, beq_iff_eq] at hok
        simp [hop, kindOf, hok.1] at hk
      | atomicOnly => simp only [hc', toLocClass]
  | acq m => trivial
  | rel m => trivial
  | fork c => trivial
  | join c => trivial

/-- a disciplined table: no conforming valid trace has a race on `Population` state / package-level variables -/
theorem table_drf (classOf : String → SharedClass) (rows : List Access) (tr : Trace String String)
    (hs : sharedDiscipline classOf rows = true) (hv : Valid tr) (hc : Conforms rows tr) : ∀ i j, ¬ Race tr i j :=
  Par.lockset_drf _ tr hv (table_discipline_sound classOf rows tr hs hc)

/-- … instantiated with the regenerated table and the committed classes -/
theorem generated_table_drf (tr : Trace String String) (hv : Valid tr) (hc : Conforms Gen.accesses tr) :
    ∀ i j, ¬ Race tr i j := by
  refine table_drf AccessExpect.classOf Gen.accesses tr ?_ hv hc
  have h := access_table_disciplined
  simp only [AccessExpect.obligation, disciplined, Bool.and_eq_true] at h
  exact h.1.1.2

/-- non-vacuity of `lockset_drf`: a 22-event trace (two workers taking the mutex in turn, atomics, owned and
    read-only locations, serial accesses of main before the fork and after the join) is valid and disciplined -/
example : Valid exTrace ∧ Disciplined exCls exTrace ∧ ∀ i j, ¬ Race exTrace i j :=
  ⟨exTrace_valid, exTrace_disciplined, exTrace_race_free⟩

/-- … and the definitions can be violated: an undisciplined valid trace with a race -/
example : Valid racyTrace ∧ Race racyTrace 2 3 := ⟨racyTrace_valid, racyTrace_race⟩

/-! ### the defect repaired by e5dce51 (F8): `Innovations()` read the slice header without the mutex -/

/-- the rows of `Population.innovations` as extracted from the code BEFORE the repair -/
def legacyAccesses : List Access := [
  ⟨"(*genetics.Population).Innovations", "genetics.Population.innovations", .rd, .plain, "neat/genetics/population.go:142"⟩,
  ⟨"(*genetics.Population).StoreInnovation", "genetics.Population.innovations", .rd, .underMutex ["genetics.Population.mutex"], "neat/genetics/population.go:138"⟩,
  ⟨"(*genetics.Population).StoreInnovation", "genetics.Population.innovations", .wr, .underMutex ["genetics.Population.mutex"], "neat/genetics/population.go:138"⟩
]

theorem legacy_table_not_disciplined : sharedDiscipline AccessExpect.classOf legacyAccesses = false := by decide +kernel

/-- … and no choice of a protection class repairs it -/
theorem legacy_table_no_class (c : SharedClass) : sharedDiscipline (fun _ => c) legacyAccesses = false := by
  cases c with
  | guarded m => simp [sharedDiscipline, legacyAccesses, rowOk, Access.holds]
  | readOnly => simp [sharedDiscipline, legacyAccesses, rowOk]
  | atomicOnly => simp [sharedDiscipline, legacyAccesses, rowOk]

/-- the schedule the race detector reported: goroutine 2 scans `Innovations()` while goroutine 1 is inside
    `StoreInnovation` (mutex held) appending -/
def legacyTrace : Trace String String :=
  [ ⟨0, .fork 1⟩, ⟨0, .fork 2⟩, ⟨1, .acq "mutex"⟩, ⟨2, .rd "innovations"⟩, ⟨1, .wr "innovations"⟩, ⟨1, .rel "mutex"⟩ ]

theorem legacyTrace_valid : Valid legacyTrace := valid_of_validB (by decide)

theorem legacyTrace_no_hb_from_read {i j : Nat} (h : HB legacyTrace i j) : i ≠ 3 := by
  induction h with
  | @po i j e e' hij hi hj ht =>
    intro h3
    subst h3
    have hj6 : j < 6 := lt_length_of_getElem? hj
    simp [legacyTrace] at hi
    subst hi
    match j, hj6, hij, hj with
    | 4, _, _, hj => simp [legacyTrace] at hj; subst hj; simp at ht
    | 5, _, _, hj => simp [legacyTrace] at hj; subst hj; simp at ht
  | @sw i j t t' m hij hi hj =>
    intro h3
    subst h3
    simp [legacyTrace] at hi
  | @fork i j t c e hij hi hj ht =>
    intro h3
    subst h3
    simp [legacyTrace] at hi
  | @join i j u c e hij hi ht hj =>
    intro h3
    subst h3
    have hj6 : j < 6 := lt_length_of_getElem? hj
    match j, hj6, hij, hj with
    | 4, _, _, hj => simp [legacyTrace] at hj
    | 5, _, _, hj => simp [legacyTrace] at hj
  | trans _ _ ih1 _ => exact ih1

/-- C16 counterexample on the unrepaired code: a valid trace with a data race on `Population.innovations` -/
theorem legacy_innovations_race : Valid legacyTrace ∧ Race legacyTrace 3 4 := by
  refine ⟨legacyTrace_valid, by omega, ⟨2, .rd "innovations"⟩, ⟨1, .wr "innovations"⟩, rfl, rfl,
    ⟨by simp, "innovations", rfl, rfl, Or.inr rfl, by simp [Op.isAtomic]⟩, ?_⟩
  intro h
  exact legacyTrace_no_hb_from_read h rfl

/-! ### (b) same guarantees: the innovation registry under arbitrary interleavings -/

open GoNeat.RegPar in
/-- For EVERY scheduler list, any number of threads and requests: after running the interleaved micro-steps
    (snapshot of the records · fetch-add nextNode? · fetch-add nextInn* · store) every innovation number in any gene
    denotes one connection and every node id one role (`Functional log`, `Functional nodeLog`); the numbers issued by
    the counters are pairwise distinct and above the epoch's base counters; a number used in a gene is either
    freshly issued or keeps the meaning the registry gave it before the epoch; log and records agree; records only
    grow.  (Two records for the SAME link with different numbers may exist — allowed: see the example in
    Proofs/RegistryPar.lean.) -/
theorem interleaved_consistent (linkOf : Nat → Link) (progs : List (List Req)) (sched : List Nat) (s₀ : Shared)
    (h₀ : RegInv₀ linkOf s₀) :
    let s := (runSched linkOf (initState s₀ progs) sched).shared
    Functional s.log ∧ Functional s.nodeLog ∧
    Functional (s.records.flatMap (Rec.bindings linkOf)) ∧ Functional (s.records.flatMap Rec.nodeBindings) ∧
    s.issuedInn.Nodup ∧ (∀ n ∈ s.issuedInn, s₀.nextInn < n) ∧
    s.issuedNode.Nodup ∧ (∀ n ∈ s.issuedNode, s₀.nextNode < n) ∧
    (∀ b ∈ s.log, b.1 ∈ s.issuedInn ∨ b ∈ s₀.records.flatMap (Rec.bindings linkOf)) ∧
    (∀ b ∈ s.nodeLog, b.1 ∈ s.issuedNode ∨ b ∈ s₀.records.flatMap Rec.nodeBindings) ∧
    (∀ b ∈ s.log, b ∈ s.records.flatMap (Rec.bindings linkOf)) ∧
    (∃ ext, s.records = s₀.records ++ ext) :=
  RegPar.interleaved_consistent linkOf progs sched s₀ h₀

/-- non-vacuity: the initial registry of the worked example satisfies the hypothesis, and in its run two threads
    really do create two records for the same link with different numbers -/
example : RegPar.RegInv₀ RegPar.Example.linkOf RegPar.Example.s₀ := RegPar.Example.regInv₀

end GoNeat.C16
