/-
  Property C19, recording a generation: `Generation.FillPopulationStatistics`, `Generation.Average`,
  `Generation.ChampionComplexity` (model: Model/GenerationStats.lean) produce the per-generation series that the
  trial / experiment statistics (Props/C19.lean, Props/C19Exact.lean) aggregate.

  Order actually used: `sort.Sort(sort.Reverse(Organisms))` with `Organisms.Less` = fitness, ties by the organism's
  highest fitness (`orgLess`).  "Fittest" below therefore is: no member of the species is strictly greater in the
  (fitness, highest fitness) order - in particular none has a strictly greater fitness.  These clauses hold for every
  scalar type whose `<` is a strict weak order and whose `==` is its incomparability (`C08.StrictWeak`, `C10.EqLaw`:
  float64 without NaN, every ordered field) - Kind A with the order laws as hypotheses, no arithmetic law.
  The clauses about Diversity, lengths, ages, the permutation and the unchanged rest need no hypothesis at all.
-/
import GoNeat.Model.GenerationStats
import GoNeat.Props.C10Sort
import GoNeat.Props.C02Epoch
import GoNeat.Props.C11
import GoNeat.Props.C19

namespace GoNeat.C19
open GoNeat Scalar GoNeat.GenStatsModel

variable {W : Type} [Scalar W]

/-! ### the loop, unfolded -/

/-- a species after the call: same record, member list sorted -/
def sortSpecies (s : Species W) : Species W := { s with orgs := sortOrgsDesc s.orgs }

/-- the species bests in species order: the first organism of every (non-empty) sorted member list -/
def bests (ss : List (Species W)) : List (Org W) := ss.filterMap (fun s => (sortOrgsDesc s.orgs).head?)

/-- the champion selection of the loop on the list of species bests: running maximum `mx`, replaced on a strict `>` -/
def champScan : List (Org W) → W → Option (Org W) → Option (Org W)
  | [], _, ch => ch
  | t :: ts, mx, ch => if gt t.fitness mx then champScan ts t.fitness (some t) else champScan ts mx ch

theorem sortOrgsDesc_ne_nil (l : List (Org W)) (h : l ≠ []) : sortOrgsDesc l ≠ [] := by
  intro h0
  have hlen := (C10.sortOrgsDesc_perm l).length_eq
  rw [h0] at hlen
  exact h (List.eq_nil_of_length_eq_zero hlen.symm)

theorem fillLoop_spec (solved : Bool) (ss : List (Species W)) (mx : W) (ch : Option (Org W)) (r : LoopOut W)
    (h : fillLoop solved ss mx ch = .ok r) :
    (∀ s ∈ ss, s.orgs ≠ []) ∧ r.species = ss.map sortSpecies ∧ r.age = ss.map (fun s => ofInt s.age) ∧
    r.fitness = (bests ss).map (·.fitness) ∧ r.complexity = (bests ss).map (fun t => ofInt (organismComplexity t)) ∧
    r.champion = (if solved then ch else champScan (bests ss) mx ch) ∧ (bests ss).length = ss.length := by
  induction ss generalizing mx ch r with
  | nil =>
    simp only [fillLoop, Except.ok.injEq] at h
    subst h
    simp [bests, champScan]
  | cons s ss ih =>
    unfold fillLoop at h
    split at h
    · cases h
    · rename_i top rest hs
      simp only at h
      split at h
      · cases h
      · rename_i r' hr
        simp only [Except.ok.injEq] at h
        subst h
        obtain ⟨a1, a2, a3, a4, a5, a6, a7⟩ := ih _ _ _ hr
        have hb : bests (s :: ss) = top :: bests ss := by simp [bests, hs]
        have hne : s.orgs ≠ [] := by
          intro h0
          have hlen := (C10.sortOrgsDesc_perm s.orgs).length_eq
          rw [hs, h0] at hlen
          simp at hlen
        refine ⟨?_, ?_, ?_, ?_, ?_, ?_, ?_⟩
        · intro x hx
          rcases List.mem_cons.mp hx with rfl | hx'
          · exact hne
          · exact a1 x hx'
        · simp only [List.map_cons, a2, sortSpecies, hs]
        · simp only [List.map_cons, a3]
        · simp only [hb, List.map_cons, a4]
        · simp only [hb, List.map_cons, a5]
        · rw [a6, hb]
          cases solved
          · simp only [Bool.not_false, Bool.true_and, Bool.false_eq_true, if_false, champScan]
            by_cases hg : gt top.fitness mx = true
            · simp [hg]
            · simp [hg]
          · simp
        · simp only [hb, List.length_cons, a7]

theorem fillLoop_defined (solved : Bool) (ss : List (Species W)) (mx : W) (ch : Option (Org W))
    (hne : ∀ s ∈ ss, s.orgs ≠ []) : ∃ r, fillLoop solved ss mx ch = .ok r := by
  induction ss generalizing mx ch with
  | nil => exact ⟨_, rfl⟩
  | cons s ss ih =>
    have h1 := sortOrgsDesc_ne_nil s.orgs (hne s (List.mem_cons_self ..))
    unfold fillLoop
    split
    · rename_i h0; exact absurd h0 h1
    · rename_i top rest hs
      simp only
      obtain ⟨r', hr'⟩ := ih (if (!solved && gt top.fitness mx) = true then top.fitness else mx)
        (if (!solved && gt top.fitness mx) = true then some top else ch) (fun x hx => hne x (List.mem_cons_of_mem _ hx))
      rw [hr']
      exact ⟨_, rfl⟩

/-- all clauses of the loop for `FillPopulationStatistics` on a record with the given `Solved` flag and champion -/
theorem fillFrom_spec (solved : Bool) (ch0 : Option (Org W)) (p p' : Pop W) (st : GenStats W)
    (h : fillFrom solved ch0 p = .ok (st, p')) :
    (∀ s ∈ p.species, s.orgs ≠ []) ∧ p' = { p with species := p.species.map sortSpecies } ∧
    st.diversity = p.species.length ∧ st.age = p.species.map (fun s => ofInt s.age) ∧
    st.fitness = (bests p.species).map (·.fitness) ∧
    st.complexity = (bests p.species).map (fun t => ofInt (organismComplexity t)) ∧
    st.champion = (if solved then ch0 else champScan (bests p.species) minInt64W ch0) ∧
    (bests p.species).length = p.species.length := by
  unfold fillFrom at h
  split at h
  · cases h
  · rename_i r hr
    simp only [Except.ok.injEq, Prod.mk.injEq] at h
    obtain ⟨h1, h2⟩ := h
    obtain ⟨a1, a2, a3, a4, a5, a6, a7⟩ := fillLoop_spec solved _ _ _ _ hr
    subst h1 h2
    exact ⟨a1, by rw [a2], rfl, a3, a4, a5, a6, a7⟩

/-! ### the species bests -/

/-- without empty species `bests` has one entry per species: the head of that species' sorted list -/
theorem bests_getElem (ss : List (Species W)) (hne : ∀ s ∈ ss, s.orgs ≠ []) (i : Nat) (s : Species W)
    (hi : ss[i]? = some s) : ∃ top rest, sortOrgsDesc s.orgs = top :: rest ∧ (bests ss)[i]? = some top := by
  induction ss generalizing i with
  | nil => simp at hi
  | cons x xs ih =>
    have hx := sortOrgsDesc_ne_nil x.orgs (hne x (List.mem_cons_self ..))
    obtain ⟨t, r, hxr⟩ := List.exists_cons_of_ne_nil hx
    have hb : bests (x :: xs) = t :: bests xs := by simp [bests, hxr]
    cases i with
    | zero =>
      simp only [List.getElem?_cons_zero, Option.some.injEq] at hi
      subst hi
      exact ⟨t, r, hxr, by rw [hb]; rfl⟩
    | succ j =>
      simp only [List.getElem?_cons_succ] at hi
      obtain ⟨top, rest, h1, h2⟩ := ih (fun y hy => hne y (List.mem_cons_of_mem _ hy)) j hi
      exact ⟨top, rest, h1, by rw [hb]; simpa using h2⟩

/-- every species best is the head of the sorted list of some species, hence a member of it -/
theorem bests_mem (ss : List (Species W)) (b : Org W) (hb : b ∈ bests ss) :
    ∃ s ∈ ss, (sortOrgsDesc s.orgs).head? = some b ∧ b ∈ s.orgs := by
  simp only [bests, List.mem_filterMap] at hb
  obtain ⟨s, hs, hh⟩ := hb
  refine ⟨s, hs, hh, ?_⟩
  have : b ∈ sortOrgsDesc s.orgs := List.mem_of_mem_head? hh
  exact (C10.sortOrgsDesc_perm s.orgs).mem_iff.mp this

/-! ### the champion scan -/

/-- running maximum with strict replacement: either nothing exceeds the initial value and the champion is unchanged,
    or the result is the FIRST element attaining the maximum -/
theorem champScan_spec (hw : C08.StrictWeak W) (ts : List (Org W)) (mx : W) (ch : Option (Org W)) :
    ((∀ t ∈ ts, lt mx t.fitness = false) ∧ champScan ts mx ch = ch) ∨
    (∃ (k : Nat) (top : Org W), ts[k]? = some top ∧ champScan ts mx ch = some top ∧ lt mx top.fitness = true ∧
       (∀ b ∈ ts, lt top.fitness b.fitness = false) ∧
       (∀ (j : Nat) (b : Org W), j < k → ts[j]? = some b → lt b.fitness top.fitness = true)) := by
  induction ts generalizing mx ch with
  | nil => left; exact ⟨by simp, rfl⟩
  | cons t ts ih =>
    by_cases hgt : lt mx t.fitness = true
    · have hstep : champScan (t :: ts) mx ch = champScan ts t.fitness (some t) := by
        simp [champScan, Scalar.gt, hgt]
      rcases ih t.fitness (some t) with ⟨hall, heq⟩ | ⟨k, top, hk, heq, hlt, hmax, hearly⟩
      · right
        refine ⟨0, t, rfl, by rw [hstep, heq], hgt, ?_, ?_⟩
        · intro b hb
          rcases List.mem_cons.mp hb with rfl | hb'
          · exact hw.irrefl _
          · exact hall b hb'
        · intro j b hj; omega
      · right
        refine ⟨k + 1, top, by simpa using hk, by rw [hstep, heq], hw.trans _ _ _ hgt hlt, ?_, ?_⟩
        · intro b hb
          rcases List.mem_cons.mp hb with rfl | hb'
          · exact C10.lt_asymm hw _ _ hlt
          · exact hmax b hb'
        · intro j b hj hjb
          cases j with
          | zero =>
            simp only [List.getElem?_cons_zero, Option.some.injEq] at hjb
            rw [← hjb]; exact hlt
          | succ j' =>
            simp only [List.getElem?_cons_succ] at hjb
            exact hearly j' b (by omega) hjb
    · have hgt' : lt mx t.fitness = false := by simpa using hgt
      have hstep : champScan (t :: ts) mx ch = champScan ts mx ch := by
        simp [champScan, Scalar.gt, hgt']
      rcases ih mx ch with ⟨hall, heq⟩ | ⟨k, top, hk, heq, hlt, hmax, hearly⟩
      · left
        refine ⟨?_, by rw [hstep, heq]⟩
        intro b hb
        rcases List.mem_cons.mp hb with rfl | hb'
        · exact hgt'
        · exact hall b hb'
      · right
        refine ⟨k + 1, top, by simpa using hk, by rw [hstep, heq], hlt, ?_, ?_⟩
        · intro b hb
          rcases List.mem_cons.mp hb with rfl | hb'
          · exact C10.lt_negTrans hw _ _ _ (C10.lt_asymm hw _ _ hlt) hgt'
          · exact hmax b hb'
        · intro j b hj hjb
          cases j with
          | zero =>
            simp only [List.getElem?_cons_zero, Option.some.injEq] at hjb
            rw [← hjb]
            rcases hw.weak _ _ t.fitness hlt with h | h
            · rw [hgt'] at h; cases h
            · exact h
          | succ j' =>
            simp only [List.getElem?_cons_succ] at hjb
            exact hearly j' b (by omega) hjb

/-! ## the property theorems -/

/-- **C19 (recording is defined exactly on populations without empty species).** `FillPopulationStatistics` returns
    (does not index into an empty member list) iff no species is empty - the invariant C02 establishes. -/
theorem fill_defined_iff (solved : Bool) (ch0 : Option (Org W)) (p : Pop W) :
    (∃ r, fillFrom solved ch0 p = .ok r) ↔ ∀ s ∈ p.species, s.orgs ≠ [] := by
  constructor
  · rintro ⟨⟨st, p'⟩, h⟩
    exact (fillFrom_spec solved ch0 p p' st h).1
  · intro hne
    obtain ⟨r, hr⟩ := fillLoop_defined solved p.species minInt64W ch0 hne
    unfold fillFrom
    rw [hr]
    exact ⟨_, rfl⟩

/-- **C19 (Diversity and the shape of the series).** Diversity is the number of species; the Fitness, Age and
    Complexity series have exactly that length; the Age series lists the species' ages in species order. -/
theorem fill_diversity_ages (solved : Bool) (ch0 : Option (Org W)) (p p' : Pop W) (st : GenStats W)
    (h : fillFrom solved ch0 p = .ok (st, p')) :
    st.diversity = p.species.length ∧ st.fitness.length = p.species.length ∧ st.age.length = p.species.length ∧
    st.complexity.length = p.species.length ∧ st.age = p.species.map (fun s => ofInt s.age) := by
  obtain ⟨_, _, h1, h2, h3, h4, _, h6⟩ := fillFrom_spec solved ch0 p p' st h
  refine ⟨h1, ?_, ?_, ?_, h2⟩
  · rw [h3, List.length_map, h6]
  · rw [h2, List.length_map]
  · rw [h4, List.length_map, h6]

/-- **C19 (per-species entries).** For every species `i`: after the call its member list starts with an organism `top`
    of that species which no member exceeds in the order actually used (fitness, ties by highest fitness) - in particular
    no member has a strictly greater fitness -, `Fitness[i]` is `top`'s fitness, `Complexity[i]` its complexity and
    `Age[i]` the species' age. -/
theorem fill_species_best (hw : C08.StrictWeak W) (he : C10.EqLaw W) (solved : Bool) (ch0 : Option (Org W))
    (p p' : Pop W) (st : GenStats W) (h : fillFrom solved ch0 p = .ok (st, p')) (i : Nat) (s : Species W)
    (hi : p.species[i]? = some s) :
    ∃ top rest, p'.species[i]? = some { s with orgs := top :: rest } ∧ top ∈ s.orgs ∧
      (∀ x ∈ s.orgs, orgLess top x = false ∧ lt top.fitness x.fitness = false) ∧
      st.fitness[i]? = some top.fitness ∧ st.complexity[i]? = some (ofInt (organismComplexity top)) ∧
      st.age[i]? = some (ofInt s.age) := by
  obtain ⟨hne, hp', _, h2, h3, h4, _, _⟩ := fillFrom_spec solved ch0 p p' st h
  obtain ⟨top, rest, hs, hb⟩ := bests_getElem p.species hne i s hi
  refine ⟨top, rest, ?_, ?_, C10.sortOrgsDesc_head_fittest hw he s.orgs top rest hs, ?_, ?_, ?_⟩
  · rw [hp']
    simp only [List.getElem?_map, hi, Option.map_some, sortSpecies, hs]
  · exact (C10.sortOrgsDesc_perm s.orgs).mem_iff.mp (hs ▸ List.mem_cons_self ..)
  · rw [h3, List.getElem?_map, hb]; rfl
  · rw [h4, List.getElem?_map, hb]; rfl
  · rw [h2, List.getElem?_map, hi]; rfl

/-- **C19 (champion of a generation that is not marked solved).**  GUARD: some species-best fitness exceeds
    `float64(math.MinInt64)` (the initial value of the running maximum).  Then a champion is recorded; it is the best
    organism of species `k`, the FIRST species (in species order) whose best attains the maximal species-best fitness
    (every earlier species best is strictly smaller: strict `>`), an organism of the population, no species-best fitness
    exceeds its fitness, and - with the per-species clause - no organism of the population has a greater fitness. -/
theorem fill_champion (hw : C08.StrictWeak W) (he : C10.EqLaw W) (p p' : Pop W) (st : GenStats W)
    (h : fillPopulationStatistics p = .ok (st, p'))
    (hguard : ∃ f ∈ st.fitness, lt minInt64W f = true) :
    ∃ (k : Nat) (c : Org W) (s : Species W), st.champion = some c ∧ p.species[k]? = some s ∧ c ∈ s.orgs ∧
      ((p'.species[k]?).bind (fun s' => s'.orgs.head?)) = some c ∧ st.fitness[k]? = some c.fitness ∧
      (∀ f ∈ st.fitness, lt c.fitness f = false) ∧
      (∀ (j : Nat) (f : W), j < k → st.fitness[j]? = some f → lt f c.fitness = true) ∧
      (∀ s' ∈ p.species, ∀ x ∈ s'.orgs, lt c.fitness x.fitness = false) := by
  obtain ⟨hne, hp', _, _, h3, _, h5, h6⟩ := fillFrom_spec false none p p' st h
  simp only [Bool.false_eq_true, if_false] at h5
  rcases champScan_spec hw (bests p.species) minInt64W none with ⟨hall, _⟩ | ⟨k, c, hk, heq, _, hmax, hearly⟩
  · obtain ⟨f, hf, hlt⟩ := hguard
    rw [h3] at hf
    obtain ⟨b, hb, rfl⟩ := List.mem_map.mp hf
    rw [hall b hb] at hlt; cases hlt
  · have hklt : k < p.species.length := by
      rw [← h6]; exact (List.getElem?_eq_some_iff.mp hk).1
    obtain ⟨s, hs⟩ : ∃ s, p.species[k]? = some s := ⟨p.species[k], List.getElem?_eq_getElem hklt⟩
    obtain ⟨top, rest, hsort, hb⟩ := bests_getElem p.species hne k s hs
    have htc : top = c := by rw [hk] at hb; exact (Option.some.inj hb).symm
    subst htc
    have hmaxf : ∀ f ∈ st.fitness, lt top.fitness f = false := by
      intro f hf
      rw [h3] at hf
      obtain ⟨b, hb', rfl⟩ := List.mem_map.mp hf
      exact hmax b hb'
    refine ⟨k, top, s, by rw [h5, heq], hs, ?_, ?_, ?_, hmaxf, ?_, ?_⟩
    · exact (C10.sortOrgsDesc_perm s.orgs).mem_iff.mp (hsort ▸ List.mem_cons_self ..)
    · rw [hp']
      simp only [List.getElem?_map, hs, Option.map_some, sortSpecies, hsort, Option.bind_some, List.head?_cons]
    · rw [h3, List.getElem?_map, hk]; rfl
    · intro j f hj hjf
      rw [h3, List.getElem?_map] at hjf
      cases hbj : (bests p.species)[j]? with
      | none => rw [hbj] at hjf; cases hjf
      | some b =>
        rw [hbj] at hjf
        simp only [Option.map_some, Option.some.injEq] at hjf
        subst hjf
        exact hearly j b hj hbj
    · intro s' hs' x hx
      -- the best of species s' is not exceeded by x, and the champion is not exceeded by that best
      obtain ⟨i, hi⟩ := List.getElem?_of_mem hs'
      obtain ⟨t', r', hsort', hb'⟩ := bests_getElem p.species hne i s' hi
      have h1 := (C10.sortOrgsDesc_head_fittest hw he s'.orgs t' r' hsort' x hx).2
      have h2 := hmax t' (List.mem_of_getElem? hb')
      exact C10.lt_negTrans hw _ _ _ h2 h1

/-- **C19 (below the guard: observation).** If NO species-best fitness exceeds `float64(math.MinInt64)` - every
    organism's fitness is at or below -2^63 - a fresh generation record gets NO champion (`Champion` stays nil,
    `ChampionComplexity` is `math.MaxInt`), although Fitness / Age / Complexity are filled as usual. -/
theorem fill_no_champion_below_guard (p p' : Pop W) (st : GenStats W)
    (h : fillPopulationStatistics p = .ok (st, p'))
    (hbelow : ∀ f ∈ st.fitness, lt minInt64W f = false) :
    st.champion = none ∧ championComplexity st = maxInt := by
  obtain ⟨_, _, _, _, h3, _, h5, _⟩ := fillFrom_spec false none p p' st h
  simp only [Bool.false_eq_true, if_false] at h5
  have hscan : ∀ (ts : List (Org W)) (mx : W) (ch : Option (Org W)), (∀ t ∈ ts, lt mx t.fitness = false) →
      champScan ts mx ch = ch := by
    intro ts
    induction ts with
    | nil => intros; rfl
    | cons t ts ih =>
      intro mx ch hall
      have h0 := hall t (List.mem_cons_self ..)
      simp only [champScan, Scalar.gt, h0, Bool.false_eq_true, if_false]
      exact ih mx ch (fun x hx => hall x (List.mem_cons_of_mem _ hx))
  have hnone : st.champion = none := by
    rw [h5]
    apply hscan
    intro t ht
    exact hbelow _ (by rw [h3]; exact List.mem_map_of_mem ht)
  exact ⟨hnone, by simp [championComplexity, hnone]⟩

/-- **C19 (solved generation).** When the record is already marked `Solved` the champion the evaluator stored is kept. -/
theorem fill_solved_keeps_champion (ch0 : Option (Org W)) (p p' : Pop W) (st : GenStats W)
    (h : fillFrom true ch0 p = .ok (st, p')) : st.champion = ch0 := by
  obtain ⟨_, _, _, _, _, _, h5, _⟩ := fillFrom_spec true ch0 p p' st h
  simpa using h5

/-- **C19 (the population after the call).** Nothing changes except the ORDER of each species' member list: the
    population record keeps every other field, the species list keeps its length and order, every species keeps every
    field but `orgs`, and the new member list is a permutation of the old one. -/
theorem fill_population (solved : Bool) (ch0 : Option (Org W)) (p p' : Pop W) (st : GenStats W)
    (h : fillFrom solved ch0 p = .ok (st, p')) :
    p' = { p with species := p'.species } ∧ p'.species.length = p.species.length ∧
    ∀ (i : Nat) (s : Species W), p.species[i]? = some s →
      ∃ s' : Species W, p'.species[i]? = some s' ∧ s' = { s with orgs := s'.orgs } ∧ s'.orgs.Perm s.orgs := by
  obtain ⟨_, hp', _⟩ := fillFrom_spec solved ch0 p p' st h
  subst hp'
  refine ⟨rfl, by simp, ?_⟩
  intro i s hi
  refine ⟨sortSpecies s, by simp [hi], rfl, C10.sortOrgsDesc_perm s.orgs⟩

/-! ### C02's invariants survive the call -/

theorem flatMap_map_perm {α β : Type} (f : α → List β) (g : α → α) (hfg : ∀ a, (f (g a)).Perm (f a)) (l : List α) :
    ((l.map g).flatMap f).Perm (l.flatMap f) := by
  induction l with
  | nil => exact List.Perm.refl _
  | cons a l ih =>
    simp only [List.map_cons, List.flatMap_cons]
    exact (hfg a).append ih

/-- **C19 / C02 (recording a generation keeps the population invariant).** C02's invariants that do not depend on the
    ORDER inside a species survive `FillPopulationStatistics`: the allocation discipline (`UidInv`: every listed organism
    is in the population's organism list, ids below the counter), unique species ids not above `LastSpecies`
    (`SpIdInv`), no empty species, the same organism list, the same species ids / ages / novel flags in the same order;
    the species' member ids and genome ids are the same up to a permutation (so "each organism is listed by exactly
    one species" and "genome ids unique" are preserved).  Hence `NextEpoch` may follow (`C02.nextEpoch_popInv` needs
    `UidInv` and `SpIdInv` only).  The one order-SENSITIVE clause, `organisms = orgUids species`, becomes a permutation
    (`fill_breaks_listing_order` below shows that equality itself is lost - also in the Go code, harmlessly). -/
theorem fill_preserves_popInv (solved : Bool) (ch0 : Option (Org W)) (p p' : Pop W) (st : GenStats W)
    (h : fillFrom solved ch0 p = .ok (st, p')) (hu : C02.UidInv p) (hs : C02.SpIdInv p) :
    C02.UidInv p' ∧ C02.SpIdInv p' ∧ (∀ s ∈ p'.species, s.orgs ≠ []) ∧ p'.organisms = p.organisms ∧
    p'.species.map C02.skey = p.species.map C02.skey ∧
    (C02.orgUids p'.species).Perm (C02.orgUids p.species) ∧
    (C02.genomeIds p'.species).Perm (C02.genomeIds p.species) := by
  obtain ⟨hne, hp', _⟩ := fillFrom_spec solved ch0 p p' st h
  subst hp'
  have hkeys : (p.species.map sortSpecies).map C02.skey = p.species.map C02.skey := by
    simp [List.map_map, Function.comp_def, C02.skey, sortSpecies]
  have hids : (p.species.map sortSpecies).map (·.id) = p.species.map (·.id) := by
    simp [List.map_map, Function.comp_def, sortSpecies]
  have huids : (C02.orgUids (p.species.map sortSpecies)).Perm (C02.orgUids p.species) := by
    unfold C02.orgUids
    exact flatMap_map_perm _ sortSpecies (fun s => (C10.sortOrgsDesc_perm s.orgs).map _) p.species
  have hgids : (C02.genomeIds (p.species.map sortSpecies)).Perm (C02.genomeIds p.species) := by
    unfold C02.genomeIds
    exact flatMap_map_perm _ sortSpecies (fun s => (C10.sortOrgsDesc_perm s.orgs).map _) p.species
  refine ⟨⟨?_, hu.below⟩, ⟨?_, ?_⟩, ?_, rfl, hkeys, huids, hgids⟩
  · intro u hu'
    exact hu.listed u (huids.mem_iff.mp hu')
  · show ((p.species.map sortSpecies).map (·.id)).Nodup
    rw [hids]; exact hs.nodup
  · intro s hs'
    obtain ⟨s0, hs0, rfl⟩ := List.mem_map.mp hs'
    exact hs.le s0 hs0
  · intro s hs'
    obtain ⟨s0, hs0, rfl⟩ := List.mem_map.mp hs'
    exact sortOrgsDesc_ne_nil s0.orgs (hne s0 hs0)

/-! ### `Generation.Average`, `Generation.ChampionComplexity`, and how a `Trial` reads the record -/

/-- **C19 (`Generation.Average`).** The three values are the means (`Floats.Mean`: `none` = NaN for a population
    without species) of the recorded Fitness, Age and Complexity series - the `fMean` of Props/C19 (`mean_eq` in
    Props/C19Exact.lean: = Σ x / n in exact arithmetic) - and `Trial.Average` lists exactly these per generation. -/
theorem generationAverage_eq (solved : Bool) (g : GenStats W) (p' : Pop W) :
    generationAverage g = (Stats.fMean g.fitness, Stats.fMean g.age, Stats.fMean g.complexity) ∧
    Stats.average ⟨[toGen solved g p']⟩ = ([(generationAverage g).1], [(generationAverage g).2.1], [(generationAverage g).2.2]) :=
  ⟨rfl, rfl⟩

/-- **C19 (complexity).** The complexity of an organism whose genome `Genesis` accepts is the number of nodes plus the
    number of links of the expressed network: genome nodes + enabled modules + enabled genes + the module wires
    (C11's `genesis_counts`); `math.MaxInt` otherwise.  `ChampionComplexity` is the champion's complexity, `math.MaxInt`
    without a champion. -/
theorem complexity_spec (g : GenStats W) :
    (∀ (o : Org W) (net : Net W), Genesis.genesis o.genome o.genome.id = .ok net →
        organismComplexity o = ((Genesis.specNodeCount o.genome + Genesis.specLinkCount o.genome : Nat) : Int)) ∧
    (∀ (o : Org W) (e : Stop), Genesis.genesis o.genome o.genome.id = .error e → organismComplexity o = maxInt) ∧
    (g.champion = none → championComplexity g = maxInt) ∧
    (∀ c, g.champion = some c → championComplexity g = organismComplexity c) := by
  refine ⟨?_, ?_, ?_, ?_⟩
  · intro o net hnet
    have := (C11.genesis_counts o.genome o.genome.id net hnet).2.2
    simp only [organismComplexity, hnet, this]
  · intro o e he
    simp only [organismComplexity, he]
  · intro hc; simp [championComplexity, hc]
  · intro c hc; simp [championComplexity, hc]

/-- **C19 (what a trial reads).** Through a one-generation trial the record yields: Diversity = the number of species,
    the champion's fitness (0 without champion), the champion's complexity (0 when it is `math.MaxInt`). -/
theorem trial_reads_record (solved : Bool) (g : GenStats W) (p' : Pop W) :
    Stats.diversity ⟨[toGen solved g p']⟩ = [ofInt (g.diversity : Int)] ∧
    Stats.championsFitness ⟨[toGen solved g p']⟩ = [match g.champion with | some c => c.fitness | none => zero] := by
  refine ⟨rfl, ?_⟩
  cases hc : g.champion <;> simp [Stats.championsFitness, toGen, hc]

/-! ## non-vacuity and observations (exact integer scalar) -/
section NonVacuity
open GoNeat.ExactInt
attribute [local instance] intScalar

def demoOrg (uid : Nat) (fit high : Int) : Org Int :=
  { uid := uid, fitness := fit, genome := C02.tinyG uid, expectedOffspring := 0, generation := 0, originalFitness := 0,
    highestFitness := high }

def demoSpecies (id age : Int) (orgs : List (Org Int)) : Species Int :=
  { id := id, age := age, maxFitnessEver := 0, expectedOffspring := 0, isNovel := false, orgs := orgs, ageOfLastImprovement := 0 }

/-- three species; the bests of species 2 and 3 tie at the maximum 7 (the FIRST must win); inside species 2 the
    fitness tie 7 = 7 is decided by the highest-fitness key; species 1 holds a negative value -/
def demoPop : Pop Int :=
  { species := [demoSpecies 1 3 [demoOrg 0 (-4) 0, demoOrg 1 5 0],
                demoSpecies 2 1 [demoOrg 2 7 1, demoOrg 3 2 0, demoOrg 4 7 9],
                demoSpecies 5 2 [demoOrg 5 7 0]],
    organisms := [0, 1, 2, 3, 4, 5], lastSpecies := 5, highestFitness := 0, epochsHighestLastChanged := 0,
    reg := { records := [], nextInn := 1, nextNode := 2 }, nextUid := 6 }

/-- the hypotheses of the theorems hold for `demoPop` (no empty species, guard, invariants), and the record is the
    expected one: Fitness 5,7,7; Age 3,1,2; Complexity 3 each (2 nodes + 1 link); champion = organism 4 (species 2, the
    first of the two species attaining 7; inside it the member with the greater highest fitness); lists re-sorted -/
example :
    (match fillPopulationStatistics demoPop with
     | .ok (st, p') =>
       st.diversity == 3 && st.fitness == [5, 7, 7] && st.age == [3, 1, 2] && st.complexity == [3, 3, 3] &&
       st.champion.map (·.uid) == some 4 && championComplexity st == 3 &&
       st.fitness.any (fun f => lt (minInt64W : Int) f) &&
       p'.species.map (fun s => s.orgs.map (·.uid)) == [[1, 0], [4, 2, 3], [5]] &&
       generationAverage st == (some 6, some 2, some 3)
     | .error _ => false) = true := by decide +kernel

example : C08.StrictWeak Int ∧ C10.EqLaw Int := by
  refine ⟨⟨?_, ?_, ?_⟩, ?_⟩
  · intro a; simp [Scalar.lt, intScalar]
  · intro a b c; simp only [Scalar.lt, intScalar, decide_eq_true_eq]; omega
  · intro a b c; simp only [Scalar.lt, intScalar, decide_eq_true_eq]; omega
  · intro a b; simp only [Scalar.eq, Scalar.lt, intScalar, decide_eq_true_eq, decide_eq_false_iff_not]; omega

example : C02.UidInv demoPop ∧ C02.SpIdInv demoPop ∧ demoPop.organisms = C02.orgUids demoPop.species :=
  ⟨⟨by decide, by decide⟩, ⟨by decide, by decide⟩, by decide⟩

/-- **observation: the listing order.** Before the call `organisms` is the concatenation of the species' member ids
    (C02's strongest form); after it the concatenation is only a permutation of `organisms` -/
theorem fill_breaks_listing_order :
    demoPop.organisms = C02.orgUids demoPop.species ∧
    (match fillPopulationStatistics demoPop with
     | .ok (_, p') => p'.organisms != C02.orgUids p'.species && (p'.organisms.isPerm (C02.orgUids p'.species))
     | .error _ => false) = true := ⟨by decide, by decide +kernel⟩

/-- every fitness at or below -2^63 = float64(math.MinInt64) -/
def lowPop : Pop Int :=
  { species := [demoSpecies 1 3 [demoOrg 0 (-9223372036854775808) 0, demoOrg 1 (-9223372036854775813) 0],
                demoSpecies 2 1 [demoOrg 2 (-9223372036854775809) 0]],
    organisms := [0, 1, 2], lastSpecies := 2, highestFitness := 0, epochsHighestLastChanged := 0,
    reg := { records := [], nextInn := 1, nextNode := 2 }, nextUid := 3 }

/-- **observation: below the guard.** With every fitness ≤ float64(math.MinInt64) the series are filled (species bests
    -2^63 and -2^63-1) but NO champion is recorded and `ChampionComplexity` answers `math.MaxInt`; a trial then reads
    champion fitness 0. -/
theorem fill_below_guard_example :
    (match fillPopulationStatistics lowPop with
     | .ok (st, p') =>
       st.fitness == [-9223372036854775808, -9223372036854775809] && st.champion.isNone &&
       championComplexity st == maxInt && !st.fitness.any (fun f => lt (minInt64W : Int) f) &&
       Stats.championsFitness ⟨[toGen false st p']⟩ == [0]
     | .error _ => false) = true := by decide +kernel

/-- an empty species makes the call stop (index panic) -/
example : (match fillPopulationStatistics { demoPop with species := demoSpecies 9 1 [] :: demoPop.species } with
           | .error (.error "panic:index") => true
           | _ => false) = true := by decide +kernel

end NonVacuity

end GoNeat.C19
