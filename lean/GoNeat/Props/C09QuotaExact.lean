/-
  Property C09 / C02, Kind B: the quota facts `QuotaOk` that the epoch theorems take as a hypothesis are THEOREMS in
  exact ordered-field arithmetic (`exactScalar`), and their hypotheses do not depend on the order in which a species
  lists its organisms.

  `NoErr.QuotaOk o p` says: the raw quotas (floor + carried fraction, `rawAssign`) computed from the adjusted
  population are non-negative and total at most `PopSize`.  For an arbitrary scalar this is a fact about the rounded
  computation ON `p` (Props/C02Perm.lean, header table: not transferable across a re-ordering, because
  `adjustFitness` re-sorts with a non-stable sort and the mean is summed in list order).  In exact arithmetic:

  * every adjusted fitness is `≥ 0` (`adjustedFitness_nonneg`), so with a positive mean `m` every expected offspring
    `f / m` is `≥ 0`, every raw quota is `≥ 0` (`assignQuotas_nonneg`);
  * the expected offspring of all organisms sum to `(Σ f) / m = (Σ f) / ((Σ f) / n) = n` - sums do not depend on the
    order (`sum_perm`) - so the raw quotas total EXACTLY `n` (`quotas_total_exact`): `rawAssign_exact`.

  The hypotheses (`QuotaHyp`): `Population.Organisms` lists exactly the members of the species, each once; it has
  `PopSize` entries; some organism has a positive documented adjusted fitness (otherwise the code's guard `m == 0`
  fires and the expected offspring are whatever they were before).  All of them are insensitive to a within-species
  permutation (`quotaHyp_perm`), hence `quotaOk_exact_perm`: they hold for `p`, `SpeciesPerm p q` ⊢ `QuotaOk o q`;
  for `q = (FillPopulationStatistics p).2` see Props/C20EpochFill.lean `quotaOk_exact_fill`.
  Also: the mean itself does not depend on the order (`popMeanAdjusted_perm`), and the Kind-B reading of the first
  clause for a re-ordered input (`expectedWhy_model_perm`).
-/
import GoNeat.Props.C09Exact
import GoNeat.Props.C09Expected
import GoNeat.Props.C02Perm
import GoNeat.Props.C02NoErrorExact

set_option linter.unusedSectionVars false

namespace GoNeat.C09
open GoNeat GoNeat.NoErr

/-! ### the hypotheses (every scalar; decidable) -/
section Hyps
variable {W : Type} [Scalar W]

/-- some organism of the population has a positive documented adjusted fitness (`C09.adjustedFitness`) -/
def SomePositive (o : EpochOpts W) (p : Pop W) : Prop :=
  ∃ s ∈ p.species, ∃ x ∈ s.orgs, Scalar.lt Scalar.zero (adjustedFitness o s x.fitness) = true

/-- what the exact-arithmetic quota theorem needs of the population that enters the epoch -/
structure QuotaHyp (o : EpochOpts W) (p : Pop W) : Prop where
  perm : p.organisms.Perm (C02.orgUids p.species)
  nodup : (C02.orgUids p.species).Nodup
  size : p.organisms.length = o.popSize
  pos : SomePositive o p

instance (o : EpochOpts W) (p : Pop W) : Decidable (SomePositive o p) := by unfold SomePositive; infer_instance

instance (o : EpochOpts W) (p : Pop W) : Decidable (QuotaHyp o p) :=
  if h : p.organisms.Perm (C02.orgUids p.species) ∧ (C02.orgUids p.species).Nodup ∧ p.organisms.length = o.popSize ∧
      SomePositive o p then isTrue ⟨h.1, h.2.1, h.2.2.1, h.2.2.2⟩
  else isFalse (fun w => h ⟨w.perm, w.nodup, w.size, w.pos⟩)

theorem forall₂_mem_left {α β : Type} {R : α → β → Prop} {l : List α} {l' : List β} (hr : C02.All₂ R l l') :
    ∀ a ∈ l, ∃ b ∈ l', R a b := by
  induction hr with
  | nil => intro a ha; cases ha
  | cons hab _ ih =>
    intro a ha
    rcases List.mem_cons.mp ha with rfl | ha'
    · exact ⟨_, List.mem_cons_self, hab⟩
    · obtain ⟨b, hb, r⟩ := ih a ha'
      exact ⟨b, List.mem_cons_of_mem _ hb, r⟩

/-- the documented adjustment reads only the species' age, the age of its last improvement and its SIZE -/
theorem adjustedFitness_perm (o : EpochOpts W) (s s' : Species W) (he : s' = { s with orgs := s'.orgs })
    (hp : s'.orgs.Perm s.orgs) (f : W) : adjustedFitness o s' f = adjustedFitness o s f := by
  unfold adjustedFitness
  rw [hp.length_eq, he]

/-- the documented adjusted fitness values of the population (species by species) are re-ordered, not changed -/
theorem adjustedValues_perm (o : EpochOpts W) {p q : Pop W} (h : C02.SpeciesPerm p q) :
    (adjustedValues o q).Perm (adjustedValues o p) := by
  unfold adjustedValues
  refine C02.forall₂_flatMap_perm ?_ h.2
  intro s s' r
  obtain ⟨he, hp⟩ := r
  have : (fun x : Org W => adjustedFitness o s' x.fitness) = fun x => adjustedFitness o s x.fitness := by
    funext x; exact adjustedFitness_perm o s s' he hp _
  rw [this]
  exact hp.map _

/-- **the hypotheses of the exact quota theorem are insensitive to the order inside the species** -/
theorem quotaHyp_perm (o : EpochOpts W) {p q : Pop W} (h : C02.SpeciesPerm p q) (hp : QuotaHyp o p) : QuotaHyp o q := by
  have hu := h.sameShape.uids
  have ho := h.fields.1
  refine ⟨by rw [ho]; exact hp.perm.trans hu.symm, hu.nodup_iff.mpr hp.nodup, by rw [ho]; exact hp.size, ?_⟩
  obtain ⟨s, hs, x, hx, hpos⟩ := hp.pos
  obtain ⟨s', hs', he, hperm⟩ := forall₂_mem_left h.2 s hs
  exact ⟨s', hs', x, hperm.mem_iff.mpr hx, by rw [adjustedFitness_perm o s s' he hperm]; exact hpos⟩

end Hyps

/-! ### Kind B -/
section KindB
variable {K : Type} [Field K] [LinearOrder K] [IsStrictOrderedRing K] [FloorRing K]

theorem list_sum_nonneg (l : List K) (h : ∀ e ∈ l, 0 ≤ e) : 0 ≤ l.sum := by
  induction l with
  | nil => simp
  | cons a l ih =>
    simp only [List.sum_cons]
    exact add_nonneg (h a (by simp)) (ih (fun e he => h e (by simp [he])))

theorem list_sum_pos (l : List K) (h : ∀ e ∈ l, 0 ≤ e) (a : K) (ha : a ∈ l) (hpos : 0 < a) : 0 < l.sum := by
  induction l with
  | nil => cases ha
  | cons b l ih =>
    simp only [List.sum_cons]
    have hb := h b (by simp)
    have hl := list_sum_nonneg l (fun e he => h e (by simp [he]))
    rcases List.mem_cons.mp ha with rfl | ha'
    · linarith
    · have := ih (fun e he => h e (by simp [he])) ha'
      linarith

theorem sum_map_div {α : Type} (f : α → K) (m : K) (l : List α) :
    (l.map (fun x => f x / m)).sum = (l.map f).sum / m := by
  induction l with
  | nil => simp
  | cons a l ih => simp only [List.map_cons, List.sum_cons, ih, add_div]

/-- the raw quota of one species is not negative (non-negative expected offspring, carry in `[0,1)`) -/
theorem countOffspringList_nonneg (es : List K) (hnn : ∀ e ∈ es, 0 ≤ e) (skim : K) (h0 : 0 ≤ skim) (h1 : skim < 1) :
    0 ≤ (countOffspringList es skim 0).1 := by
  obtain ⟨c1, _, c3⟩ := countOffspringList_carry es hnn skim h0 h1 0
  have hs := list_sum_nonneg es hnn
  have h2 : ((-1 : Int) : K) < (((countOffspringList es skim 0).1 : Int) : K) := by
    push_cast at c1 ⊢; linarith
  have h3 : (-1 : Int) < (countOffspringList es skim 0).1 := by exact_mod_cast h2
  omega

/-- **C09 (raw quotas, Kind B): none is negative** -/
theorem assignQuotas_nonneg (ss : List (Species K)) (hnn : ∀ s ∈ ss, ∀ o ∈ s.orgs, 0 ≤ o.expectedOffspring)
    (skim : K) (h0 : 0 ≤ skim) (h1 : skim < 1) (tot : Int) :
    ∀ s ∈ (assignQuotas ss skim tot).1, 0 ≤ s.expectedOffspring := by
  induction ss generalizing skim tot with
  | nil => intro s hs; simp [assignQuotas] at hs
  | cons a ss ih =>
    have hnn' : ∀ e ∈ a.orgs.map (·.expectedOffspring), 0 ≤ e := by
      intro e he; obtain ⟨o, ho, rfl⟩ := List.mem_map.mp he; exact hnn a (by simp) o ho
    obtain ⟨_, c2, c3⟩ := countOffspringList_carry _ hnn' skim h0 h1 0
    have hq := countOffspringList_nonneg _ hnn' skim h0 h1
    intro s hs
    simp only [assignQuotas, List.mem_cons] at hs
    rcases hs with rfl | hs
    · exact hq
    · exact ih (fun t ht => hnn t (by simp [ht])) (countOffspring a skim).2 c2 c3 _ s hs

/-- with a non-zero mean the expected offspring of all organisms sum to (sum of the fitness values) / mean -/
theorem expectedTotal_setExp (m : K) (hm : m ≠ 0) (ss : List (Species K)) :
    expectedTotal (ss.map (fun s => { s with orgs := s.orgs.map (setExp m) })) =
      ((ss.flatMap (·.orgs)).map (·.fitness)).sum / m := by
  have hs : ∀ s : Species K, ((s.orgs.map (setExp m)).map (·.expectedOffspring)) = s.orgs.map (fun x => x.fitness / m) := by
    intro s
    rw [List.map_map]; apply List.map_congr_left; intro x _
    simp [setExp, hm]
  induction ss with
  | nil => simp [expectedTotal]
  | cons s ss ih =>
    unfold expectedTotal at ih ⊢
    simp only [List.map_cons, List.sum_cons, List.flatMap_cons, List.map_append, List.sum_append, hs, sum_map_div, add_div]
    rw [← ih]

theorem rawAssign_unfold (p1 : Pop K) :
    rawAssign p1 =
      ((assignQuotas (p1.species.map (fun s => { s with orgs := s.orgs.map (setExp (popMean p1)) })) 0 0).1,
       (assignQuotas (p1.species.map (fun s => { s with orgs := s.orgs.map (setExp (popMean p1)) })) 0 0).2.2) := rfl

/-- **C09 (raw quotas of a population, Kind B).**  In exact arithmetic, for an (adjusted) population `p1` whose
    organism list lists exactly the members of its species, whose members have non-negative fitness and whose mean
    fitness is positive: every raw quota is non-negative and the raw quotas total EXACTLY the number of organisms -
    the make-up offspring "for lost floating point precision" is never needed. -/
theorem rawAssign_exact (p1 : Pop K) (hperm : p1.organisms.Perm (C02.orgUids p1.species))
    (hundup : (C02.orgUids p1.species).Nodup) (hnn : ∀ s ∈ p1.species, ∀ x ∈ s.orgs, 0 ≤ x.fitness)
    (hm : 0 < popMean p1) :
    (∀ s ∈ (rawAssign p1).1, 0 ≤ s.expectedOffspring) ∧ (rawAssign p1).2 = (p1.organisms.length : Int) := by
  have hm0 : popMean p1 ≠ 0 := ne_of_gt hm
  set ss2 := p1.species.map (fun s => { s with orgs := s.orgs.map (setExp (popMean p1)) }) with hss2
  have hnn2 : ∀ s ∈ ss2, ∀ x ∈ s.orgs, 0 ≤ x.expectedOffspring := by
    intro s hs x hx
    obtain ⟨s0, hs0, rfl⟩ := List.mem_map.mp hs
    obtain ⟨x0, hx0, rfl⟩ := List.mem_map.mp hx
    have : (setExp (popMean p1) x0).expectedOffspring = x0.fitness / popMean p1 := by simp [setExp, hm0]
    rw [this]
    exact div_nonneg (hnn s0 hs0 x0 hx0) hm.le
  -- the total of the expected offspring
  have hol := orgList_perm p1 hperm hundup
  have htot : p1.orgList.foldl (fun acc x => acc + x.fitness) 0 = ((p1.species.flatMap (·.orgs)).map (·.fitness)).sum := by
    rw [foldl_add_eq_sum (fun x : Org K => x.fitness), zero_add, sum_perm (hol.map _)]
  have hmean := popMean_exact p1
  rw [htot] at hmean
  have hsum : expectedTotal ss2 = ((p1.organisms.length : Int) : K) := by
    rw [hss2, expectedTotal_setExp _ hm0, hmean]
    have hS : ((p1.species.flatMap (·.orgs)).map (·.fitness)).sum ≠ 0 := by
      intro h0; rw [h0, zero_div] at hmean; exact hm0 hmean
    have hn : ((p1.organisms.length : Nat) : K) ≠ 0 := by
      intro h0; rw [h0, div_zero] at hmean; exact hm0 hmean
    push_cast
    field_simp
  rw [rawAssign_unfold]
  refine ⟨assignQuotas_nonneg ss2 hnn2 0 (le_refl 0) zero_lt_one 0, ?_⟩
  have h1 := quotas_total_exact ss2 hnn2 _ hsum
  have h2 := assignQuotas_sumA ss2 (0 : K) 0
  show (assignQuotas ss2 0 0).2.2 = _
  rw [show (assignQuotas ss2 (0 : K) 0).2.2 = 0 + quotaSum (assignQuotas ss2 0 0).1 from h2, h1]
  omega

/-- the mean of the adjusted population is positive as soon as one organism has a positive documented adjusted fitness -/
theorem popMeanAdjusted_pos_of (o : EpochOpts K) (p : Pop K) (species1 : List (Species K)) (h : QuotaHyp o p)
    (hadj : adjustAll o p.species = .ok species1) : 0 < popMeanAdjusted o p := by
  rw [popMeanAdjusted_is_mean o p species1 h.perm h.nodup hadj]
  obtain ⟨s, hs, x, hx, hpos⟩ := h.pos
  simp only [Exact.lt_eq, Exact.zero_eq, decide_eq_true_eq] at hpos
  have hmem : adjustedFitness o s x.fitness ∈ adjustedValues o p :=
    List.mem_flatMap.mpr ⟨s, hs, List.mem_map.mpr ⟨x, hx, rfl⟩⟩
  have hnn : ∀ e ∈ adjustedValues o p, 0 ≤ e := by
    intro e he
    obtain ⟨s', _, he'⟩ := List.mem_flatMap.mp he
    obtain ⟨x', _, rfl⟩ := List.mem_map.mp he'
    exact adjustedFitness_nonneg o s' _
  apply div_pos (list_sum_pos _ hnn _ hmem hpos)
  have : 0 < (adjustedValues o p).length := List.length_pos_of_mem hmem
  exact_mod_cast this

/-- **`QuotaOk` is a theorem in exact arithmetic** (strong form: the raw total is exactly the population size).
    For a population whose organism list lists exactly the members of its species, with `PopSize` entries, in which
    some organism has a positive adjusted fitness: the raw quotas computed from the adjusted population are
    non-negative and total exactly `PopSize`. -/
theorem rawQuotas_exact (o : EpochOpts K) (p : Pop K) (h : QuotaHyp o p) :
    ∀ species1, adjustAll o p.species = .ok species1 →
      (∀ s ∈ (rawAssign ({ p with species := species1 } : Pop K)).1, 0 ≤ s.expectedOffspring) ∧
      (rawAssign ({ p with species := species1 } : Pop K)).2 = (o.popSize : Int) := by
  intro species1 hadj
  have hu1 := C02.adjustAll_uids o _ _ hadj
  have hm := popMeanAdjusted_pos_of o p species1 h hadj
  have hme : popMeanAdjusted o p = popMean ({ p with species := species1 } : Pop K) := by
    unfold popMeanAdjusted; rw [hadj]
  rw [hme] at hm
  have := rawAssign_exact ({ p with species := species1 } : Pop K) (h.perm.trans hu1.symm) (hu1.nodup_iff.mpr h.nodup)
    (adjustAll_fitness_nonneg o _ _ hadj) hm
  refine ⟨this.1, ?_⟩
  rw [this.2]
  show ((p.organisms.length : Nat) : Int) = _
  rw [h.size]

/-- **C09 / C02 (Kind B): `QuotaOk` holds in exact arithmetic** under order-insensitive hypotheses -/
theorem quotaOk_exact (o : EpochOpts K) (p : Pop K) (h : QuotaHyp o p) : QuotaOk o p := by
  intro species1 hadj
  obtain ⟨a, b⟩ := rawQuotas_exact o p h species1 hadj
  exact ⟨a, by omega⟩

/-- **… and so it holds for every within-species re-ordering `q` of `p`**: the hypotheses on `p`, the quota
    computation (adjust, re-sort, sum, divide, floor and carry) on `q` -/
theorem quotaOk_exact_perm (o : EpochOpts K) (p q : Pop K) (h : QuotaHyp o p) (hpq : C02.SpeciesPerm p q) : QuotaOk o q :=
  quotaOk_exact o q (quotaHyp_perm o hpq h)

theorem rawQuotas_exact_perm (o : EpochOpts K) (p q : Pop K) (h : QuotaHyp o p) (hpq : C02.SpeciesPerm p q) :
    ∀ species1, adjustAll o q.species = .ok species1 →
      (∀ s ∈ (rawAssign ({ q with species := species1 } : Pop K)).1, 0 ≤ s.expectedOffspring) ∧
      (rawAssign ({ q with species := species1 } : Pop K)).2 = (o.popSize : Int) :=
  rawQuotas_exact o q (quotaHyp_perm o hpq h)

/-- **the mean does not depend on the order inside the species** (exact arithmetic; both adjustments succeed, i.e.
    no species is empty) -/
theorem popMeanAdjusted_perm (o : EpochOpts K) (p q : Pop K) (sp sq : List (Species K))
    (hperm : p.organisms.Perm (C02.orgUids p.species)) (hundup : (C02.orgUids p.species).Nodup)
    (hpq : C02.SpeciesPerm p q) (hp : adjustAll o p.species = .ok sp) (hq : adjustAll o q.species = .ok sq) :
    popMeanAdjusted o q = popMeanAdjusted o p := by
  have hu := hpq.sameShape.uids
  have ho := hpq.fields.1
  rw [popMeanAdjusted_is_mean o p sp hperm hundup hp,
    popMeanAdjusted_is_mean o q sq (by rw [ho]; exact hperm.trans hu.symm) (hu.nodup_iff.mpr hundup) hq,
    sum_perm (adjustedValues_perm o hpq), (adjustedValues_perm o hpq).length_eq]

/-- **C02 "without error" in exact arithmetic, no quota hypothesis, after a within-species re-ordering**: the
    population hypotheses `PopOk` and "some organism has positive adjusted fitness" on `p`; `NextEpoch` runs on any
    within-species re-ordering `q` of `p` (in particular `(FillPopulationStatistics p).2`) and returns no
    implementation error.  No float fact is left as a hypothesis. -/
theorem nextEpoch_no_error_exact_perm (S : List Nat) (o : EpochOpts K) (p q : Pop K) (ho : OptsOk o) (hp : PopOk S o p)
    (hpos : SomePositive o p) (hpq : C02.SpeciesPerm p q) (gen : Int) :
    ∀ rs, Valid rs → ∀ msg, nextEpoch o gen q rs ≠ .error (.error msg) :=
  C02.nextEpoch_no_error_perm C02.floatFacts_exact S o p q ho hp hpq.evalOkPerm
    (quotaOk_exact_perm o p q ⟨hp.perm.symm, hp.perm.nodup_iff.mpr hp.nodup, hp.size, hpos⟩ hpq) gen

/-- **C09 first clause, Kind B, for a re-ordered input** (`expectedWhy_model` with the hypotheses on `p` and the
    preparation phase run on `q`): the population the model's preparation phase returns satisfies the executable
    predicate `PopSpec.expectedWhy` the driver evaluates on the implementation's numbers. -/
theorem expectedWhy_model_perm (o : EpochOpts K) (p q p1 : Pop K) (ex : ExecState) (rs rs' : List Nat)
    (hnd : (p.species.map (·.id)).Nodup) (hu : C02.UidInv p) (hundup : (C02.orgUids p.species).Nodup)
    (hpq : C02.SpeciesPerm p q) (h : prepareForReproduction o q rs = .ok ((p1, ex), rs')) :
    PopSpec.expectedWhy p1 = "" :=
  expectedWhy_model o q p1 ex rs rs' (by rw [hpq.sameShape.ids]; exact hnd) (hpq.sameShape.uidInv hu)
    (hpq.sameShape.uids.nodup_iff.mpr hundup) h

end KindB

/-! ### non-vacuity and sharpness: concrete populations over ℚ -/
section NonVacuity

/-- `qPop` with the two members of species 1 listed in the other order -/
def qPopSwap (f0 f1 f2 : ℚ) : Pop ℚ :=
  { qPop f0 f1 f2 with
    species := [{ id := 1, age := 3, maxFitnessEver := 0, expectedOffspring := 0, isNovel := false, orgs := [qOrg 2 f2, qOrg 0 f0],
                  ageOfLastImprovement := 0 },
                { id := 4, age := 1, maxFitnessEver := 0, expectedOffspring := 0, isNovel := true, orgs := [qOrg 1 f1],
                  ageOfLastImprovement := 0 }] }

theorem qPop_speciesPerm (f0 f1 f2 : ℚ) : C02.SpeciesPerm (qPop f0 f1 f2) (qPopSwap f0 f1 f2) :=
  ⟨rfl, .cons ⟨rfl, List.Perm.swap _ _ _⟩ (.cons ⟨rfl, List.Perm.refl _⟩ .nil)⟩

/-- the hypotheses of `quotaOk_exact_perm` hold for `qPop 1 3 5` (raw fitness 1, 5 | 3; three organisms) -/
theorem qPop_quotaHyp : QuotaHyp qOpts (qPop 1 3 5) := by rw [ratScalar_eq]; decide +kernel

/-- … so the theorem applies to the re-ordered population; evaluated independently: both orders adjust without error
    and give raw total 3 = PopSize -/
example : QuotaOk qOpts (qPopSwap 1 3 5) := quotaOk_exact_perm qOpts _ _ qPop_quotaHyp (qPop_speciesPerm 1 3 5)

example :
    ((adjustAll qOpts (qPop 1 3 5).species).toOption.map
      (fun sp => (rawAssign ({ qPop 1 3 5 with species := sp } : Pop ℚ)).2)) = some 3 ∧
    ((adjustAll qOpts (qPopSwap 1 3 5).species).toOption.map
      (fun sp => (rawAssign ({ qPopSwap 1 3 5 with species := sp } : Pop ℚ)).2)) = some 3 := by
  rw [ratScalar_eq]; decide +kernel

/-- **the positivity hypothesis cannot be dropped**: with all fitness values zero the mean is zero, the code's guard
    leaves the stale expected offspring (7 each) in place and the raw quotas total 21 > 3 - `QuotaOk` is false -/
theorem quotaOk_needs_positive : ¬ QuotaOk qOpts (qPop 0 0 0) ∧ ¬ SomePositive qOpts (qPop 0 0 0) := by
  rw [ratScalar_eq]; decide +kernel

end NonVacuity

end GoNeat.C09
