/-
  Driver handlers for population-level ops: `epoch` (sequential executor, with the state between
  preparation and reproduction), `spawn`, `speciate`.
-/
import GoNeat.Driver.Operators
import GoNeat.Driver.Genetics
import GoNeat.Model.Epoch
import GoNeat.Spec.PopInv
import GoNeat.Spec.Placed

namespace GoNeat.Driver
open Lean

def parseOrg (uid : Nat) (j : Json) : E (Org Float) := do
  return { uid := uid, fitness := ← fldF j "fitness", genome := ← parseGenome (← fld j "genome"),
           expectedOffspring := ← fldF j "expectedOffspring", generation := ← fldInt j "generation",
           originalFitness := ← fldF j "originalFitness", toEliminate := ← fldBool j "toEliminate",
           isChampion := ← fldBool j "isChampion", superChampOffspring := ← fldInt j "superChampOffspring",
           isPopChampion := ← fldBool j "isPopChampion", isPopChampionChild := ← fldBool j "isPopChampionChild",
           highestFitness := ← fldF j "highestFitness", mutStructBaby := ← fldBool j "mutStructBaby",
           mateBaby := ← fldBool j "mateBaby" }

def jOrg (o : Org Float) : Json :=
  jObj [("fitness", jF o.fitness), ("genome", jGenome o.genome), ("expectedOffspring", jF o.expectedOffspring),
        ("generation", jI o.generation), ("originalFitness", jF o.originalFitness), ("toEliminate", jB o.toEliminate),
        ("isChampion", jB o.isChampion), ("superChampOffspring", jI o.superChampOffspring),
        ("isPopChampion", jB o.isPopChampion), ("isPopChampionChild", jB o.isPopChampionChild),
        ("highestFitness", jF o.highestFitness), ("mutStructBaby", jB o.mutStructBaby), ("mateBaby", jB o.mateBaby)]

def pairOf (j : Json) : E (Nat × Nat) := do
  let a ← j.getArr?
  match a.toList with
  | [x, y] => return (← x.getNat?, ← y.getNat?)
  | _ => throw "pair expected"

/-- parse a population; allocation ids = position in `organisms`, unlisted organisms get the following ids -/
def parsePop (j : Json) : E (Pop Float) := do
  let spJ ← fldArr j "species"
  let orgPairs ← (← fldArr j "organisms").mapM pairOf
  let uidOf (si oi : Nat) : Option Nat := orgPairs.findIdx? (fun p => p.1 == si && p.2 == oi)
  let mut species : List (Species Float) := []
  let mut extra := orgPairs.length
  let mut si := 0
  for sj in spJ do
    let orgsJ ← fldArr sj "orgs"
    let mut orgs : List (Org Float) := []
    let mut oi := 0
    for oj in orgsJ do
      let uid ← match uidOf si oi with
        | some u => pure u
        | none => do let u := extra; extra := extra + 1; pure u
      orgs := orgs ++ [← parseOrg uid oj]
      oi := oi + 1
    species := species ++ [{ id := ← fldInt sj "id", age := ← fldInt sj "age", maxFitnessEver := ← fldF sj "maxFitnessEver",
                             expectedOffspring := ← fldInt sj "expectedOffspring", isNovel := ← fldBool sj "isNovel",
                             orgs := orgs, ageOfLastImprovement := ← fldInt sj "ageOfLastImprovement" }]
    si := si + 1
  return { species := species, organisms := List.range orgPairs.length, lastSpecies := ← fldInt j "lastSpecies",
           highestFitness := ← fldF j "highestFitness", epochsHighestLastChanged := ← fldInt j "epochsHighestLastChanged",
           reg := ← parseReg (← fld j "reg"), nextUid := extra }

def jSpecies (s : Species Float) : Json :=
  jObj [("id", jI s.id), ("age", jI s.age), ("maxFitnessEver", jF s.maxFitnessEver), ("expectedOffspring", jI s.expectedOffspring),
        ("isNovel", jB s.isNovel), ("ageOfLastImprovement", jI s.ageOfLastImprovement), ("orgs", jArr jOrg s.orgs)]

def posOf (p : Pop Float) (uid : Nat) : Option (Nat × Nat) :=
  let rec go (ss : List (Species Float)) (si : Nat) : Option (Nat × Nat) :=
    match ss with
    | [] => none
    | s :: rest =>
      match s.orgs.findIdx? (·.uid == uid) with
      | some oi => some (si, oi)
      | none => go rest (si + 1)
  go p.species 0

def jPop (p : Pop Float) : Json :=
  jObj [("species", jArr jSpecies p.species),
        -- entries of `Population.Organisms` whose species was removed from the species list (zero quota) are inert
        -- until `purgeOldGeneration`; like the harness dump, list only the organisms some species holds
        ("organisms", jArr (fun (ab : Nat × Nat) => Json.arr #[jN ab.1, jN ab.2]) (p.organisms.filterMap (posOf p))),
        ("lastSpecies", jI p.lastSpecies), ("highestFitness", jF p.highestFitness),
        ("epochsHighestLastChanged", jI p.epochsHighestLastChanged), ("reg", jReg p.reg)]

/-- the implementation's dump re-serialised through the model types (drops ownership bits etc.) -/
def normPop (j : Json) : E Json := do return jPop (← parsePop j)

def parseEpochOpts (j : Json) : E (EpochOpts Float) := do
  return { popSize := ← fldNat j "popSize", dropOffAge := ← fldInt j "dropOffAge", ageSignificance := ← fldF j "ageSignificance",
           survivalThresh := ← fldF j "survivalThresh", babiesStolen := ← fldInt j "babiesStolen",
           compatThreshold := ← fldF j "compatThreshold", compat := ← parseCompatOpts (← fld j "compat"),
           mutateOnlyProb := ← fldF j "mutateOnlyProb", mutateAddNodeProb := ← fldF j "mutateAddNodeProb",
           mutateAddLinkProb := ← fldF j "mutateAddLinkProb", mutateConnectSensors := ← fldF j "mutateConnectSensors",
           interspeciesMateRate := ← fldF j "interspeciesMateRate", mateMultipointProb := ← fldF j "mateMultipointProb",
           mateMultipointAvgProb := ← fldF j "mateMultipointAvgProb", mateSinglepointProb := ← fldF j "mateSinglepointProb",
           mateOnlyProb := ← fldF j "mateOnlyProb", mopts := ← parseMutOpts (← fld j "mut") }

/-- ownership bits / back pointers of every organism of a dumped population -/
def popHeapOk (j : Json) : Bool :=
  match fldArr j "species" with
  | .error _ => false
  | .ok sps => sps.all fun sj =>
      match fldArr sj "orgs" with
      | .error _ => false
      | .ok os => os.all fun oj =>
          (fldBool oj "speciesOk").toOption.getD false &&
          (match fld oj "genome" with | .ok gj => ownBitsOk gj | .error _ => false)

/-- a sort of this epoch has a tie among MORE THAN 12 elements (pdqsort branch of `goSort`, where the order of equal
    elements is decided by pdqsort's pivoting).  Only used to label the case class (`:tie13`) - such scenarios are
    co-simulated bit-exactly like all others since the model sorts with `goSort`. -/
def epochHasTie (o : EpochOpts Float) (p : Pop Float) : Bool × Bool :=
  match adjustAll o p.species with
  | .error _ => (false, false)
  | .ok ss =>
    (ss.any (fun s => s.orgs.length > 12 && sortHasTie (fun a b => orgLess b a) s.orgs),
     (let p1 := purgeZeroOffspringSpecies { p with species := ss }
      p1.species.length > 12 && sortHasTie (fun a b => speciesLess b a) p1.species))

/-- the genome dumps of a dumped population, species by species (the order of `species.flatMap orgs`) -/
def popGenomesJ (j : Json) : List Json :=
  match fldArr j "species" with
  | .error _ => []
  | .ok sps => sps.flatMap fun sj =>
      match fldArr sj "orgs" with
      | .error _ => []
      | .ok os => os.filterMap fun oj => (fld oj "genome").toOption

/-- all first genes of a population carry one innovation number (false for random-topology populations: K1) -/
def popSharedHead (p : Pop Float) : Bool :=
  match (p.species.flatMap (·.orgs)).map (fun x => x.genome.genes.head?.map (·.inn)) with
  | [] => true
  | h :: t => t.all (· == h)

/-- C01 on the genomes of a produced population, each against the ancestors `anc` (for `Retains`) -/
def c01Pop (op : String) (anc : List (Genome Float)) (popJ : Json) (p : Pop Float) (genesis : String) : Option (String × String) :=
  let gs := (p.species.flatMap (·.orgs)).map (·.genome)
  let js := popGenomesJ popJ
  let rec go : List (Genome Float) → List Json → Option (String × String)
    | g :: gs, gj :: js =>
      (match c01Produced op anc g gj "" with
       | some r => some r
       | none => go gs js)
    | _, _ => none
  match go gs js with
  | some r => some r
  | none => if genesis != "" then some ("Genome.Genesis fails on a genome of the new population: " ++ genesis, "wf:" ++ op ++ ":genesis:" ++ genesis) else none

def hEpoch : Handler := fun j => do
  let inp ← fld j "in"
  let out ← fld j "out"
  let popJ ← fld inp "pop"
  let p ← parsePop popJ
  let o ← parseEpochOpts (← fld inp "opts")
  let generation ← fldInt inp "generation"
  let rs ← arrNat (← fld j "rand")
  let consumed ← fldNat j "consumed"
  let landscape ← fldStr inp "landscape"
  let implErr := optStr out "err"
  let (tieOrgs, tieSpecies) := epochHasTie o p
  -- :tie13 = some species of more than 12 organisms has a sort-key tie; :tie13s = (also) the list of more than 12 species has one
  let cls := landscape ++ (if implErr.isSome then ":err" else "") ++
    (if tieSpecies then ":tie13s" else if tieOrgs then ":tie13" else "")
  let n := o.popSize
  let heapIn := popHeapOk popJ
  let inputOk := heapIn && PopSpec.popInvB p n && p.species.all (fun s => s.orgs.all (fun x => decide (WF x.genome))) &&
                 PopSpec.fitnessOk p
  -- model
  let m1 := prepareForReproduction o p rs
  match implErr with
  | some ie =>
    -- an epoch error on a valid population is a C02 violation (unless it is the known finding K1 family)
    let corr := match nextEpoch o generation p rs with
      | .error e => stopStr e == ie
      | .ok _ => false
    let c02 := !inputOk
    -- known finding K1: populations whose members do not share their first gene (random topologies)
    let k1 := !popSharedHead p && (ie == "noGenes" || ie == "genesis:noGenes" || ie == "noTraitsOrGenes")
    let esig := if k1 then k1EpochSig else "epoch:error:" ++ ie
    return { corr := corr, spec := c02, nontrivial := false, cls := cls,
             detail := if corr then "" else s!"impl epoch error {ie} (phase {(fldStr out "phase").toOption.getD "?"}) not reproduced by the model",
             props := [("C02", c02, "epoch failed on a valid population: " ++ ie, esig),
                       ("C01", c02, "epoch failed on a valid population: " ++ ie, esig)] }
  | none =>
    let afterPrepJ ← fld out "afterPrepare"
    let afterJ ← fld out "after"
    let ap ← parsePop afterPrepJ
    let a ← parsePop afterJ
    let sortedIds ← arrInt (← fld out "sortedIds")
    let bestId ← fldInt out "bestSpeciesId"
    -- twin run through the public entry point NextEpoch (harness: half of the cases); "differs..." = the three co-simulated
    -- phases are not what NextEpoch does
    let twin := (fldStr out "twin").toOption.getD "skipped"
    let (corr, detail) : Bool × String :=
      if twin.startsWith "differs" then (false, "twin run through the public NextEpoch " ++ twin) else
      match m1 with
        | .error e => (false, s!"model prepare stops: {stopStr e}")
        | .ok ((p1, ex), rs1) =>
          match jsonDiff "afterPrepare" (jPop p1) (jPop ap) with
          | some d => (false, d)
          | none =>
            if ex.sortedIds != sortedIds then (false, s!"sorted species: model {ex.sortedIds} vs impl {sortedIds}")
            else if ex.bestSpeciesId != bestId then (false, "best species id")
            else match reproducePhase o generation p1 ex rs1 with
              | .error e => (false, s!"model reproduce stops: {stopStr e}")
              | .ok (p2, rest) =>
                let p3 := finalizeReproduction p2
                match jsonDiff "after" (jPop p3) (jPop a) with
                | some d => (false, d)
                | none =>
                  let used := rs.length - rest.length
                  if used != consumed then (false, s!"randomness: model consumed {used}, impl {consumed}") else (true, "")
    -- specifications on the implementation's output
    let fresh := (fldStr out "fresh").toOption.getD "?"
    let verifyErr := optStr out "verify"
    let c02why : String :=
      if !inputOk then ""
      else if !PopSpec.popInvB a n then "population invariant broken after the epoch: " ++ PopSpec.popInvWhy a n
      else if !popHeapOk afterJ then "organism back pointer / genome ownership broken"
      else if fresh != "" then fresh
      else PopSpec.agesStepWhy p a
    let genesis := (fldStr out "genesis").toOption.getD ""
    let inputOk1 := inputOk && p.species.all (fun s => s.orgs.all (fun x => decide (C01.TraitIdsNonzero x.genome)))
    -- ancestors for `Retains`: one representative per distinct IO-node list is enough (all members share it under SameLineage)
    let anc := ((p.species.flatMap (·.orgs)).map (·.genome)).take 1
    let c01r : Option (String × String) :=
      if !inputOk1 then none
      else match c01Pop "epoch" anc afterJ a genesis with
        | some r =>
          -- K1 at epoch level: a gene-less baby survived (mate-only branch) in a population without a common first gene
          if !popSharedHead p && (a.species.flatMap (·.orgs)).any (fun x => x.genome.genes.isEmpty) then some (r.1, k1EpochSig) else some r
        | none => if verifyErr.isSome then some ("Population.Verify fails: " ++ verifyErr.getD "", "wf:epoch:verify") else none
    let c01why : String := (c01r.map (·.1)).getD ""
    let c01sig : String := (c01r.map (·.2)).getD ""
    let c09why : String := if !inputOk then "" else (let q := PopSpec.quotasWhy ap n; if q != "" then q else (let q2 := PopSpec.parentsWhy o p ap; if q2 != "" then q2 else PopSpec.expectedWhy ap))
    -- C10 does not ask for consecutive trait ids (a clause of WF that only the crossovers need): its predicate is also
    -- evaluated on populations whose genomes list their traits in another order (lineages evolved by mutation only)
    let inputOk10 := inputOk || (heapIn && PopSpec.popInvB p n && PopSpec.fitnessOk p &&
      p.species.all (fun s => s.orgs.all (fun x => wfWhy x.genome == "traits-not-consecutive" || wfWhy x.genome == "")))
    let c10why : String := if !inputOk10 then "" else (let q := PopSpec.championWhy bitEq ap a; if q != "" then q else PopSpec.fittestWhy bitEq p ap a)
    let c03why : String := if !inputOk then "" else PopSpec.innovWhy p a
    -- C08 over the epoch (Spec/Placed.lean; the model passes it: C08.placedWhy_model): every organism of the new generation is
    -- the founder of a species founded in this turnover or joined under the nearest compatible representative of `ap`
    let c08why : String := if !inputOk then "" else PopSpec.placedWhy o ap a
    let structural := a.species.any (fun s => s.orgs.any (·.mutStructBaby))
    return { corr := corr, spec := c02why == "" && c01why == "" && c09why == "" && c10why == "" && c03why == "" && c08why == "",
             nontrivial := inputOk && a.species.length ≥ 1 && (structural || ap.species.length ≥ 2), cls := cls, detail := detail,
             props := [("C02", c02why == "", c02why, "epoch:popinv"), ("C01", c01why == "", c01why, c01sig),
                       ("C09", c09why == "", c09why, "epoch:quotas"), ("C10", c10why == "", c10why, "epoch:champion"),
                       ("C03", c03why == "", c03why, "epoch:innov"), ("C08", c08why == "", c08why, "epoch:placed"),
                       ("C17", true, "", "")] }

def hSpawn : Handler := fun j => do
  let inp ← fld j "in"
  let out ← fld j "out"
  let gj ← fld inp "g"
  let g ← parseGenome gj
  let o ← parseEpochOpts (← fld inp "opts")
  let rs ← arrNat (← fld j "rand")
  let consumed ← fldNat j "consumed"
  let implErr := optStr out "err"
  let inputWF := decide (WF g) && ownBitsOk gj
  match spawn o g rs, implErr with
  | .error e, some ie => return { corr := stopStr e == ie, spec := !inputWF, cls := "err", nontrivial := false }
  | .error e, none => return { corr := false, spec := true, detail := s!"model stops {stopStr e}" }
  | .ok _, some ie => return { corr := false, spec := !inputWF, detail := s!"impl fails {ie}" }
  | .ok (p, rest), none =>
    let popJ ← fld out "pop"
    let ip ← parsePop popJ
    let d := jsonDiff "pop" (jPop p) (jPop ip)
    let used := rs.length - rest.length
    let corr := d.isNone && used == consumed
    -- C06 (spawn clause): every member has exactly the start genome's topology and flags, only weights / mutation numbers differ
    let topo (x : Genome Float) := (x.nodes, x.genes.map (fun y => (y.inn, y.src, y.dst, y.recur, y.en, y.trait)), x.traits.map (·.id))
    let members := ip.species.flatMap (·.orgs)
    let sameTopo := members.all (fun m => topo m.genome == topo g && m.genome.genes.all (fun y => bitEq y.w y.mnum))
    let shared := (fldStr out "shared").toOption.getD "?"
    let startIntact := (jsonDiff "start" gj (← fld out "startAfter")).isNone
    let c06 := !inputWF || (sameTopo && shared == "" && startIntact)
    let c02 := !inputWF || (PopSpec.popInvB ip o.popSize && popHeapOk popJ)
    let genesis := (fldStr out "genesis").toOption.getD ""
    let c01r : Option (String × String) :=
      if !(inputWF && decide (C01.TraitIdsNonzero g) && g.modules.isEmpty) then none else c01Pop "spawn" [g] popJ ip genesis
    let c01 := c01r.isNone
    -- C03 for ALL start genomes (in whatever order genes and nodes are listed; fix 48b1f99): the counters are at least every
    -- number / node id the start genome holds, and no record exists yet
    let c03 := g.genes.all (fun y => decide (y.inn ≤ ip.reg.nextInn)) && g.nodes.all (fun n => decide (n.id ≤ ip.reg.nextNode)) &&
               g.modules.all (fun m => decide (m.inn ≤ ip.reg.nextInn) && decide (m.ctrl.id ≤ ip.reg.nextNode)) &&
               ip.reg.records.isEmpty
    return { corr := corr, spec := c06 && c02 && c01 && c03, nontrivial := (inputWF && g.genes.any (fun y => !y.en)) || ((← fldStr inp "origin").endsWith "/unsorted"), cls := (← fldStr inp "origin"),
             detail := (d.getD "") ++ (if used == consumed then "" else s!" randomness {used} vs {consumed}"),
             props := [("C06", c06, "spawned member differs from the start genome in more than weights, or shares state", "spawn:topology"),
                       ("C02", c02, "spawned population violates the population invariant: " ++ PopSpec.popInvWhy ip o.popSize, "spawn:popinv"),
                       ("C01", c01, (c01r.map (·.1)).getD "", (c01r.map (·.2)).getD ""),
                       -- counters hold the LAST number in use (the next issued is counter+1): `≥` is the C03 convention (Spec/Registry.lean)
                       ("C03", c03, "counters not above the start genome", "spawn:counters")] }

def hSpeciate : Handler := fun j => do
  let inp ← fld j "in"
  let out ← fld j "out"
  let popJ ← fld inp "pop"
  let p ← parsePop popJ
  let o ← parseEpochOpts (← fld inp "opts")
  let batchJ ← fldArr inp "batch"
  let mut batch : List (Org Float) := []
  let mut uid := p.nextUid
  for bj in batchJ do
    batch := batch ++ [← parseOrg uid bj]
    uid := uid + 1
  let implErr := optStr out "err"
  let ipJ ← fld out "pop"
  let ip ← parsePop ipJ
  match speciate o { p with nextUid := uid } batch, implErr with
  | .error e, some ie => return { corr := stopStr e == ie, spec := true, cls := "err", nontrivial := false }
  | .error e, none => return { corr := false, spec := true, detail := s!"model stops {stopStr e}" }
  | .ok _, some ie => return { corr := false, spec := true, detail := s!"impl fails {ie}" }
  | .ok m, none =>
    -- compare species structure (organisms list of the population is not touched by speciate)
    let d := jsonDiff "species" (jArr jSpecies m.species) (jArr jSpecies ip.species)
    let why := PopSpec.speciateWhy o p batch ip
    return { corr := d.isNone && m.lastSpecies == ip.lastSpecies, spec := why == "", nontrivial := ip.species.length ≥ 2 && batch.length ≥ 2,
             cls := s!"species={ip.species.length}", detail := d.getD "",
             props := [("C08", why == "", why, "speciate:" ++ why)] }

/-- `quotaShift`: giveBabiesToTheBest / deltaCoding on a population with synthetic species bookkeeping -/
def hQuotaShift : Handler := fun j => do
  let inp ← fld j "in"
  let out ← fld j "out"
  let p ← parsePop (← fld inp "pop")
  let o ← parseEpochOpts (← fld inp "opts")
  let kind ← fldStr inp "kind"
  let order ← arrInt (← fld inp "order")
  let rs ← arrNat (← fld j "rand")
  let consumed ← fldNat j "consumed"
  let implErr := optStr out "err"
  let a ← parsePop (← fld out "pop")
  let sorted := order.filterMap (fun i => p.species.find? (·.id == i))
  let total (q : Pop Float) : Int := q.species.foldl (fun acc s => acc + s.expectedOffspring) 0
  let model : Except Stop (List (Species Float) × Nat) :=
    if kind == "deltaCoding" then (deltaCoding sorted o).map (fun l => (l, 0))
    else (giveBabiesToTheBest sorted o rs).map (fun r => (r.1, rs.length - r.2.length))
  match model, implErr with
  | .error e, some ie => return { corr := stopStr e == ie, spec := true, cls := kind ++ ":err", nontrivial := false }
  | .error e, none => return { corr := false, spec := true, cls := kind, detail := s!"model stops {stopStr e}" }
  | .ok _, some ie => return { corr := false, spec := true, cls := kind, detail := s!"impl fails {ie}" }
  | .ok (l, used), none =>
    let m : Pop Float := { p with species := writeBack p.species l }
    let d := jsonDiff "pop" (jPop m) (jPop a)
    let corr := d.isNone && used == consumed
    -- specification on the implementation's state
    let nonneg0 := p.species.all (fun s => s.expectedOffspring ≥ 0)
    let why : String :=
      if kind == "deltaCoding" then
        (if total a != (o.popSize : Int) then s!"delta coding: quotas total {total a}, population size {o.popSize}"
         else if a.species.any (fun s => s.expectedOffspring < 0) then "negative quota"
         else if a.species.any (fun s => match s.orgs.head? with | some t => t.superChampOffspring > s.expectedOffspring | none => false)
           then "super-champion reservation above the quota" else "")
      else
        (if total a != total p then s!"stolen babies: quotas total {total a} afterwards, {total p} before"
         else if nonneg0 && a.species.any (fun s => s.expectedOffspring < 0) then "negative quota"
         else if nonneg0 && a.species.any (fun s => match s.orgs.head? with | some t => t.superChampOffspring > s.expectedOffspring | none => false)
           then "super-champion reservation above the quota" else "")
    let moved := (a.species.zip p.species).any (fun (x, y) => x.expectedOffspring != y.expectedOffspring)
    return { corr := corr, spec := why == "", nontrivial := moved && p.species.length ≥ 2, cls := kind ++ (if moved then ":moved" else ":same"),
             detail := (d.getD "") ++ (if used == consumed then "" else s!" randomness {used} vs {consumed}"),
             props := [("C09", why == "", why, "quotaShift:" ++ kind), ("C02", why == "", why, "quotaShift:" ++ kind)] }

def populationOps : List (String × Handler) :=
  [("epoch", hEpoch), ("epochRand", hEpoch), ("spawn", hSpawn), ("speciate", hSpeciate), ("quotaShift", hQuotaShift)]

end GoNeat.Driver
