/-
  Driver handlers of the modular-network solver ops (C13 with MIMO control nodes / fast-solver modules):
  `modFlushRun`, `modSolverRun` (harness: ops_modnet.go).  Co-simulates Model/SolverMod.lean and
  Model/FastSolverMod.lean over `Float` and evaluates the C13 predicate on the implementation's outputs.
-/
import GoNeat.Driver.Solver
import GoNeat.Model.FastSolverMod
import GoNeat.Model.FloatPrims

namespace GoNeat.Driver
open Lean GoNeat.Solver GoNeat.ActExact

/-- `NodeActivators.ActivateModuleByType` on `Float`: multiplyModule (21), maxModule (22), minModule (23) of
    neat/math/activations.go; every other code is unregistered -/
def muExact (a : Nat) (xs : List Float) : Option (List Float) :=
  match a with
  | 21 => some [xs.foldl (fun ret v => ret * v) 1.0]
  | 22 => some [xs.foldl (fun m v => goMax m v) GoNeat.negInf]
  | 23 => some [xs.foldl (fun m v => goMin m v) (Float.ofBits 0x7FEFFFFFFFFFFFFF)]
  | _ => none

def parseCtrl (j : Json) : E (NNodeS Float) := do
  return { id := ← fldInt j "id", kind := ← fldNat j "kind", act := ← fldNat j "act",
           incoming := ← (← fldArr j "in").mapM parseNLink, outgoing := ← (← fldArr j "out").mapM parseNLink }

def parseMNet (j : Json) : E (Net Float) := do
  let base ← parseNet j
  return { base with ctrl := ← (← fldArr j "ctrl").mapM parseCtrl }

def jStdStepM (net : Net Float) (r : Solver.Res Float) : Json := jStdStep net r

def stdScriptM (net : Net Float) : List (Solver.Op Float) → St Float → List Json
  | [], _ => []
  | op :: ops, s =>
    let r := SolverMod.step net sigmaExact muExact s op
    jStdStep net r :: stdScriptM net ops r.1

def fastScriptM (fm : FastMod.FastModNet Float) : List (Fast.Op Float) → Fast.FState Float → List Json
  | [], _ => []
  | op :: ops, s =>
    let r := FastMod.step fm sigmaExact muExact s op
    jFastStep fm.base r :: fastScriptM fm ops r.1

def jFMod (m : FastMod.FMod) : Json := jObj [("act", jN m.act), ("ins", jArr jN m.ins), ("outs", jArr jN m.outs)]

/-- `jFastNet` with the true number of modules -/
def jFastNetM (fm : FastMod.FastModNet Float) : Json :=
  (jFastNet fm.base).setObjVal! "modules" (jN fm.modules.length)

/-! ### input classes (wirings on which the pre-repair `Flush` loops were already correct) and the module decision logic -/

/-- fast solver, input class only: nothing writes the processing cell of a bias neuron (the wiring on which the
    `Flush` loop before repair 1a387d5 was already correct) -/
def fastHyp (fm : FastMod.FastModNet Float) : Bool :=
  (fm.base.conns.all fun c => decide (fm.base.nBias ≤ c.dst)) &&
  (fm.modules.all fun m => m.outs.all fun o => decide (fm.base.nBias ≤ o))

/-- standard solver, decision logic of the LAST module on the dumped state after a successful activation call:
    if it has exactly one output neuron that is none of its inputs, that neuron holds
    `activator(GetActiveOut of the inputs)` -/
def lastModuleOkStd (net : Net Float) (st : St Float) : Bool :=
  match net.ctrl.getLast? with
  | none => true
  | some cn =>
    match cn.outgoing with
    | [l] =>
      if cn.incoming.any (fun i => i.src == l.dst) then true
      else
        match muExact cn.act (SolverMod.moduleInputs cn st) with
        | some [v] => (get st l.dst).activation.toBits == v.toBits && (get st l.dst).isActive
        | _ => true
    | _ => true

/-- fast solver: after a successful forward step the single output cell of the last module (a neuron, not among its
    inputs) holds `activator(inputs)`, inputs read from the stored signal (neurons) resp. processing cell (sensors) -/
def lastModuleOkFast (fm : FastMod.FastModNet Float) (s : Fast.FState Float) : Bool :=
  match fm.modules.getLast? with
  | none => true
  | some m =>
    match m.outs with
    | [o] =>
      if m.ins.contains o || o < fm.base.nSensor || o ≥ fm.base.nTotal then true
      else
        let ins := m.ins.map fun i => if i ≥ fm.base.nSensor then Fast.getW s.signals i else Fast.getW s.processing i
        match muExact m.act ins with
        | some [v] => (Fast.getW s.signals o).toBits == v.toBits
        | _ => true
    | _ => true

structure ModCase where
  net : Net Float
  solver : String
  build : String
  family : String
  hist : List ScriptOp
  seq : List ScriptOp
  out : Json

def parseModCase (j : Json) : E ModCase := do
  let inp ← fld j "in"
  return { net := ← parseMNet (← fld inp "net"), solver := ← fldStr inp "solver", build := ← fldStr inp "build",
           family := ← fldStr inp "family", hist := ← (← fldArr inp "history").mapM parseOp,
           seq := ← (← fldArr inp "seq").mapM parseOp, out := ← fld j "out" }

/-- model side of one case: (init dump, run of `script`, run of `seq` on a fresh state, build/count differences,
    wiring class: nothing reads a control node / writes a bias cell, decision-logic check on Go's dumped states) -/
def modModel (c : ModCase) (script : List ScriptOp) (goRun : List Json) :
    E (Option Json × List Json × List Json × Option String × Bool × Bool) := do
  let out := c.out
  let net := c.net
  if c.solver == "std" then
    let s0 : St Float := SolverMod.init net
    let initJ := jObj [("res", jB false), ("err", Json.null), ("outs", jArr jF (readOutputs net s0)), ("state", jArr jNState s0)]
    let counts := jObj [("nodes", jN (SolverMod.nodeCount net)), ("links", jN (SolverMod.linkCount net)),
                        ("complexity", jN (SolverMod.complexity net))]
    let d := jsonDiff "counts" counts ((fldOpt out "counts").getD Json.null)
    -- decision logic on the implementation's dumps
    let logic := (script.zip goRun).all fun (op, st) =>
      if (op.k == "act" || op.k == "fwd") && (fldOpt st "res") == some (jB true) && (fldOpt st "err").isNone then
        match (fldOpt st "state").bind (fun a => (a.getArr?).toOption) with
        | some arr =>
          let stt : Option (St Float) := arr.toList.mapM fun x =>
            match (do
              return ({ activation := ← fldF x "act", count := ← fldNat x "count", sum := ← fldF x "sum", last := ← fldF x "last",
                        last2 := ← fldF x "last2", isActive := ← fldBool x "active", visited := ← fldBool x "visited" } : NState Float) : E (NState Float)) with
            | .ok v => some v
            | .error _ => none
          match stt with
          | some s => lastModuleOkStd net s
          | none => false
        | none => false
      else true
    return (some initJ, stdScriptM net (← script.mapM stdOp) s0, stdScriptM net (← c.seq.mapM stdOp) s0, d,
            SolverMod.ctrlUnread net, logic)
  else
    match FastMod.ofNet net with
    | .error e =>
      return (none, [], [], jsonDiff "buildErr" (jS e.str) ((fldOpt out "buildErr").getD Json.null), true, true)
    | .ok fm =>
      let s0 := FastMod.init fm
      let initJ := jObj [("res", jB false), ("err", Json.null), ("outs", jArr jF (Fast.readOutputs fm.base s0)), ("fast", jFState s0)]
      let dNet := match fldOpt out "fastNet" with
        | none => some "fastNet: implementation failed to build, model built"
        | some g => jsonDiff "fastNet" (jFastNetM fm) g
      let dMods := jsonDiff "mods" (jArr jFMod fm.modules) ((fldOpt out "mods").getD Json.null)
      let counts := jObj [("nodes", jN (FastMod.nodeCount fm)), ("links", jN (FastMod.linkCount fm)), ("complexity", jN 0)]
      let dC := jsonDiff "counts" counts ((fldOpt out "counts").getD Json.null)
      let logic := (script.zip goRun).all fun (op, st) =>
        if op.k == "fwd" && op.n == 1 && (fldOpt st "err").isNone then
          match fldOpt st "fast" with
          | some f =>
            match (do return ((← arrF (← fld f "signals")), (← arrF (← fld f "processing"))) : E (List Float × List Float)) with
            | .ok (sg, pr) => lastModuleOkFast fm { signals := sg, processing := pr, activated := [], inAct := [], lastAct := [] }
            | .error _ => false
          | none => false
        else true
      return (some initJ, fastScriptM fm (← script.mapM fastOp) s0, fastScriptM fm (← c.seq.mapM fastOp) s0,
              dNet <|> dMods <|> dC, fastHyp fm, logic)

def nonzeroOuts (steps : List Json) : Bool :=
  steps.any fun st => match fldOpt st "outs" with
    | some (Json.arr a) => a.any (fun v => v != jN 0)
    | _ => false

/-! ### modFlushRun -/

def hModFlushRun : Handler := fun j => do
  let c ← parseModCase j
  let flushOp : ScriptOp := { k := "flush", xs := [], n := 0, delta := 0.0 }
  let script := c.hist ++ [flushOp] ++ c.seq
  let goFlushed ← fldArr c.out "flushed"
  let goFresh ← fldArr c.out "fresh"
  let (mInit, mFlushed, mFresh, buildDiff, hyp, logic) ← modModel c script goFlushed
  let initDiff := match mInit, fldOpt c.out "init" with
    | some a, some b => if b == Json.null then some "init: missing" else jsonDiff "init" a b
    | none, none => none
    | none, some b => if b == Json.null then none else some "init: present on one side only"
    | some _, none => some "init: present on one side only"
  let diff := buildDiff <|> initDiff <|> firstDiff "flushed" mFlushed goFlushed <|> firstDiff "fresh" mFresh goFresh
  -- C13 on the implementation's output
  let tail := (goFlushed.drop (c.hist.length + 1)).map obsPart
  let specDiff := if goFlushed.isEmpty && goFresh.isEmpty then none else
    (if (goFlushed.length != script.length) then some "flushed: wrong number of steps" else none) <|>
      firstDiff "step" tail (goFresh.map obsPart)
  let flushOk := match goFlushed[c.hist.length]? with
    | some f => (fldOpt f "res") == some (jB true) && (fldOpt f "err").isNone
    | none => goFlushed.isEmpty
  let spec := specDiff.isNone && flushOk && logic
  let modular := !c.net.ctrl.isEmpty
  let nontriv := modular && !c.hist.isEmpty && c.seq.any isActivation && nonzeroOuts goFresh
  let why := if !logic then "moduleLogic" else if !flushOk then "flushFailed" else match specDiff with
    | some d => (d.takeWhile (· != ':')).toString
    | none => ""
  let sig := if spec then "" else s!"modFlushRun:{c.solver}:{why}"
  return { corr := diff.isNone, spec := spec, nontrivial := nontriv,
           cls := c.solver ++ ":" ++ c.build ++ (if hyp then "" else ":exoticWiring") ++ (if modular then "" else ":plain"),
           detail := (diff.getD "") ++ (if spec then "" else " SPEC: " ++ (specDiff.getD (if logic then "flush reported failure" else "module decision logic"))),
           sig := sig }

/-! ### modSolverRun: one call sequence, correspondence + counts + module decision logic -/

def hModSolverRun : Handler := fun j => do
  let c ← parseModCase j
  let script := c.hist ++ c.seq
  let goRun ← fldArr c.out "flushed"
  let (mInit, mRun, _, buildDiff, _, logic) ← modModel c script goRun
  let initDiff := match mInit, fldOpt c.out "init" with
    | some a, some b => if b == Json.null then some "init: missing" else jsonDiff "init" a b
    | none, none => none
    | none, some b => if b == Json.null then none else some "init: present on one side only"
    | some _, none => some "init: present on one side only"
  let diff := buildDiff <|> initDiff <|> firstDiff "run" mRun goRun
  let modular := !c.net.ctrl.isEmpty
  let nontriv := modular && script.any isActivation && nonzeroOuts goRun
  return { corr := diff.isNone, spec := logic, nontrivial := nontriv,
           cls := c.solver ++ ":" ++ c.build ++ (if modular then "" else ":plain"),
           detail := (diff.getD "") ++ (if logic then "" else " SPEC: module decision logic"),
           sig := if logic then "" else s!"modSolverRun:{c.solver}:moduleLogic" }

def modNetOps : List (String × Handler) := [("modFlushRun", hModFlushRun), ("modSolverRun", hModSolverRun)]

end GoNeat.Driver
