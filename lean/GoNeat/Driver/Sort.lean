/-
  op `goSort`: the model of `sort.Sort` (Model/GoSort.lean) against the real `sort.Sort` and
  `sort.Sort(sort.Reverse(.))` on an index slice ordered by a key vector.  Compared: the complete index order (so the
  placement of equal keys, which only the algorithm determines).  The case FAILS if the checked wrapper `goSort`
  would take its insertion-sort fallback (pdq result not a sorted permutation) - that never happens for a strict
  weak order if the transliteration is right.
-/
import GoNeat.Driver.Json
import GoNeat.Model.GoSort

namespace GoNeat.Driver
open Lean

/-- ties (equal keys) present? -/
def keysHaveDup (ks : List Int) : Bool := sortHasTie (fun a b => decide (a < b)) ks

def hGoSort : Handler := fun j => do
  let inp ← fld j "in"
  let out ← fld j "out"
  let keys ← arrInt (← fld inp "keys")
  let fam ← fldStr inp "family"
  let asc ← arrNat (← fld out "asc")
  let desc ← arrNat (← fld out "desc")
  let n := keys.length
  let lessA : Int → Int → Bool := fun a b => decide (a < b)
  let lessD : Int → Int → Bool := fun a b => decide (b < a)      -- sort.Reverse: Less(i,j) = Less(j,i)
  let karr := keys.toArray
  let viaIdx (idx : List Nat) : List Int := idx.filterMap (karr[·]?)
  -- the model: index order = positions of `goSort`'s result; computed with the same functions `goSort` is made of
  let mIdx (less : Int → Int → Bool) : List Nat × Bool :=
    if n ≤ 12 then
      -- goSort = goInsertionSort here; sort (key, index) pairs by key to recover the index order (stable sort)
      (((goInsertionSort (fun (a b : Int × Nat) => less a.1 b.1) (keys.zip (List.range n))).map (·.2)), true)
    else
      (pdqIdx less keys, (goSortPdq? less keys).isSome)
  let (ma, oka) := mIdx lessA
  let (md, okd) := mIdx lessD
  -- `goSort` itself returns exactly the keys in that order
  let wrapA := goSort lessA keys == viaIdx ma
  let wrapD := goSort lessD keys == viaIdx md
  let detail :=
    if !oka || !okd then "goSort fallback taken: pdq result is not a sorted permutation"
    else if ma != asc then s!"sort.Sort order: model {ma} vs impl {asc}"
    else if md != desc then s!"sort.Sort(sort.Reverse) order: model {md} vs impl {desc}"
    else if !wrapA || !wrapD then "goSort differs from its index form"
    else ""
  -- specification on the implementation's output: a sorted permutation
  let specOk (less : Int → Int → Bool) (idx : List Nat) : Bool :=
    idx.isPerm (List.range n) && sortedByB less (viaIdx idx)
  let spec := specOk lessA asc && specOk lessD desc
  let dup := keysHaveDup keys
  let size := if n ≤ 12 then "n<=12" else if n < 50 then "13..49" else "n>=50"
  return { corr := detail == "", spec := spec, nontrivial := n > 12 && dup,
           cls := fam ++ ":" ++ size ++ (if dup then ":ties" else ""), detail := detail,
           sig := "goSort:" ++ fam }

def sortOps : List (String × Handler) := [("goSort", hGoSort)]

end GoNeat.Driver
