/-
  Driver handlers of C15 (ops of harness/cmd/gnharness/ops_io.go).

  float64 values are handled as their 64-bit patterns (`F := Nat`).  `parseFloatBits` is an exact, correctly
  rounded (round-half-even) decimal → binary64 conversion in `Nat` arithmetic; with it the explicit hypothesis
  `parseF (fmtF x) = some x` of the C15 theorems is VALIDATED on every float token Go actually wrote: the model
  parses Go's bytes and must obtain the bit patterns of the source genome.
  The model's own rendering spells a float as `#<bits>`; it is compared with Go's text token by token, a `#` token
  matching any Go token that parses to those bits ("equal modulo float spelling").
-/
import GoNeat.Driver.Json
import GoNeat.Model.Codec
import GoNeat.Model.RegistryCodec

namespace GoNeat.Driver.IO
open Lean GoNeat GoNeat.Driver GoNeat.PlainIO GoNeat.Codec

/-! ### exact decimal → binary64 -/

def digitsVal (cs : List Char) : Nat := cs.foldl (fun acc c => acc * 10 + (c.toNat - 48)) 0

/-- sign, decimal mantissa, decimal exponent of `[+-]ddd[.ddd][e[+-]ddd]` -/
def parseDecimal (cs : List Char) : Option (Bool × Nat × Int) :=
  let (neg, cs) := match cs with
    | '-' :: r => (true, r)
    | '+' :: r => (false, r)
    | r => (false, r)
  let ip := cs.takeWhile Char.isDigit
  let r1 := cs.dropWhile Char.isDigit
  let (fp, r2) := match r1 with
    | '.' :: r => (r.takeWhile Char.isDigit, r.dropWhile Char.isDigit)
    | r => ([], r)
  if ip.isEmpty && fp.isEmpty then none
  else
    let m := digitsVal (ip ++ fp)
    match r2 with
    | [] => some (neg, m, -(fp.length : Int))
    | e :: r =>
      if e == 'e' || e == 'E' then
        let (eneg, r) := match r with
          | '-' :: t => (true, t)
          | '+' :: t => (false, t)
          | t => (false, t)
        if r.isEmpty || !r.all Char.isDigit then none
        else
          let ev : Int := digitsVal r
          some (neg, m, (if eneg then -ev else ev) - (fp.length : Int))
      else none

/-- `⌊log2 (n/d)⌋` for positive `n`, `d` -/
def floorLog2Ratio (n d : Nat) : Int :=
  let e : Int := (n.log2 : Int) - (d.log2 : Int)
  -- the value lies in (2^(e-1), 2^(e+1))
  let ge : Bool := if e ≥ 0 then n ≥ d * 2 ^ e.toNat else n * 2 ^ (-e).toNat ≥ d
  if ge then e else e - 1

/-- correctly rounded binary64 bit pattern of `±m·10^e10` (`none`: overflow, which `strconv.ParseFloat` reports
    as a range error) -/
def ofDecimal (neg : Bool) (m : Nat) (e10 : Int) : Option Nat :=
  let sign : Nat := if neg then 2 ^ 63 else 0
  if m == 0 then some sign
  else
    let (n, d) := if e10 ≥ 0 then (m * 10 ^ e10.toNat, 1) else (m, 10 ^ (-e10).toNat)
    let l := floorLog2Ratio n d
    let k : Int := if l - 52 < -1074 then -1074 else l - 52
    -- q = round-half-even (n / (d·2^k))
    let (num, den) := if k ≥ 0 then (n, d * 2 ^ k.toNat) else (n * 2 ^ (-k).toNat, d)
    let q0 := num / den
    let r := num % den
    let q := if 2 * r > den then q0 + 1 else if 2 * r == den then (if q0 % 2 == 1 then q0 + 1 else q0) else q0
    let (q, k) := if q == 2 ^ 53 then (2 ^ 52, k + 1) else (q, k)
    if q < 2 ^ 52 then some (sign + q)            -- subnormal (k = -1074), or rounded up to the least normal
    else
      let be : Int := k + 52 + 1023
      if be ≥ 2047 then none
      else some (sign + be.toNat * 2 ^ 52 + (q - 2 ^ 52))

def posInfBits : Nat := 0x7FF0000000000000
def negInfBits : Nat := 0xFFF0000000000000
/-- `math.NaN()` -/
def nanBits : Nat := 0x7FF8000000000001

/-- what `Fscanf("%g")`/`strconv.ParseFloat` make of a token Go's `%g`/`%v` can print; `#<bits>` is the model's
    own spelling -/
def parseFloatBits (s : String) : Option Nat :=
  match s.toList with
  | '#' :: r => if r.isEmpty || !r.all Char.isDigit then none else some (digitsVal r)
  | cs =>
    if s == "+Inf" || s == "Inf" then some posInfBits
    else if s == "-Inf" then some negInfBits
    else if s == "NaN" then some nanBits
    else
      match parseDecimal cs with
      | none => none
      | some (neg, m, e10) => ofDecimal neg m e10

def fmtBits (x : Nat) : String := "#" ++ toString x

/-- the codec of the real library over bit patterns -/
def C : Codec Nat := regCodec fmtBits parseFloatBits

/-- the YAML layer with the sign of zero kept (notes/proposed_fix_C15.patch) -/
def Kfixed : Consts Nat := { zero := 0, one := 0x3FF0000000000000 }

/-- `yf`: negative zero comes back from yaml.v3 + cast as positive zero (the code as shipped) -/
def K : Consts Nat := { zero := 0, one := 0x3FF0000000000000, yf := fun x => if x == 2 ^ 63 then 0 else x }

/-! ### text ↔ token lines -/

def linesOf (text : String) : List Line :=
  let ls := text.splitOn "\n"
  let ls := if ls.getLast? == some "" then ls.dropLast else ls
  ls.map fun l => l.splitOn " "

/-- model token vs Go token: equal, or a `#bits` token whose bits the Go token parses to -/
def tokMatch (m g : String) : Bool :=
  if m.startsWith "#" then parseFloatBits m == parseFloatBits g && (parseFloatBits g).isSome else m == g

def linesMatch (ms gs : List Line) : Option String :=
  if ms.length != gs.length then some s!"render: {ms.length} lines vs Go {gs.length}"
  else
    (ms.zip gs).zipIdx.foldl (fun acc ((m, g), i) =>
      match acc with
      | some d => some d
      | none =>
        if m.length == g.length && (m.zip g).all (fun (a, b) => tokMatch a b) then none
        else some s!"render line {i}: model {m} vs Go {g}") none

/-! ### dumps ↔ model values over bit patterns -/

def arrBits (j : Json) : E (List Nat) := arrNat j

def pTrait (j : Json) : E (Trait Nat) := do
  return { id := ← fldInt j "id", params := ← arrBits (← fld j "params") }
def pNode (j : Json) : E Node := parseNode j
def pGene (j : Json) : E (Gene Nat) := do
  return { inn := ← fldInt j "inn", src := ← fldInt j "src", dst := ← fldInt j "dst", recur := ← fldBool j "rec",
           w := ← fldNat j "w", mnum := ← fldNat j "mut", en := ← fldBool j "en", trait := ← fldOptInt j "trait" }
def pWire (j : Json) : E (Wire Nat) := do
  return { node := ← fldInt j "node", w := ← fldNat j "w", recur := ← fldBool j "rec", trait := ← fldOptInt j "trait" }
def pModule (j : Json) : E (Module Nat) := do
  return { inn := ← fldInt j "inn", mnum := ← fldNat j "mut", en := ← fldBool j "en", ctrl := ← pNode (← fld j "ctrl"),
           ins := ← (← fldArr j "ins").mapM pWire, outs := ← (← fldArr j "outs").mapM pWire }
def pGenome (j : Json) : E (Genome Nat) := do
  return { id := ← fldInt j "id", traits := ← (← fldArr j "traits").mapM pTrait, nodes := ← (← fldArr j "nodes").mapM pNode,
           genes := ← (← fldArr j "genes").mapM pGene, modules := ← (← fldArr j "modules").mapM pModule }

def jTraitB (t : Trait Nat) : Json := jObj [("id", jI t.id), ("params", jArr jN t.params)]
def jGeneB (g : Gene Nat) : Json :=
  jObj [("inn", jI g.inn), ("src", jI g.src), ("dst", jI g.dst), ("rec", jB g.recur), ("w", jN g.w), ("mut", jN g.mnum),
        ("en", jB g.en), ("trait", jOptI g.trait)]
def jWireB (w : Wire Nat) : Json := jObj [("node", jI w.node), ("w", jN w.w), ("rec", jB w.recur), ("trait", jOptI w.trait)]
def jModuleB (m : Module Nat) : Json :=
  jObj [("inn", jI m.inn), ("mut", jN m.mnum), ("en", jB m.en), ("ctrl", jNode m.ctrl),
        ("ins", jArr jWireB m.ins), ("outs", jArr jWireB m.outs)]
def jGenomeB (g : Genome Nat) : Json :=
  jObj [("id", jI g.id), ("traits", jArr jTraitB g.traits), ("nodes", jArr jNode g.nodes),
        ("genes", jArr jGeneB g.genes), ("modules", jArr jModuleB g.modules)]

/-- a dumped genome without its ownership bits -/
def stripOwn (j : Json) : Json :=
  match j with
  | .obj kvs => Json.mkObj (kvs.toList.filter fun (k, _) => k != "own" && k != "ownWhy")
  | j => j

/-- Go's read-back genome against the source, field by field, floats by bit pattern; the read-back genome must
    own all its pointers -/
def genomeDiff (path : String) (src back : Json) : Option String :=
  match jsonDiff path (stripOwn src) (stripOwn back) with
  | some d => some d
  | none => if ownBitsOk back then none else some s!"{path}: read-back genome holds foreign pointers"

def errClass : Err → String
  | .split => "split"
  | .badInt => "scan" | .badFloat => "scan" | .badBool => "scan" | .eof => "scan" | .expectedNewline => "scan"
  | .intRange => "intRange"
  | .shortNode => "shortNode"
  | .dupTrait _ => "dupTrait"
  | .dupNode _ => "dupNode"
  | .dupControlNode _ => "dupControlNode"
  | .unknownName _ => "unknownName"
  | .unknownActType => "unknownActType"
  | .nilEndpoint => "nilEndpoint"
  | .nilBuffer => "panic"
  | .panic => "panic"
  | .noNodes => "noNodes"
  | .noGenes => "noGenes"
  | .noModuleNode _ => "noModuleNode"

/-- the field a difference path ends in, as failure signature -/
def sigOfDiff (pfx d : String) : String :=
  let path := (d.splitOn ":").headD ""
  let segs := (path.splitOn ".").map fun s => (s.splitOn "[").headD ""
  pfx ++ ":" ++ ".".intercalate (segs.filter (· != "")).tail

def isNull (j : Json) (k : String) : Bool := (fldOpt j k).isNone

def nontrivialGenome (g : Genome Nat) : Bool :=
  g.genes.any (fun x => !x.en || x.recur) || g.genes.any (·.trait.isNone) || g.nodes.any (·.trait.isNone)

/-! ### ioPlain -/

def hIoPlain : Handler := fun j => do
  let i ← fld j "in"
  let o ← fld j "out"
  let fam ← fldStr i "family"
  let mal ← fldStr i "mal"
  let text ← fldStr i "text"
  let readErr ← fldStr o "readErr"
  let gls := linesOf text
  let cls := (fam.splitOn "+").headD "" ++ (if mal == "" then "" else " mal:" ++ mal)
  match fldOpt i "src" with
  | none =>
    -- damaged text: the model reader must do what the Go reader did
    let mp := parse C gls
    let d : Option String := match mp, fldOpt o "back" with
      | .error e, none => if errClass e == readErr then none else some s!"model error {errClass e} vs Go '{readErr}'"
      | .ok g, some b => if readErr != "" then some s!"Go error '{readErr}', model reads a genome"
                         else jsonDiff "back" (stripOwn b) (jGenomeB g)
      | .error e, some _ => some s!"model error {errClass e}, Go reads a genome"
      | .ok _, none => some s!"model reads a genome, Go: '{readErr}'"
    return { corr := d.isNone, spec := true, nontrivial := false, detail := d.getD "", cls := cls }
  | some sj =>
    let src ← pGenome sj
    if !(isNull o "writeErr") then
      -- the writer refused: the model writer must refuse too; nothing was written, nothing to restore
      let ok := (write C src).toOption.isNone
      return { corr := ok, spec := true, nontrivial := false, detail := if ok then "" else "Go writer failed, model writer succeeds",
               cls := cls ++ " writerRefuses" }
    let wf := WFio C src
    -- (1) the model parses Go's bytes to the source genome (validates the float hypothesis on every token)
    let d1 : Option String := match parse C gls with
      | .error e => some s!"model cannot parse Go's text: {errClass e}"
      | .ok g => jsonDiff "modelParse(GoText) vs src" (stripOwn sj) (jGenomeB g)
    -- (2) the model's rendering equals Go's text modulo float spelling
    let d2 := linesMatch (render C src) gls
    -- (3) the executable round-trip predicate on the IMPLEMENTATION's output
    let dspec : Option String :=
      if readErr != "" then some s!"back: reader failed ({readErr}) on the writer's output"
      else match fldOpt o "back" with
        | none => some "back: no genome read back"
        | some b => genomeDiff "back" sj b
    let d3 : Option String := match parse C (render C src) with
      | .ok g => if wf then jsonDiff "model roundtrip" (stripOwn sj) (jGenomeB g) else none
      | .error e => if wf then some s!"model round trip fails on a WFio genome: {errClass e}" else none
    let corr := d1.isNone && d2.isNone && d3.isNone
    return { corr := corr, spec := dspec.isNone, nontrivial := wf && nontrivialGenome src,
             detail := (dspec.orElse fun _ => d1.orElse fun _ => d2.orElse fun _ => d3).getD "",
             sig := match dspec with | some d => sigOfDiff "plain" d | none => "",
             cls := cls ++ (if wf then "" else " notWFio") }

/-! ### ioYaml -/

/-- differences between two dumped genomes that are ONLY `-0.0` read back as `+0.0` -/
partial def onlyZeroSign (a b : Json) : Bool :=
  match a, b with
  | .obj oa, .obj ob =>
    oa.toList.all fun (k, va) => match ob.get? k with
      | some vb => onlyZeroSign va vb
      | none => false
  | .arr xa, .arr xb => xa.size == xb.size && (List.range xa.size).all fun i => onlyZeroSign xa[i]! xb[i]!
  | a, b => a == b || (a == jN (2 ^ 63) && b == jN 0)

def moduleWeightsOne (g : Genome Nat) : Bool :=
  g.modules.all fun m => (m.ins ++ m.outs).all fun w => w.w == K.one && !w.recur && w.trait.isNone

def hIoYaml : Handler := fun j => do
  let i ← fld j "in"
  let o ← fld j "out"
  let fam ← fldStr i "family"
  let outside ← fldStr i "outside"
  let sj ← fld i "src"
  let src ← pGenome sj
  let cls := (fam.splitOn "+").headD "" ++ (if src.modules.isEmpty then "" else " modular") ++
    (if outside == "" then "" else " outside:" ++ outside)
  if !(isNull o "writeErr") then
    let ok := !yamlWritable C src
    return { corr := ok, spec := true, nontrivial := false, cls := cls ++ " writerRefuses",
             detail := if ok then "" else "Go writer failed, model writer succeeds" }
  let wf := WFyaml C K src
  let mdl := decGenome C K (encGenome C src)
  let back := fldOpt o "back"
  -- the YAML layer either loses the sign of a negative zero (as shipped) or keeps it (proposed patch): the model
  -- follows whichever the code does; everything else must agree exactly
  let mdl : Except Err (Genome Nat) := match mdl, decGenome C Kfixed (encGenome C src), back with
    | .ok g, .ok g', some b =>
      if (jsonDiff "" (stripOwn b) (jGenomeB g)).isSome && (jsonDiff "" (stripOwn b) (jGenomeB g')).isNone then Except.ok g' else Except.ok g
    | m, _, _ => m
  let dcorr : Option String := match mdl, back with
    | .ok g, some b => jsonDiff "back vs model" (stripOwn b) (jGenomeB g)
    | .error e, none => if isNull o "readErr" then some s!"model error {errClass e}, Go no error" else none
    | .ok _, none => some "model decodes, Go failed"
    | .error e, some _ => some s!"model error {errClass e}, Go decodes"
  let dwf : Option String := match decGenome C K (encGenome C src) with
    | .ok g => if wf then jsonDiff "model roundtrip" (stripOwn sj) (jGenomeB g) else none
    | .error e => if wf then some s!"model round trip fails on a WFyaml genome: {errClass e}" else none
  let corr := dcorr.isNone && dwf.isNone
  if outside != "" then
    -- module link weight set by hand (not reachable by evolution): record what the code does, the observation of DESIGN §3
    let obs := match back with
      | some b => match pGenome b with
        | .ok g => moduleWeightsOne g && (jsonDiff "" (stripOwn sj) (stripOwn b)).isSome
        | .error _ => false
      | none => false
    return { corr := corr, spec := true, nontrivial := false, cls := cls ++ (if obs then " readAs1.0" else " ?"),
             detail := dcorr.getD "" }
  let dspec : Option String := match back with
    | none => some "back: YAML reader failed on the writer's output"
    | some b => genomeDiff "back" sj b
  let sig := match dspec, back with
    | some d, some b => if onlyZeroSign (stripOwn sj) (stripOwn b) && ownBitsOk b then "yaml:negativeZeroReadAsPositiveZero" else sigOfDiff "yaml" d
    | some d, none => sigOfDiff "yaml" d
    | none, _ => ""
  return { corr := corr, spec := dspec.isNone, nontrivial := wf && (nontrivialGenome src || !src.modules.isEmpty),
           detail := (dspec.orElse fun _ => dcorr.orElse fun _ => dwf).getD "", sig := sig,
           cls := cls ++ (if wf then "" else " notWFyaml") ++ (if moduleWeightsOne src then "" else " moduleWeight≠1") }

/-! ### ioOrganism -/

def pOrgBin (j : Json) : E (OrgBin Nat) := do
  return { fitness := ← fldNat j "fitness", generation := ← fldInt j "generation", highestFitness := ← fldNat j "highestFitness",
           champChild := ← fldBool j "champChild", genotype := ← pGenome (← fld j "genome") }

def jOrgBin (o : OrgBin Nat) : Json :=
  jObj [("fitness", jN o.fitness), ("generation", jI o.generation), ("highestFitness", jN o.highestFitness),
        ("champChild", jB o.champChild), ("genome", jGenomeB o.genotype)]

def stripOwnIn (k : String) (j : Json) : Json :=
  match j with
  | .obj kvs => Json.mkObj (kvs.toList.map fun (k', v) => if k' == k then (k', stripOwn v) else (k', v))
  | j => j

def hIoOrganism : Handler := fun j => do
  let i ← fld j "in"
  let o ← fld j "out"
  let fam ← fldStr i "family"
  let sj ← fld i "src"
  let src ← pOrgBin sj
  let text ← fldStr i "text"
  let readErr ← fldStr o "readErr"
  let cls := (fam.splitOn "+").headD ""
  if !(isNull o "writeErr") then
    let ok := (write C src.genotype).toOption.isNone
    return { corr := ok, spec := true, nontrivial := false, cls := cls ++ " writerRefuses" }
  let gls := linesOf text
  let wf := WFio C src.genotype
  let d1 : Option String := match unmarshal C gls with
    | .error e => some s!"model cannot unmarshal Go's bytes: {errClass e}"
    | .ok r => jsonDiff "modelUnmarshal(GoBytes) vs src" (stripOwnIn "genome" sj) (jOrgBin r)
  let d2 := linesMatch (marshal C src) gls
  let dspec : Option String :=
    if readErr != "" then some s!"back: UnmarshalBinary failed ({readErr})"
    else match fldOpt o "back" with
      | none => some "back: nothing restored"
      | some b =>
        match jsonDiff "back" (stripOwnIn "genome" sj) (stripOwnIn "genome" b) with
        | some d => some d
        | none => if ((fld b "genome").map ownBitsOk).toOption.getD false then none else some "back.genome: foreign pointers"
  return { corr := d1.isNone && d2.isNone, spec := dspec.isNone, nontrivial := wf && nontrivialGenome src.genotype,
           detail := (dspec.orElse fun _ => d1.orElse fun _ => d2).getD "",
           sig := match dspec with | some d => sigOfDiff "organism" d | none => "",
           cls := cls ++ (if wf then "" else " notWFio") }

/-! ### ioPopulation -/

def isComment (l : Line) : Bool := l.head? == some "/*"

def hIoPopulation : Handler := fun j => do
  let i ← fld j "in"
  let o ← fld j "out"
  let fam ← fldStr i "family"
  let bySpecies ← fldBool i "bySpecies"
  let gjs ← fldArr i "genomes"
  let srcs ← gjs.mapM pGenome
  let text ← fldStr i "text"
  let readErr ← fldStr o "readErr"
  let cls := (if bySpecies then "bySpecies " else "flat ") ++ s!"n={srcs.length}"
  if !(isNull o "writeErr") then
    let ok := srcs.any fun g => (write C g).toOption.isNone
    return { corr := ok, spec := true, nontrivial := false, cls := cls ++ " writerRefuses" }
  let gls := linesOf text
  let wf := srcs.all fun g => WFio C g && !g.nodes.isEmpty && !g.genes.isEmpty
  let backs := match fldOpt o "back" with
    | some (.arr a) => some a.toList
    | _ => none
  -- (1) the model reader (= the repaired ReadPopulation) on Go's bytes gives the source genomes
  let mdl := parsePop C gls
  let d1 : Option String := match mdl with
    | .error e => some s!"model cannot read Go's population text: {errClass e}"
    | .ok gs => jsonDiff "modelReadPopulation(GoText) vs src" (Json.arr (gjs.map stripOwn).toArray) (jArr jGenomeB gs)
  -- (2) Go's result against the model's
  let d2 : Option String := match mdl, backs with
    | .ok gs, some bs => jsonDiff "back vs model" (Json.arr (bs.map stripOwn).toArray) (jArr jGenomeB gs)
    | .error e, none => if errClass e == readErr then none else some s!"model error {errClass e} vs Go '{readErr}'"
    | .ok _, none => some s!"model reads the population, Go: '{readErr}'"
    | .error e, some _ => some s!"model error {errClass e}, Go reads"
  -- (3) the model's rendering against Go's text (comment lines of WriteBySpecies aside)
  let d3 := linesMatch (renderPop C srcs) (gls.filter fun l => !isComment l)
  let dspec : Option String :=
    if readErr != "" then some s!"back: ReadPopulation failed ({readErr}) on the written population"
    else match backs with
      | none => some "back: nothing read"
      | some bs =>
        if bs.length != gjs.length then some s!"back: {bs.length} genomes for {gjs.length} written"
        else (gjs.zip bs).zipIdx.foldl (fun acc ((s, b), k) => acc.orElse fun _ => genomeDiff s!"back[{k}]" s b) none
  -- how the shipped reader (Legacy) would have read it: names the signature of that defect
  let legacy : Bool := match Legacy.parsePop C gls, backs with
    | .ok gs, some bs => (jsonDiff "" (Json.arr (bs.map stripOwn).toArray) (jArr jGenomeB gs)).isNone
    | _, _ => false
  let sig := match dspec with
    | none => ""
    | some d => if legacy then "ReadPopulation:firstLineAfterGenomestartDropped" else sigOfDiff "population" d
  return { corr := d1.isNone && d2.isNone && d3.isNone, spec := dspec.isNone, nontrivial := wf && srcs.length ≥ 2,
           detail := (dspec.orElse fun _ => d1.orElse fun _ => d2.orElse fun _ => d3).getD "", sig := sig,
           cls := cls ++ (if wf then "" else " notWF") ++ " " ++ fam.take 0 }

/-! ### ioSolver -/

def pFastModel (j : Json) : E (FastModel Nat) := do
  let conns ← (← fldArr j "conns").mapM fun c => do
    return ({ src := ← fldInt c "src", tgt := ← fldInt c "tgt", weight := ← fldNat c "weight", signal := ← fldNat c "signal" } : LinkIO Nat)
  let mods ← (← fldArr j "modules").mapM fun m => do
    return ({ act := ← fldNat m "act", ins := ← arrInt (← fld m "ins"), outs := ← arrInt (← fld m "outs") } : ModIO)
  return { id := ← fldInt j "id", name := ← fldStr j "name", nInput := ← fldInt j "nInput", nSensor := ← fldInt j "nSensor",
           nOutput := ← fldInt j "nOutput", nBias := ← fldInt j "nBias", nTotal := ← fldInt j "nTotal",
           acts := ← arrNat (← fld j "acts"), biasList := ← arrNat (← fld j "biasList"), conns := conns, modules := mods }

def jFastModel (m : FastModel Nat) : Json :=
  jObj [("id", jI m.id), ("name", jS m.name), ("nInput", jI m.nInput), ("nSensor", jI m.nSensor), ("nOutput", jI m.nOutput),
        ("nBias", jI m.nBias), ("nTotal", jI m.nTotal), ("acts", jArr jN m.acts), ("biasList", jArr jN m.biasList),
        ("conns", jArr (fun (c : LinkIO Nat) => jObj [("src", jI c.src), ("tgt", jI c.tgt), ("weight", jN c.weight), ("signal", jN c.signal)]) m.conns),
        ("modules", jArr (fun (md : ModIO) => jObj [("act", jN md.act), ("ins", jArr jI md.ins), ("outs", jArr jI md.outs)]) m.modules)]

def dropKey (k : String) (j : Json) : Json :=
  match j with
  | .obj kvs => Json.mkObj (kvs.toList.filter fun (k', _) => k' != k)
  | j => j

/-- exponent field not all ones -/
def finiteBits (x : Nat) : Bool := (x / 2 ^ 52) % 2048 != 2047

def hIoSolver : Handler := fun j => do
  let i ← fld j "in"
  let o ← fld j "out"
  let fam ← fldStr i "family"
  let sj ← fld i "src"
  let src ← pFastModel sj
  let cls := (fam.splitOn ":").headD "" ++ (if src.modules.isEmpty then "" else " modular") ++
    (if (fam.splitOn "+").contains "floats" then " floats" else "")
  if !(isNull o "writeErr") then
    let ok := !modelWritable C finiteBits src
    return { corr := ok, spec := true, nontrivial := false, cls := cls ++ " writerRefuses",
             detail := if ok then "" else "Go WriteModel failed, model writer succeeds" }
  let wf := WFmodel C src
  let back := fldOpt o "back"
  let mdl := decModel C (encModel C src)
  let dcorr : Option String := match mdl, back with
    | .ok m, some b => jsonDiff "back vs model" (dropKey "signals" b) (jFastModel m)
    | .error e, none => if isNull o "readErr" then some s!"model error {errClass e}, Go none" else none
    | .ok _, none => some "model decodes, Go failed"
    | .error e, some _ => some s!"model error {errClass e}, Go decodes"
  let runs ← fldArr o "runs"
  let drun : Option String := runs.zipIdx.foldl (fun acc (r, k) => acc.orElse fun _ =>
    match fld r "srcOut", fld r "bakOut", fld r "srcErr", fld r "bakErr" with
    | .ok a, .ok b, .ok ea, .ok eb =>
      if a == b && ea == eb then none else some s!"runs[{k}]: outputs {a.compress} (err {ea.compress}) vs restored {b.compress} (err {eb.compress})"
    | _, _, _, _ => some s!"runs[{k}]: malformed") none
  let dspec : Option String := match back with
    | none => some "back: ReadFMNSModel failed on the written model"
    | some b => (jsonDiff "back" sj b).orElse fun _ => drun
  return { corr := dcorr.isNone, spec := dspec.isNone, nontrivial := wf && src.conns.length ≥ 2 && runs.length ≥ 1,
           detail := (dspec.orElse fun _ => dcorr).getD "",
           sig := match dspec with | some d => sigOfDiff "solver" d | none => "",
           cls := cls ++ (if wf then "" else " notWFmodel") }

/-! ### ioExperiment -/

def pOrg (j : Json) : E (Org Nat) := do
  let g ← match fldOpt j "genotype" with
    | none => pure none
    | some gj => do pure (some (← pGenome gj))
  return { fitness := ← fldNat j "fitness", isWinner := ← fldBool j "isWinner", generation := ← fldInt j "generation",
           expectedOffspring := ← fldNat j "expectedOffspring", error := ← fldNat j "error", genotype := g }

def pGeneration (j : Json) : E (Codec.Generation Nat) := do
  let c ← match fldOpt j "champion" with
    | none => pure none
    | some cj => do pure (some (← pOrg cj))
  return { id := ← fldInt j "id", executed := ← fldInt j "executed", solved := ← fldBool j "solved",
           fitness := ← arrNat (← fld j "fitness"), age := ← arrNat (← fld j "age"), complexity := ← arrNat (← fld j "complexity"),
           diversity := ← fldInt j "diversity", winnerEvals := ← fldInt j "winnerEvals", winnerNodes := ← fldInt j "winnerNodes",
           winnerGenes := ← fldInt j "winnerGenes", duration := ← fldInt j "duration", trialId := ← fldInt j "trialId", champion := c }

def pExperiment (j : Json) : E (Codec.Experiment Nat) := do
  let ts ← (← fldArr j "trials").mapM fun t => do
    return ({ id := ← fldInt t "id", gens := ← (← fldArr t "gens").mapM pGeneration } : Codec.Trial Nat)
  return { id := ← fldInt j "id", name := ← fldStr j "name", trials := ts }

def jOrg (o : Org Nat) : Json :=
  jObj [("fitness", jN o.fitness), ("isWinner", jB o.isWinner), ("generation", jI o.generation),
        ("expectedOffspring", jN o.expectedOffspring), ("error", jN o.error),
        ("genotype", match o.genotype with | none => Json.null | some g => jGenomeB g)]

def jGeneration (g : Codec.Generation Nat) : Json :=
  jObj [("id", jI g.id), ("executed", jI g.executed), ("solved", jB g.solved), ("fitness", jArr jN g.fitness), ("age", jArr jN g.age),
        ("complexity", jArr jN g.complexity), ("diversity", jI g.diversity), ("winnerEvals", jI g.winnerEvals),
        ("winnerNodes", jI g.winnerNodes), ("winnerGenes", jI g.winnerGenes), ("duration", jI g.duration), ("trialId", jI g.trialId),
        ("champion", match g.champion with | none => Json.null | some o => jOrg o)]

def jExperiment (e : Codec.Experiment Nat) : Json :=
  jObj [("id", jI e.id), ("name", jS e.name),
        ("trials", jArr (fun (t : Codec.Trial Nat) => jObj [("id", jI t.id), ("gens", jArr jGeneration t.gens)]) e.trials)]

/-- drop the ownership bits of every champion genome of a dumped experiment -/
partial def stripOwnDeep (j : Json) : Json :=
  match j with
  | .obj kvs => Json.mkObj ((kvs.toList.filter fun (k, _) => k != "own" && k != "ownWhy").map fun (k, v) => (k, stripOwnDeep v))
  | .arr a => Json.arr (a.map stripOwnDeep)
  | j => j

partial def allOwn (j : Json) : Bool :=
  match j with
  | .obj kvs => kvs.toList.all fun (k, v) => if k == "own" then v == Json.bool true else allOwn v
  | .arr a => a.all allOwn
  | _ => true

def hIoExperiment : Handler := fun j => do
  let i ← fld j "in"
  let o ← fld j "out"
  let fam ← fldStr i "family"
  let outside ← fldStr i "outside"
  let sj ← fld i "src"
  let src ← pExperiment sj
  let nGen := (src.trials.map (·.gens.length)).foldl (· + ·) 0
  let cls := fam ++ (if outside == "" then "" else " outside:" ++ outside) ++
    (if src.trials.isEmpty then " noTrials" else if nGen == 0 then " noGenerations" else "")
  if !(isNull o "writeErr") then
    return { corr := false, spec := outside != "", nontrivial := false, cls := cls ++ " writeFailed",
             detail := "Experiment.Write failed", sig := "experiment:writeFailed" }
  let wf := WFexp C src && src.trials.all fun t => t.gens.all fun g =>
    match g.champion with
    | some { genotype := some gn, .. } => WFio C gn
    | _ => false
  let mdl := decExp C (encExp C src)
  let back := fldOpt o "back"
  let dcorr : Option String := match mdl, back with
    | .ok (e, rest), some b =>
      if !rest.isEmpty then some "model leaves values in the stream" else jsonDiff "back vs model" (stripOwnDeep b) (jExperiment e)
    | .error _, none => if isNull o "readErr" then some "model error, Go none" else none
    | .ok _, none => some "model decodes, Go failed"
    | .error e, some _ => some s!"model error {errClass e}, Go decodes"
  if outside != "" then
    -- a generation without champion / a champion without genotype: not a record `Execute` produces; the known limit
    let obs := if back.isNone then " readFails" else " readsSomething"
    return { corr := dcorr.isNone, spec := true, nontrivial := false, cls := cls ++ obs, detail := dcorr.getD "" }
  let dstat : Option String :=
    match fld o "srcStats", fld o "backStats", fldStr o "statPanic" with
    | .ok a, .ok b, .ok p => if p != "" then some s!"stats: panic {p}" else jsonDiff "stats" a b
    | _, _, _ => some "stats: missing"
  let dspec : Option String := match back with
    | none => some "back: Experiment.Read failed on the written record"
    | some b => ((jsonDiff "back" (stripOwnDeep sj) (stripOwnDeep b)).orElse fun _ =>
        if allOwn b then none else some "back: a restored champion genome holds foreign pointers").orElse fun _ => dstat
  let dwf : Option String := match mdl with
    | .ok (e, _) => if wf then jsonDiff "model roundtrip" (stripOwnDeep sj) (jExperiment e) else none
    | .error e => if wf then some s!"model round trip fails on a WFexp record: {errClass e}" else none
  return { corr := dcorr.isNone && dwf.isNone, spec := dspec.isNone, nontrivial := wf && nGen ≥ 1,
           detail := (dspec.orElse fun _ => dcorr.orElse fun _ => dwf).getD "",
           sig := match dspec with | some d => sigOfDiff "experiment" d | none => "",
           cls := cls ++ (if wf then "" else " notWFexp") ++
             (if (fldNat o "staleSrcPhenotypes").toOption.getD 0 > 0 then " staleSrcPhenotype(obs)" else "") }

end GoNeat.Driver.IO

namespace GoNeat.Driver
def ioOps : List (String × Handler) :=
  [("ioPlain", IO.hIoPlain), ("ioYaml", IO.hIoYaml), ("ioOrganism", IO.hIoOrganism), ("ioPopulation", IO.hIoPopulation),
   ("ioSolver", IO.hIoSolver), ("ioExperiment", IO.hIoExperiment)]
end GoNeat.Driver
