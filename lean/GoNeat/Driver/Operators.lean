/-
  Driver handlers for the genetic operators: the ten mutators and the three crossovers.
  One op serves several properties (C01 well-formedness, C03 innovation bookkeeping, C04 crossover rules,
  C05 mutation relations); each gets its own entry in `Verdict.props`.
-/
import GoNeat.Driver.Json
import GoNeat.Driver.WFCheck
import GoNeat.Model.Mutate
import GoNeat.Model.Mate
import GoNeat.Spec.WF
import GoNeat.Spec.Crossover
import GoNeat.Spec.Mutation

namespace GoNeat.Driver
open Lean

def bitEq (a b : Float) : Bool := a.toBits == b.toBits

def parseInnov (j : Json) : E (Innov Float) := do
  return { typ := ← fldNat j "typ", inId := ← fldInt j "inId", outId := ← fldInt j "outId", inn := ← fldInt j "inn",
           inn2 := ← fldInt j "inn2", w := ← fldF j "w", traitNum := ← fldInt j "traitNum", newNode := ← fldInt j "newNode",
           oldInn := ← fldInt j "oldInn", recur := ← fldBool j "rec" }

def parseReg (j : Json) : E (Reg Float) := do
  return { records := ← (← fldArr j "records").mapM parseInnov, nextInn := ← fldInt j "nextInn", nextNode := ← fldInt j "nextNode" }

def jInnov (i : Innov Float) : Json :=
  jObj [("typ", jN i.typ), ("inId", jI i.inId), ("outId", jI i.outId), ("inn", jI i.inn), ("inn2", jI i.inn2), ("w", jF i.w),
        ("traitNum", jI i.traitNum), ("newNode", jI i.newNode), ("oldInn", jI i.oldInn), ("rec", jB i.recur)]

def jReg (r : Reg Float) : Json :=
  jObj [("records", jArr jInnov r.records), ("nextInn", jI r.nextInn), ("nextNode", jI r.nextNode)]

def parseMutOpts (j : Json) : E (MutOpts Float) := do
  return { recurOnlyProb := ← fldF j "recurOnlyProb", newLinkTries := ← fldNat j "newLinkTries",
           activators := ← arrNat (← fld j "activators"), activatorProbs := ← arrF (← fld j "activatorProbs"),
           traitMutationPower := ← fldF j "traitMutationPower", traitParamMutProb := ← fldF j "traitParamMutProb",
           weightMutPower := ← fldF j "weightMutPower", mutateRandomTraitProb := ← fldF j "mutateRandomTraitProb",
           mutateLinkTraitProb := ← fldF j "mutateLinkTraitProb", mutateNodeTraitProb := ← fldF j "mutateNodeTraitProb",
           mutateLinkWeightsProb := ← fldF j "mutateLinkWeightsProb", mutateToggleEnableProb := ← fldF j "mutateToggleEnableProb",
           mutateGeneReenableProb := ← fldF j "mutateGeneReenableProb" }

def optStr (j : Json) (k : String) : Option String :=
  match fldOpt j k with
  | some (.str s) => some s
  | _ => none

/-- C01 on an operator result: well-formed input ⇒ well-formed output that retains all sensors and outputs,
    all pointers owned -/
def c01Result (inputsWF : Bool) (parents : List (Genome Float)) (child : Genome Float) (childJ : Json) : Bool × String :=
  if !inputsWF then (true, "")
  else if !decide (WF child) then (false, "result not well-formed: " ++ wfWhy child)
  else if !ownBitsOk childJ then (false, "result holds foreign pointers: " ++ ((fldStr childJ "ownWhy").toOption.getD ""))
  else if !parents.all (fun p => decide (Retains p child)) then (false, "sensor/output node of an ancestor lost")
  else (true, "")

/-- C03 on a structural mutation: numbers carried by new genes / the new node are fresh (above the counters before
    the mutation) or are exactly those of a matching innovation record; records are only appended, counters only grow -/
def c03Result (g g' : Genome Float) (r r' : Reg Float) : Bool × String :=
  let oldInns := g.genes.map (·.inn)
  let newGenes := g'.genes.filter (fun x => !oldInns.contains x.inn)
  let newNodes := g'.nodes.filter (fun n => !g.nodes.any (·.id == n.id))
  let recOk (x : Gene Float) : Bool :=
    r.records.any (fun i =>
      (i.typ == 2 && i.inn == x.inn && i.inId == x.src && i.outId == x.dst && i.recur == x.recur) ||
      (i.typ == 1 && i.inn == x.inn && i.inId == x.src && i.newNode == x.dst) ||
      (i.typ == 1 && i.inn2 == x.inn && i.newNode == x.src && i.outId == x.dst))
  let freshGene (x : Gene Float) : Bool := decide (x.inn > r.nextInn) && decide (x.inn ≤ r'.nextInn)
  let nodeOk (n : Node) : Bool :=
    (decide (n.id > r.nextNode) && decide (n.id ≤ r'.nextNode)) || r.records.any (fun i => i.typ == 1 && i.newNode == n.id)
  if !newGenes.all (fun x => freshGene x || recOk x) then (false, "new gene carries a number that is neither fresh nor recorded for this link")
  else if !newNodes.all nodeOk then (false, "new node id neither fresh nor recorded")
  else if !(decide (r'.nextInn ≥ r.nextInn) && decide (r'.nextNode ≥ r.nextNode)) then (false, "counter went backwards")
  else if (jArr jInnov (r'.records.take r.records.length)) != (jArr jInnov r.records) then (false, "innovation records rewritten")
  else if !(r'.records.drop r.records.length).all (fun i => decide (i.inn > r.nextInn)) then (false, "stored record with a stale number")
  else (true, "")

def mutationHandler (name : String) : Handler := fun j => do
  let inp ← fld j "in"
  let out ← fld j "out"
  let gj ← fld inp "g"
  let g ← parseGenome gj
  let reg ← parseReg (← fld inp "reg")
  let o ← parseMutOpts (← fld inp "opts")
  let times ← fldNat inp "times"
  let power ← fldF inp "power"
  let rate ← fldF inp "rate"
  let cold ← fldBool inp "cold"
  let rs ← arrNat (← fld j "rand")
  let consumed ← fldNat j "consumed"
  let family ← fldStr inp "family"
  let regMode ← fldStr inp "regMode"
  -- model
  let lift (r : R (Genome Float)) : R (Genome Float × Reg Float × Bool) :=
    match r with | .error e => .error e | .ok (g', rs') => .ok ((g', reg, true), rs')
  let mres : R (Genome Float × Reg Float × Bool) :=
    match name with
    | "mutAddNode" => mutateAddNode g reg o rs
    | "mutAddLink" => mutateAddLink g reg o rs
    | "mutConnectSensors" => mutateConnectSensors g reg rs
    | "mutLinkWeights" => lift (mutateLinkWeights g power rate (if cold then .coldGaussian else .gaussian) rs)
    | "mutRandomTrait" => lift (mutateRandomTrait g o rs)
    | "mutLinkTrait" => lift (mutateLinkTrait g times rs)
    | "mutNodeTrait" => lift (mutateNodeTrait g times rs)
    | "mutToggleEnable" => lift (mutateToggleEnable g times rs)
    | "mutGeneReEnable" => (match mutateGeneReEnable g with | .error e => .error e | .ok g' => .ok ((g', reg, true), rs))
    | "mutAllNonstructural" =>
      (match mutateAllNonstructural g o rs with
       | .error e => .error e
       | .ok (g', rs') => .ok ((g', reg, true), rs'))
    | _ => .error (.error "unknown mutation")
  let implErr := optStr out "err"
  let implGJ ← fld out "g"
  let implG ← parseGenome implGJ
  let implReg ← parseReg (← fld out "reg")
  let implRes ← fldBool out "res"
  let cls := name ++ ":" ++ regMode ++ (if implErr.isSome then ":err" else if implRes then ":true" else ":false")
  -- correspondence
  let (corr, detail) : Bool × String :=
    match mres, implErr with
    | .error e, some ie => (stopStr e == ie, if stopStr e == ie then "" else s!"error class: model {stopStr e} vs impl {ie}")
    | .error e, none => (false, s!"model stops ({stopStr e}) but impl succeeds")
    | .ok _, some ie => (false, s!"impl fails ({ie}) but model succeeds")
    | .ok ((g', reg', res'), rest), none =>
      let used := rs.length - rest.length
      -- `mutAllNonstructural` returns the result of the last stage that ran; the model reports `true`: compare only for the others
      let resOk := name == "mutAllNonstructural" || res' == implRes
      match jsonDiff "g" (jGenome g') (jGenome implG) with
      | some d => (false, d)
      | none =>
        match jsonDiff "reg" (jReg reg') (jReg implReg) with
        | some d => (false, d)
        | none =>
          if !resOk then (false, s!"result flag: model {res'} vs impl {implRes}")
          else if used != consumed then (false, s!"randomness: model consumed {used} raw values, impl {consumed}")
          else (true, "")
  -- specification on the implementation's output
  let weq := bitEq
  let inputWF := decide (WF g) && ownBitsOk gj
  let c05 : Option String :=
    if implErr.isSome || !inputWF then none
    else match name with
      | "mutAddNode" => if implRes then MutationSpec.addNodeRel weq g implG else MutationSpec.addNodeFalseRel weq g implG
      | "mutAddLink" => if implRes then MutationSpec.addLinkRel weq g implG else MutationSpec.unchangedRel weq g implG
      | "mutConnectSensors" => (MutationSpec.connectSensorsRel weq g implG implRes).orElse
                                 (fun _ => if implRes then none else MutationSpec.unchangedRel weq g implG)
      | "mutToggleEnable" => (MutationSpec.paramOnlyRel g implG).orElse (fun _ => MutationSpec.toggleRel g implG)
      | "mutGeneReEnable" => (MutationSpec.paramOnlyRel g implG).orElse (fun _ => MutationSpec.reenableRel weq g implG)
      | _ => MutationSpec.paramOnlyRel g implG
  -- "changing nothing else" includes the genome's own bookkeeping: every pointer still owned, looking a node up by id
  -- still returns it (the input's bits were fine: `inputWF`)
  let c05 : Option String := c05.orElse fun _ =>
    if implErr.isSome || !inputWF || ownBitsOk implGJ then none else some "bookkeeping-not-maintained"
  let inputWF1 := inputWF && decide (C01.TraitIdsNonzero g) && g.modules.isEmpty
  let genesis := (fldStr out "genesis").toOption.getD ""
  let c01 : Bool × String × String :=
    if !inputWF1 then (true, "", "")
    -- a well-formed input must not make a mutator fail
    else if implErr.isSome then (false, "mutator failed on a well-formed genome: " ++ implErr.getD "", "wf:" ++ name ++ ":error:" ++ implErr.getD "")
    else match c01Produced name [g] implG implGJ genesis with
      | none => (true, "", "")
      | some (why, sg) => (false, why, sg)
  let c03 := if implErr.isSome || !inputWF then (true, "") else c03Result g implG reg implReg
  let changed := (jsonDiff "g" gj implGJ).isSome
  return { corr := corr, spec := c05.isNone && c01.1 && c03.1, nontrivial := inputWF && changed, cls := cls ++ ":" ++ family,
           detail := detail,
           props := [("C05", c05.isNone, c05.getD "", "mutation:" ++ name ++ ":" ++ c05.getD ""),
                     ("C01", c01.1, c01.2.1, c01.2.2),
                     ("C03", c03.1, c03.2, "innov:" ++ name)] }

def mateName : CrossoverSpec.Method → String
  | .multipoint => "mateMultipoint"
  | .multipointAvg => "mateMultipointAvg"
  | .singlePoint => "mateSinglePoint"

def mateHandler (m : CrossoverSpec.Method) : Handler := fun j => do
  let inp ← fld j "in"
  let out ← fld j "out"
  let p1j ← fld inp "p1"
  let p2j ← fld inp "p2"
  let p1 ← parseGenome p1j
  let p2 ← parseGenome p2j
  let f1 ← fldF inp "f1"
  let f2 ← fldF inp "f2"
  let childId ← fldInt inp "childId"
  let rs ← arrNat (← fld j "rand")
  let consumed ← fldNat j "consumed"
  let family ← fldStr inp "family"
  let mres : R (Genome Float) :=
    match m with
    | .multipoint => mateMultipoint p1 p2 childId f1 f2 rs
    | .multipointAvg => mateMultipointAvg p1 p2 childId f1 f2 rs
    | .singlePoint => mateSinglePoint p1 p2 childId rs
  let implErr := optStr out "err"
  let parentsIntact := (jsonDiff "p1" p1j (← fld out "p1After")).isNone && (jsonDiff "p2" p2j (← fld out "p2After")).isNone
  let inputWF := decide (WF p1) && decide (WF p2) && ownBitsOk p1j && ownBitsOk p2j && decide (SameLineage p1 p2)
  match fldOpt out "child" with
  | none =>
    let (corr, detail) : Bool × String :=
      match mres, implErr with
      | .error e, some ie => (stopStr e == ie, if stopStr e == ie then "" else s!"error class: model {stopStr e} vs impl {ie}")
      | .error e, none => (false, s!"model stops ({stopStr e}) but impl returns no child and no error")
      | .ok _, ie => (false, s!"impl fails ({ie.getD "?"}) but model succeeds")
    -- equal trait counts and well-formed parents must not fail
    let sameTraits := p1.traits.length == p2.traits.length
    let c01ok := !(inputWF && sameTraits)
    return { corr := corr, spec := parentsIntact && c01ok, nontrivial := false, cls := family ++ ":err", detail := detail,
             props := [("C04", parentsIntact, "parents modified", "mate:parents-modified"),
                       ("C01", c01ok, "crossover failed on well-formed parents: " ++ implErr.getD "", "wf:" ++ mateName m ++ ":error:" ++ implErr.getD "")] }
  | some cj =>
    let c ← parseGenome cj
    let (corr, detail) : Bool × String :=
      match mres with
      | .error e => (false, s!"model stops ({stopStr e}) but impl succeeds")
      | .ok (c', rest) =>
        let used := rs.length - rest.length
        match jsonDiff "child" (jGenome c') (jGenome c) with
        | some d => (false, d)
        | none => if used != consumed then (false, s!"randomness: model consumed {used} raw values, impl {consumed}") else (true, "")
    let sameLineage := true
    let shared := (fldStr out "sharedP1").toOption.getD "" ++ (fldStr out "sharedP2").toOption.getD ""
    let c04 : Option String :=
      if !inputWF then none
      else if !parentsIntact then some "parents-modified"
      else if shared != "" then some ("child-shares-state-with-parent:" ++ shared)
      else match CrossoverSpec.check bitEq m p1 p2 c f1 f2 with
        | some w => some w
        | none => if CrossoverSpec.avgAllMatchedOk bitEq m p1 p2 c then none else some "matched-gene-weight-not-the-mean"
    -- K1: single-point crossover of parents without a common first gene may return a gene-less child
    let sharedHead := (p1.genes.head?.map (·.inn)) == (p2.genes.head?.map (·.inn))
    let _ := sharedHead
    let genesis := (fldStr out "genesis").toOption.getD ""
    let inputWF1 := inputWF && decide (C01.TraitIdsNonzero p1) && decide (C01.TraitIdsNonzero p2)
    let c01 : Bool × String × String :=
      if !inputWF1 then (true, "", "")
      else match c01Produced (mateName m) [p1, p2] c cj genesis with
        | none => (true, "", "")
        | some (why, sg) => (false, why, sg)
    let _ := sameLineage
    let nontriv := inputWF && c.genes.length ≥ 2 &&
      (p1.genes.any (fun x => !p2.genes.any (·.inn == x.inn)) || p2.genes.any (fun x => !p1.genes.any (·.inn == x.inn))) &&
      (p1.genes.any (fun x => !x.en) || p2.genes.any (fun x => !x.en))
    return { corr := corr, spec := c04.isNone && c01.1, nontrivial := nontriv, cls := family, detail := detail,
             props := [("C04", c04.isNone, c04.getD "", "mate:" ++ c04.getD ""),
                       ("C01", c01.1, c01.2.1, c01.2.2)] }

def operatorOps : List (String × Handler) :=
  (["mutAddNode", "mutAddLink", "mutConnectSensors", "mutLinkWeights", "mutRandomTrait", "mutLinkTrait", "mutNodeTrait",
    "mutToggleEnable", "mutGeneReEnable", "mutAllNonstructural"].map (fun n => (n, mutationHandler n))) ++
  [("mateMultipoint", mateHandler .multipoint), ("mateMultipointAvg", mateHandler .multipointAvg),
   ("mateSinglePoint", mateHandler .singlePoint)]

end GoNeat.Driver
