/-
  Driver handler for C19, recording a generation: `fillStats`.
  `corr`: `Generation.FillPopulationStatistics` / `Average` / `ChampionComplexity` of the implementation on a real
  population equal the model (`Model/GenerationStats.lean`, `Scalar Float`): Diversity, the three series bit for bit,
  the champion (as a position in the population after the call), the order of every species' organism list after the
  call (ties included: `goSort` reproduces `sort.Sort`), the whole population after the call, the complexity of EVERY
  organism (cached phenotype vs `genesis` of the genome), the panic on an empty species; the means within 1e-12
  (gonum's summation order), the one-generation `Trial` accessors through `toGen` and Model/Stats.lean.
  `spec`: `Spec/GenStats.lean: fillSpecWhy` on the implementation's record and population.
-/
import GoNeat.Driver.Population
import GoNeat.Driver.Stats
import GoNeat.Spec.GenStats

namespace GoNeat.Driver
open Lean GoNeat.Stats GoNeat.GenStatsModel GoNeat.GenStatsSpec

def bitsEqL (a b : List Float) : Bool := a.length == b.length && (a.zip b).all fun (x, y) => bitEq x y

def orgAt (p : Pop Float) (si oi : Nat) : Option (Org Float) := (p.species[si]?).bind (·.orgs[oi]?)

def optPair (j : Json) (k : String) : E (Option (Nat × Nat)) :=
  match fldOpt j k with
  | none => pure none
  | some v => do return some (← pairOf v)

def orgSame (a b : Org Float) : Bool := a.uid == b.uid && (jOrg a).compress == (jOrg b).compress

def hFillStats : Handler := fun j => do
  let inp ← fld j "in"
  let out ← fld j "out"
  let popJ ← fld inp "pop"
  let p ← parsePop popJ
  let solved ← fldBool inp "solved"
  let variant ← fldStr inp "variant"
  let landscape ← fldStr inp "landscape"
  let epochs ← fldNat inp "epochs"
  let champ0 : Option (Org Float) := match ← optPair inp "champ0" with
    | some (si, oi) => orgAt p si oi
    | none => none
  let errI : Option String := match fldOpt out "err" with
    | some (.str s) => some s
    | _ => none
  let maxLen := p.species.foldl (fun m s => max m s.orgs.length) 0
  let fitTie := p.species.any fun s => s.orgs.any fun a => s.orgs.any fun b => a.uid != b.uid && a.fitness == b.fitness
  let cls := variant ++ "/e" ++ toString epochs ++ (if maxLen > 12 then "/pdq" else "") ++ (if fitTie then "/ties" else "")
  let nontriv := p.species.length ≥ 2 && p.species.any (·.orgs.length ≥ 2)
  match fillFrom solved champ0 p, errI with
  | .error e, some ei =>
    -- the guard of the theorems (no empty species) fails exactly here
    let hasEmpty := p.species.any (·.orgs.isEmpty)
    return { corr := stopStr e == ei, spec := hasEmpty, nontrivial := false, cls := cls,
             detail := if stopStr e == ei then "" else s!"error class: model {stopStr e} vs impl {ei}",
             sig := if hasEmpty then "" else "fill:panic-without-empty-species" }
  | .error e, none => return { corr := false, spec := true, cls := cls, detail := s!"model stops ({stopStr e}), implementation returns" }
  | .ok _, some ei =>
    return { corr := false, spec := false, cls := cls, detail := s!"implementation stops ({ei}), model returns", sig := "fill:panic" }
  | .ok (st, p'), none =>
    let mut corr : List String := []
    -- the implementation's record
    let divI ← fldNat out "diversity"
    let fitI ← arrF (← fld out "fitness")
    let ageI ← arrF (← fld out "age")
    let cxI ← arrF (← fld out "complexity")
    let afterJ ← fld out "after"
    let pI ← parsePop afterJ
    let champPos ← optPair out "champion"
    let alien ← fldBool out "champAlien"
    let champI : Option (Org Float) := match champPos with
      | some (si, oi) => orgAt pI si oi
      | none => none
    let gI : GenStats Float := { diversity := divI, fitness := fitI, age := ageI, complexity := cxI, champion := champI }
    if alien then
      corr := corr ++ ["the implementation's champion is no organism of the population"]
    if st.diversity != divI then corr := corr ++ [s!"Diversity: model {st.diversity} vs impl {divI}"]
    if !bitsEqL st.fitness fitI then corr := corr ++ ["Fitness series differs"]
    if !bitsEqL st.age ageI then corr := corr ++ ["Age series differs"]
    if !bitsEqL st.complexity cxI then corr := corr ++ ["Complexity series differs"]
    -- champion as a position in the population after the call
    let champM : Option (Nat × Nat) := st.champion.bind fun c => posOf p' c.uid
    if champM != champPos || (st.champion.isSome != champPos.isSome) then
      corr := corr ++ [s!"champion: model {champM} vs impl {champPos}"]
    -- order of the species lists after the call (positions before the call)
    let orderI ← (← fldArr out "order").mapM arrNat
    let orderM : List (List Nat) := (p.species.zip p'.species).map fun (s, s') =>
      s'.orgs.map fun o => (s.orgs.findIdx? (·.uid == o.uid)).getD s.orgs.length
    if orderM != orderI then corr := corr ++ ["order of a species' organism list after the call differs (sort.Sort vs goSort)"]
    match jsonDiff "after" (jPop p') (jPop pI) with
    | some d => corr := corr ++ [d]
    | none => pure ()
    -- organismComplexity of every organism: cached phenotype (impl) vs genesis of the genome (model)
    let cxAllI ← (← fldArr out "orgComplexity").mapM arrInt
    let cxAllM := p'.species.map fun s => s.orgs.map organismComplexity
    if cxAllM != cxAllI then corr := corr ++ ["organismComplexity of some organism differs (phenotype vs genesis of the genome)"]
    let ccI ← fldInt out "champComplexity"
    if championComplexity st != ccI then corr := corr ++ [s!"ChampionComplexity: model {championComplexity st} vs impl {ccI}"]
    -- Average: within 1e-12 of the left-to-right means
    let avgI := (← arrF (← fld out "avg")).map optF
    let (mf, ma, mc) := generationAverage st
    let scaleOf (l : List Float) : Float := l.foldl (fun m x => max m x.abs) 0.0
    let avgMsg : List String := match avgI with
      | [af, aa, ac] =>
        if !(closeF (scaleOf st.fitness) (normO mf) af && closeF (scaleOf st.age) (normO ma) aa && closeF (scaleOf st.complexity) (normO mc) ac) then
          [s!"Average: model ({showOF (normO mf)}, {showOF (normO ma)}, {showOF (normO mc)}) vs impl ({showOF af}, {showOF aa}, {showOF ac})"]
        else []
      | _ => ["avg: three values expected"]
    corr := corr ++ avgMsg
    -- the record read through a one-generation Trial
    let tJ ← fld out "trial"
    let t : Trial Float := ⟨[toGen solved st p']⟩
    let tf ← arrF (← fld tJ "fitness")
    let ta ← arrF (← fld tJ "ages")
    let tc ← arrF (← fld tJ "complex")
    let td ← arrF (← fld tJ "diversity")
    if !bitsEqL (championsFitness t) tf then corr := corr ++ ["Trial.ChampionsFitness differs"]
    if !bitsEqL (championSpeciesAges t) ta then corr := corr ++ ["Trial.ChampionSpeciesAges differs"]
    if !bitsEqL (championsComplexities t) tc then corr := corr ++ ["Trial.ChampionsComplexities differs"]
    if !bitsEqL (diversity t) td then corr := corr ++ ["Trial.Diversity differs"]
    let tavg ← (← fldArr tJ "avg").mapM arrF
    let tavgMsg : List String := match tavg with
      | [[af], [aa], [ac]] =>
        if !(sameBits (avgI.getD 0 none) (optF af) && sameBits (avgI.getD 1 none) (optF aa) && sameBits (avgI.getD 2 none) (optF ac)) then
          ["Trial.Average differs from Generation.Average"]
        else []
      | _ => ["Trial.Average: one entry per series expected"]
    corr := corr ++ tavgMsg
    -- specification on the implementation's output
    let why := fillSpecWhy bitEq orgSame solved champ0 p gI pI
    let why2 :=
      if why != "" then why
      else
        let ccSpec := match champI with
          | none => maxInt
          | some c => organismComplexity c
        if ccI != ccSpec then "ChampionComplexity is not the champion's complexity (MaxInt without champion)"
        else
          let meanOk (l : List Float) (a : Option Float) : Bool := closeF (scaleOf l) (normO (fMean l)) a
          match avgI with
          | [af, aa, ac] => if meanOk fitI af && meanOk ageI aa && meanOk cxI ac then "" else "Average is not the mean of the recorded series"
          | _ => "Average: three values expected"
    return { corr := corr.isEmpty, spec := why2 == "", nontrivial := nontriv,
             cls := cls ++ (if !solved && champI.isNone then "/noChampion" else ""),
             sig := if why2 == "" then "" else "fill:" ++ ((why2.splitOn " ").take 3 |> " ".intercalate),
             detail := "; ".intercalate (corr.take 3) ++ (if why2 == "" then "" else " | SPEC: " ++ why2 ++ " [" ++ landscape ++ "]") }

def genStatsOps : List (String × Handler) := [("fillStats", hFillStats)]

end GoNeat.Driver
