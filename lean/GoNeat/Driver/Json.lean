/-
  JSON helpers of the line-protocol driver (DESIGN Appendix B).  float64 values cross the protocol
  as their 64-bit patterns (JSON integers), never as decimal text.
-/
import Lean.Data.Json
import GoNeat.Model.Genome

namespace GoNeat.Driver
open Lean

abbrev E := Except String

def fld (j : Json) (k : String) : E Json := j.getObjVal? k
def fldNat (j : Json) (k : String) : E Nat := do (← fld j k).getNat?
def fldInt (j : Json) (k : String) : E Int := do (← fld j k).getInt?
def fldBool (j : Json) (k : String) : E Bool := do (← fld j k).getBool?
def fldStr (j : Json) (k : String) : E String := do (← fld j k).getStr?
def fldArr (j : Json) (k : String) : E (List Json) := do return (← (← fld j k).getArr?).toList
def fldF (j : Json) (k : String) : E Float := do return Float.ofBits (← fldNat j k).toUInt64
/-- optional field: absent or null ↦ none -/
def fldOpt (j : Json) (k : String) : Option Json :=
  match j.getObjVal? k with
  | .ok .null => none
  | .ok v => some v
  | .error _ => none
def fldOptInt (j : Json) (k : String) : E (Option Int) :=
  match fldOpt j k with
  | none => pure none
  | some v => do return some (← v.getInt?)

def jF (f : Float) : Json := Json.num (JsonNumber.fromNat f.toBits.toNat)
def jI (i : Int) : Json := Json.num (JsonNumber.fromInt i)
def jN (n : Nat) : Json := Json.num (JsonNumber.fromNat n)
def jB (b : Bool) : Json := Json.bool b
def jS (s : String) : Json := Json.str s
def jOptI : Option Int → Json
  | none => Json.null
  | some i => jI i
def jArr {α} (f : α → Json) (l : List α) : Json := Json.arr (l.map f).toArray
def jObj (kvs : List (String × Json)) : Json := Json.mkObj kvs

def arrF (j : Json) : E (List Float) := do
  let a ← j.getArr?
  a.toList.mapM fun v => do return Float.ofBits (← v.getNat?).toUInt64
def arrNat (j : Json) : E (List Nat) := do
  let a ← j.getArr?
  a.toList.mapM fun v => v.getNat?
def arrInt (j : Json) : E (List Int) := do
  let a ← j.getArr?
  a.toList.mapM fun v => v.getInt?

/-! ### genomes -/

def parseTrait (j : Json) : E (Trait Float) := do
  return { id := ← fldInt j "id", params := ← arrF (← fld j "params") }

def parseNode (j : Json) : E Node := do
  return { id := ← fldInt j "id", kind := ← fldNat j "kind", act := ← fldNat j "act", trait := ← fldOptInt j "trait" }

def parseGene (j : Json) : E (Gene Float) := do
  return { inn := ← fldInt j "inn", src := ← fldInt j "src", dst := ← fldInt j "dst", recur := ← fldBool j "rec",
           w := ← fldF j "w", mnum := ← fldF j "mut", en := ← fldBool j "en", trait := ← fldOptInt j "trait" }

def parseWire (j : Json) : E (Wire Float) := do
  return { node := ← fldInt j "node", w := ← fldF j "w", recur := ← fldBool j "rec", trait := ← fldOptInt j "trait" }

def parseModule (j : Json) : E (Module Float) := do
  return { inn := ← fldInt j "inn", mnum := ← fldF j "mut", en := ← fldBool j "en",
           ctrl := ← parseNode (← fld j "ctrl"),
           ins := ← (← fldArr j "ins").mapM parseWire, outs := ← (← fldArr j "outs").mapM parseWire }

def parseGenome (j : Json) : E (Genome Float) := do
  let mods ← match fldOpt j "modules" with
    | none => pure []
    | some m => do (← m.getArr?).toList.mapM parseModule
  return { id := ← fldInt j "id",
           traits := ← (← fldArr j "traits").mapM parseTrait,
           nodes := ← (← fldArr j "nodes").mapM parseNode,
           genes := ← (← fldArr j "genes").mapM parseGene,
           modules := mods }

def jTrait (t : Trait Float) : Json := jObj [("id", jI t.id), ("params", jArr jF t.params)]
def jNode (n : Node) : Json := jObj [("id", jI n.id), ("kind", jN n.kind), ("act", jN n.act), ("trait", jOptI n.trait)]
def jGene (g : Gene Float) : Json :=
  jObj [("inn", jI g.inn), ("src", jI g.src), ("dst", jI g.dst), ("rec", jB g.recur), ("w", jF g.w), ("mut", jF g.mnum),
        ("en", jB g.en), ("trait", jOptI g.trait)]
def jWire (w : Wire Float) : Json := jObj [("node", jI w.node), ("w", jF w.w), ("rec", jB w.recur), ("trait", jOptI w.trait)]
def jModule (m : Module Float) : Json :=
  jObj [("inn", jI m.inn), ("mut", jF m.mnum), ("en", jB m.en), ("ctrl", jNode m.ctrl),
        ("ins", jArr jWire m.ins), ("outs", jArr jWire m.outs)]
def jGenome (g : Genome Float) : Json :=
  jObj [("id", jI g.id), ("traits", jArr jTrait g.traits), ("nodes", jArr jNode g.nodes),
        ("genes", jArr jGene g.genes), ("modules", jArr jModule g.modules)]

/-- ownership bits of a dumped genome: every pointer the Go genome holds is one of its own objects -/
def ownBitsOk (j : Json) : Bool :=
  match fldBool j "own" with
  | .ok b => b
  | .error _ => false

/-! ### structural comparison with a path to the first difference -/

partial def jsonDiff (path : String) (a b : Json) : Option String :=
  match a, b with
  | .obj oa, .obj ob =>
    let ka := oa.toList.map (·.1)
    let kb := ob.toList.map (·.1)
    if ka != kb then some s!"{path}: keys {ka} vs {kb}"
    else
      oa.toList.foldl (fun acc (k, va) =>
        match acc with
        | some d => some d
        | none =>
          match ob.get? k with
          | some vb => jsonDiff (path ++ "." ++ k) va vb
          | none => some s!"{path}.{k}: missing") none
  | .arr xa, .arr xb =>
    if xa.size != xb.size then some s!"{path}: length {xa.size} vs {xb.size}"
    else
      (List.range xa.size).foldl (fun acc i =>
        match acc with
        | some d => some d
        | none => jsonDiff (path ++ "[" ++ toString i ++ "]") xa[i]! xb[i]!) none
  | a, b => if a == b then none else some s!"{path}: {a.compress} vs {b.compress}"

/-- result of one case -/
structure Verdict where
  /-- model output equals implementation output -/
  corr : Bool
  /-- executable specification predicate evaluated on the implementation's output -/
  spec : Bool
  /-- the case is non-trivial by the op's rule -/
  nontrivial : Bool := true
  /-- first difference / which clause failed -/
  detail : String := ""
  /-- signature of a failing case, matched against known_findings.jsonl -/
  sig : String := ""
  /-- coarse class of the input, for the input-distribution histogram -/
  cls : String := ""
  /-- sort-key tie: exact co-simulation skipped (DESIGN §2.4) -/
  tie : Bool := false
  /-- per-property results (property id, holds, why-not, signature) when one op serves several properties;
      a check for property P reads its own entry and falls back to `spec` -/
  props : List (String × Bool × String × String) := []

abbrev Handler := Json → E Verdict

def stopStr : Stop → String
  | .error e => e
  | .outOfRandom => "outOfRandom"

end GoNeat.Driver
