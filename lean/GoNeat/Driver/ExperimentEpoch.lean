/-
  Driver handler for `execEpochs` (C20 composed with C01/C02/C06): the REAL `Experiment.Execute` ran with the real
  `NewPopulation` / sequential `NextEpoch` and a deterministic fitness-assigning evaluator.  `corr`: the whole run
  equals `executeReal` (Model/ExperimentEpoch.lean) — calls received, recorded trials, returned error, EVERY population
  handed to the evaluator bit for bit, and the number of raw random values consumed by the whole run.  `spec`: on the
  implementation's output, every population handed to the evaluator satisfies the C02 invariant and holds well-formed
  genomes, generation 0 has the start genome's topology, and the run did not end with a spawn / epoch error.
-/
import GoNeat.Driver.Population
import GoNeat.Driver.Experiment
import GoNeat.Model.ExperimentEpoch

namespace GoNeat.Driver
open Lean GoNeat.Experiment

private def pairs2 (j : Json) (k : String) : E (List (Nat × Nat)) := do
  (← fldArr j k).mapM fun p => do
    match ← arrNat p with
    | [a, b] => pure (a, b)
    | _ => throw s!"{k}: expected pairs"

/-- the harness's evaluator: organism number `i` of `Population.Organisms` gets `1 + ((7i + 3g + t) mod 11) / 4` -/
def execEpochsEval (solved fail : List (Nat × Nat)) (t g : Nat) (p : Pop Float) : EvalResult Float :=
  let fit (x : Org Float) : Float := 1.0 + Float.ofNat ((p.organisms.idxOf x.uid * 7 + g * 3 + t) % 11) / 4.0
  let q : Pop Float := { p with species := p.species.map (fun s => { s with orgs := s.orgs.map (fun x => { x with fitness := fit x }) }) }
  ⟨q, if fail.contains (t, g) then .fail else if solved.contains (t, g) then .solved else .unsolved⟩

/-- drop the ghost events / fields the harness does not observe in this op -/
def plainEvents (l : List Event) : List Event :=
  l.filterMap fun
    | .epoch _ _ => none
    | .eval t g _ _ => some (.eval t g 0 0)
    | e => some e

def hExecEpochs : Handler := fun j => do
  let inp ← fld j "in"
  let out ← fld j "out"
  let gj ← fld inp "g"
  let g0 ← parseGenome gj
  let o ← parseEpochOpts (← fld inp "opts")
  let solved ← pairs2 inp "solved"
  let fail ← pairs2 inp "fail"
  let c : Ctl := { runs := ← fldNat inp "runs", maxGen := ← fldNat inp "maxGen", observer := ← fldBool inp "observer" }
  let rs ← arrNat (← fld j "rand")
  let consumed ← fldNat j "consumed"
  let cls := (← fldStr inp "origin") ++ (if c.observer then "/obs" else "/noobs")
  if let some (.str pan) := fldOpt out "panic" then
    return { corr := false, spec := false, cls := cls, sig := "execEpochs:panic", detail := "Execute panicked: " ++ pan }
  let evs := (← (← fldArr out "events").mapM parseEvent).map (fun e => match e with | .eval t g _ _ => Event.eval t g 0 0 | e => e)
  let implTrials ← (← fldArr out "trials").mapM parseImplTrial
  let (err, mech) : Option Err × String ← match fldOpt out "err" with
    | none => pure (none, "")
    | some ej => do
      match ← fldStr ej "cls" with
      | "eval" => pure (some (Err.evalFailed (← fldNat ej "t") (← fldNat ej "g")), "")
      | _ => pure (some Err.epochFailed, ← fldStr ej "msg")   -- spawn or epoch error: told apart by the model below
  let stored := implTrials.takeWhile (·.stored)
  let prefixOk := (implTrials.dropWhile (·.stored)).all (!·.stored) && implTrials.length == c.runs
  let recs := stored.filterMap ImplTrial.toRec
  let popsJ ← (← fldArr out "pops").mapM fun pj => do
    return ((← fldNat pj "t", ← fldNat pj "g"), ← fld pj "pop")
  let implPops ← popsJ.mapM fun (k, pj) => do return (k, ← parsePop pj)
  let inputOk := decide (WF g0) && ownBitsOk gj && decide (C01.TraitIdsNonzero g0) && g0.modules.isEmpty
  -- spec on the implementation's output
  let popsOk := popsJ.all (fun (_, pj) => popHeapOk pj) &&
    implPops.all (fun (_, ip) => PopSpec.popInvB ip o.popSize && ip.species.all (fun s => s.orgs.all (fun x => decide (WF x.genome))))
  let topo (x : Genome Float) := (x.nodes, x.genes.map (fun y => (y.inn, y.src, y.dst, y.recur, y.en, y.trait)), x.traits.map (·.id))
  let gen0Ok := implPops.all fun ((_, g), ip) =>
    g != 0 || (ip.species.flatMap (·.orgs)).all (fun m => topo m.genome == topo g0 && m.genome.genes.all (fun y => bitEq y.w y.mnum))
  let noMechErr := mech == ""
  let startIntact := (jsonDiff "start" gj (← fld out "startAfter")).isNone
  let spec := !inputOk || (popsOk && gen0Ok && noMechErr && prefixOk && startIntact)
  let why := if !popsOk then "a population handed to the evaluator violates the population invariant / holds an ill-formed genome"
    else if !gen0Ok then "generation 0 of a trial is not a fresh spawn of the start genome"
    else if !noMechErr then "run ended with a spawn/epoch error: " ++ mech
    else if !prefixOk then "recorded trials are not stored in order"
    else "start genome modified"
  -- model
  match executeReal c o g0 (execEpochsEval solved fail) rs with
  | .error e => return { corr := false, spec := spec, cls := cls, detail := s!"model stops: {stopStr e}", sig := if spec then "" else "execEpochs:" ++ why }
  | .ok (m, rest) =>
    let used := rs.length - rest.length
    let mPops : List ((Nat × Nat) × Pop Float) :=
      (m.log.zipIdx.flatMap fun (tl, t) => tl.gens.zipIdx.map fun (gl, g) => ((t, g), gl.pop))
    let errOk := match err, m.result.err with
      | none, none => true
      | some (.evalFailed t g), some (.evalFailed t' g') => t == t' && g == g'
      | some .epochFailed, some .epochFailed => true
      | some .epochFailed, some .spawnFailed => true
      | _, _ => false
    let popDiff : Option String :=
      if mPops.map (·.1) != implPops.map (·.1) then some s!"evaluated (trial, generation): model {mPops.map (·.1)} vs impl {implPops.map (·.1)}"
      else (mPops.zip implPops).findSome? fun ((k, mp), (_, ip)) => jsonDiff s!"pop{k}" (jPop mp) (jPop ip)
    let evOk := plainEvents m.events == evs
    let trOk := m.result.trials == recs
    let corr := evOk && trOk && errOk && popDiff.isNone && used == consumed
    let detail :=
      (if evOk then "" else s!"events: model [{showEvents (plainEvents m.events)}] vs impl [{showEvents evs}] ") ++
      (if trOk then "" else s!"trials: model {m.result.trials.length} vs impl {recs.length} ") ++
      (if errOk then "" else s!"err: model {showErr m.result.err} vs impl {showErr err} {mech} ") ++
      (popDiff.getD "") ++ (if used == consumed then "" else s!" randomness {used} vs {consumed}") ++
      (if spec then "" else " | SPEC: " ++ why)
    let turnovers := (m.events.filter (fun e => match e with | .epoch _ _ => true | _ => false)).length
    return { corr := corr, spec := spec, nontrivial := inputOk && turnovers ≥ 1,
             cls := cls ++ "/" ++ (match err with | none => "nil" | some (.evalFailed ..) => "eval" | _ => "mech") ++
                    (if solved.isEmpty then "" else "/solved"),
             sig := if spec then "" else "execEpochs:" ++ why, detail := detail }

def experimentEpochOps : List (String × Handler) :=
  [("execEpochs", hExecEpochs)]

end GoNeat.Driver
