/- table of all driver ops; one `*Ops` list per area -/
import GoNeat.Driver.Genetics
import GoNeat.Driver.Operators
import GoNeat.Driver.Population
import GoNeat.Driver.Activations
import GoNeat.Driver.Solver
import GoNeat.Driver.History

namespace GoNeat.Driver
def allOps : List (String × Handler) := geneticsOps ++ operatorOps ++ populationOps ++ activationsOps ++ solverOps ++ historyOps
end GoNeat.Driver
