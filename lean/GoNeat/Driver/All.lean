/- table of all driver ops; one `*Ops` list per area -/
import GoNeat.Driver.Genetics
import GoNeat.Driver.Operators
import GoNeat.Driver.Population

namespace GoNeat.Driver
def allOps : List (String × Handler) := geneticsOps ++ operatorOps ++ populationOps
end GoNeat.Driver
