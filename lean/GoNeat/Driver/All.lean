/- table of all driver ops; one `*Ops` list per area -/
import GoNeat.Driver.Genetics
import GoNeat.Driver.Activations

namespace GoNeat.Driver
def allOps : List (String × Handler) := geneticsOps ++ activationsOps
end GoNeat.Driver
