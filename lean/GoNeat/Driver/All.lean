/- table of all driver ops; one `*Ops` list per area -/
import GoNeat.Driver.Genetics
import GoNeat.Driver.Operators

namespace GoNeat.Driver
def allOps : List (String × Handler) := geneticsOps ++ operatorOps
end GoNeat.Driver
