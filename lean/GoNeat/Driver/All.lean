/- table of all driver ops; one `*Ops` list per area -/
import GoNeat.Driver.Genetics
import GoNeat.Driver.Solver

namespace GoNeat.Driver
def allOps : List (String × Handler) := geneticsOps ++ solverOps
end GoNeat.Driver
