/- table of all driver ops; one `*Ops` list per area -/
import GoNeat.Driver.Genetics

namespace GoNeat.Driver
def allOps : List (String × Handler) := geneticsOps
end GoNeat.Driver
