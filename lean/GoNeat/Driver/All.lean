/- table of all driver ops; one `*Ops` list per area -/
import GoNeat.Driver.Genetics
import GoNeat.Driver.Operators
import GoNeat.Driver.Population
import GoNeat.Driver.Activations
import GoNeat.Driver.Solver
import GoNeat.Driver.Experiment
import GoNeat.Driver.Stats
import GoNeat.Driver.Depth
import GoNeat.Driver.Genesis
import GoNeat.Driver.Parallel
import GoNeat.Driver.IO
import GoNeat.Driver.Innov
import GoNeat.Driver.History
import GoNeat.Driver.ModNet
import GoNeat.Driver.Sort
import GoNeat.Driver.FastHand
import GoNeat.Driver.GenRand
import GoNeat.Driver.ExperimentEpoch
import GoNeat.Driver.GenStats
import GoNeat.Driver.Champion
import GoNeat.Driver.ExpTime

namespace GoNeat.Driver
def allOps : List (String × Handler) :=
  geneticsOps
  ++ operatorOps
  ++ populationOps
  ++ activationsOps
  ++ solverOps
  ++ experimentOps
  ++ statsOps
  ++ depthOps
  ++ genesisOps
  ++ parallelOps
  ++ ioOps
  ++ innovOps
  ++ historyOps
  ++ modNetOps
  ++ sortOps
  ++ fastHandOps
  ++ genRandOps
  ++ experimentEpochOps
  ++ genStatsOps
  ++ championOps
  ++ expTimeOps
end GoNeat.Driver
