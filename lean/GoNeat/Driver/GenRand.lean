/-
  Driver handlers `genomeRand` (newGenomeRand) and `populationRandom` (NewPopulationRandom): the model of
  Model/GenomeRand.lean against the real constructors, bit for bit and draw for draw; the specification predicates of
  Spec/GenomeRand.lean and `C03.RandShape` evaluated on the implementation's output.
-/
import GoNeat.Driver.Population
import GoNeat.Model.GenomeRand
import GoNeat.Spec.GenomeRand

namespace GoNeat.Driver
open Lean GoNeat.C01

/-- all clauses a random genome must satisfy: (C01 why, C03 why) -/
def genRandSpec (nIn nOut maxHidden : Nat) (recurrent : Bool) (g : Genome Float) (gj : Json) : String × String :=
  let total : Int := ((nIn + nOut + maxHidden : Nat) : Int)
  let c01 :=
    if !decide (WFCore g) then wfCoreWhy g
    else if !ownBitsOk gj then "foreign-pointer: " ++ ((fldStr gj "ownWhy").toOption.getD "")
    else if !decide (PairsDistinct g.genes) then "two-genes-join-the-same-ordered-pair"
    else if !decide (RandTrait g) then "trait-list-is-not-the-single-trait-1"
    else if !decide (RandRoles (nIn : Int) (nOut : Int) (maxHidden : Int) g) then "node-id-out-of-range-or-role-not-determined-by-id"
    else if !decide (RandCells bitEq total g) then "gene-not-in-its-matrix-cell"
    else if nOut ≥ 1 && !decide (HasOutput g) then "no-output"
    else if !recurrent && g.genes.any (fun x => x.recur || decide (x.src ≥ x.dst)) then "recurrent-gene-though-recurrent=false"
    else ""
  let c03 :=
    if !decide (C03.RandShape (nIn : Int) (nOut : Int) (maxHidden : Int) g) then "RandShape: innovation number ≥ total² or node id > total"
    else ""
  (c01, c03)

def hGenomeRand : Handler := fun j => do
  let inp ← fld j "in"
  let out ← fld j "out"
  let id ← fldInt inp "id"
  let nIn ← fldNat inp "in"
  let nOut ← fldNat inp "out"
  let n ← fldNat inp "n"
  let maxHidden ← fldNat inp "maxHidden"
  let recurrent ← fldBool inp "recurrent"
  let linkProb ← fldF inp "linkProb"
  let o ← parseMutOpts (← fld inp "opts")
  let acts ← fldStr inp "acts"
  let rs ← arrNat (← fld j "rand")
  let consumed ← fldNat j "consumed"
  let implErr := optStr out "err"
  match newGenomeRand id nIn nOut n maxHidden recurrent linkProb o rs, implErr with
  | .error e, some ie =>
    return { corr := stopStr e == ie, spec := true, cls := "err:" ++ ie, nontrivial := false,
             detail := if stopStr e == ie then "" else s!"error class: model {stopStr e} vs impl {ie}" }
  | .error e, none => return { corr := false, spec := true, detail := s!"model stops ({stopStr e}) but impl succeeds" }
  | .ok _, some ie => return { corr := false, spec := true, detail := s!"impl fails ({ie}) but model succeeds" }
  | .ok (g, rest), none =>
    let gj ← fld out "g"
    let ig ← parseGenome gj
    let d := jsonDiff "g" (jGenome g) (jGenome ig)
    let used := rs.length - rest.length
    let corr := d.isNone && used == consumed
    let (c01, c03) := genRandSpec nIn nOut maxHidden recurrent ig gj
    let lp := if linkProb == 0.0 then "p0" else if linkProb == 1.0 then "p1" else "p"
    let cls := acts ++ ":" ++ lp ++ (if recurrent then ":rec" else ":norec") ++ (if ig.genes.isEmpty then ":nogenes" else "") ++
               (if nIn == 1 then ":biasOnly" else "") ++ (if n == maxHidden then ":full" else "")
    return { corr := corr, spec := c01 == "" && c03 == "", nontrivial := !ig.genes.isEmpty, cls := cls,
             detail := (d.getD "") ++ (if used == consumed then "" else s!" randomness: model consumed {used} raw values, impl {consumed}"),
             sig := if c01 != "" then "genomeRand:" ++ c01 else if c03 != "" then "genomeRand:randShape" else "",
             props := [("C01", c01 == "", c01, "genomeRand:" ++ c01), ("C03", c03 == "", c03, "genomeRand:randShape")] }

def hPopulationRandom : Handler := fun j => do
  let inp ← fld j "in"
  let out ← fld j "out"
  let nIn ← fldNat inp "in"
  let nOut ← fldNat inp "out"
  let maxHidden ← fldNat inp "maxHidden"
  let recurrent ← fldBool inp "recurrent"
  let linkProb ← fldF inp "linkProb"
  let o ← parseEpochOpts (← fld inp "opts")
  let acts ← fldStr inp "acts"
  let rs ← arrNat (← fld j "rand")
  let consumed ← fldNat j "consumed"
  let implErr := optStr out "err"
  match newPopulationRandom o nIn nOut maxHidden recurrent linkProb rs, implErr with
  | .error e, some ie =>
    return { corr := stopStr e == ie, spec := true, cls := "err:" ++ ie, nontrivial := false,
             detail := if stopStr e == ie then "" else s!"error class: model {stopStr e} vs impl {ie}" }
  | .error e, none => return { corr := false, spec := true, detail := s!"model stops ({stopStr e}) but impl succeeds" }
  | .ok _, some ie => return { corr := false, spec := true, detail := s!"impl fails ({ie}) but model succeeds" }
  | .ok (p, rest), none =>
    let popJ ← fld out "pop"
    let ip ← parsePop popJ
    let d := jsonDiff "pop" (jPop p) (jPop ip)
    let used := rs.length - rest.length
    let corr := d.isNone && used == consumed
    let gs := (ip.species.flatMap (·.orgs)).map (·.genome)
    let js := popGenomesJ popJ
    let whys := (gs.zip js).map (fun (g, gj) => genRandSpec nIn nOut maxHidden recurrent g gj)
    let c01 := (whys.map (·.1)).foldl (fun acc w => if acc != "" then acc else w) ""
    let c02 := PopSpec.popInvWhy ip o.popSize
    let c02' := if c02 != "" then c02 else if !popHeapOk popJ then "foreign pointer / wrong species back pointer" else ""
    -- C03: every member within the numbering scheme; the counters are `randomCounters`; no records; the invariant itself
    let ctr := C03.randomCounters (nIn : Int) (nOut : Int) (maxHidden : Int)
    let c03 :=
      let w := (whys.map (·.2)).foldl (fun acc w => if acc != "" then acc else w) ""
      if w != "" then w
      else if !(ip.reg.nextNode == ctr.1 && ip.reg.nextInn == ctr.2) then "counters are not (total+1, total²+1)"
      else if !ip.reg.records.isEmpty then "innovation records in a new population"
      else if !decide (C03.Inv ip.reg gs) then "C03 invariant fails for the new population"
      else ""
    let cls := acts ++ (if recurrent then ":rec" else ":norec") ++ (if ip.species.length ≥ 2 then ":species2+" else ":species1")
    return { corr := corr, spec := c01 == "" && c02' == "" && c03 == "", nontrivial := gs.any (fun g => !g.genes.isEmpty), cls := cls,
             detail := (d.getD "") ++ (if used == consumed then "" else s!" randomness: model consumed {used} raw values, impl {consumed}"),
             sig := if c01 != "" then "populationRandom:" ++ c01 else if c03 != "" then "populationRandom:c03" else if c02' != "" then "populationRandom:popinv" else "",
             props := [("C01", c01 == "", c01, "populationRandom:" ++ c01), ("C02", c02' == "", c02', "populationRandom:popinv"),
                       ("C03", c03 == "", c03, "populationRandom:c03")] }

def genRandOps : List (String × Handler) :=
  [("genomeRand", hGenomeRand), ("populationRandom", hPopulationRandom)]

end GoNeat.Driver
