/-
  Driver handler of op `innovHistory` (property C03): rebuilds, from the dump of a long run of the REAL code, the
  history of all bindings (innovation number ↦ link, node id ↦ role) of all organisms of all generations and
  evaluates the executable C03 predicates of Spec/Registry.lean on it:
    * `ConsistentB` / `ConsistentR` of the accumulated history (literally by `decide` at the end of the run, and
      incrementally through hash maps while the history grows - the two must agree),
    * freshness: a number / node id that first appears in a generation lies in `(counter at generation start, counter after reproduction]`,
    * `RegCompatB` and `CounterAboveB` for the records found at the end of every reproduction phase,
    * every record number is above the counters the generation started with (`GenInv`),
    * records cleared after the epoch, counters monotone and continuous,
    * same request ⇒ same numbers (requests read off the babies by the harness),
    * the modelled counter initialisations (`spawn`, `readStep`/`ReadPopulation`, `randomCounters`/`NewPopulationRandom`).
-/
import Std.Data.HashMap
import GoNeat.Driver.Operators
import GoNeat.Spec.Registry

namespace GoNeat.Driver
open Lean GoNeat.C03

def intRow (j : Json) : E (List Int) := arrInt j

def rows (j : Json) (k : String) : E (List (List Int)) := do (← fldArr j k).mapM intRow

def pair2 (j : Json) (k : String) : E (Int × Int) := do
  match ← arrInt (← fld j k) with
  | [a, b] => return (a, b)
  | _ => throw s!"{k}: expected a pair"

structure Hist where
  links : Std.HashMap Int (Int × Int × Bool) := {}
  kinds : Std.HashMap Int Nat := {}
  B : List Bind := []
  R : List Role := []
  newInns : Nat := 0
  dupRequests : Nat := 0

/-- add the new tuples of one generation; `fresh` decides whether a first-seen number / id is acceptable -/
def Hist.addBinds (h : Hist) (bs : List (List Int)) (freshInn : Int → Bool) : Except String Hist :=
  bs.foldlM (fun h row =>
    match row with
    | [inn, s, d, r] =>
      let link := (s, d, r != 0)
      match h.links[inn]? with
      | some l =>
        if l == link then .ok h
        else .error s!"inn-two-links|innovation number {inn} denotes {l} and {link}"
      | none =>
        if !freshInn inn then .error s!"issued-not-fresh|innovation number {inn} first appears but is not above the counter of the generation start"
        else .ok { h with links := h.links.insert inn link, B := (inn, s, d, r != 0) :: h.B, newInns := h.newInns + 1 }
    | _ => .error "driver|bad bind row") h

def Hist.addRoles (h : Hist) (rs : List (List Int)) (freshId : Int → Bool) : Except String Hist :=
  rs.foldlM (fun h row =>
    match row with
    | [id, kind] =>
      match h.kinds[id]? with
      | some k =>
        if k == kind.toNat then .ok h
        else .error s!"node-two-roles|node id {id} denotes roles {k} and {kind}"
      | none =>
        if !freshId id then .error s!"node-id-not-fresh|node id {id} first appears but is not above the counter of the generation start"
        else .ok { h with kinds := h.kinds.insert id kind.toNat, R := (id, kind.toNat) :: h.R }
    | _ => .error "driver|bad role row") h

/-- same request ⇒ same numbers; returns the number of repeated requests -/
def sameRequests (links nodes : List (List Int)) : Except String Nat := do
  let mut lm : Std.HashMap (Int × Int × Int) Int := {}
  let mut dups := 0
  for row in links do
    match row with
    | [s, d, r, inn] =>
      match lm[(s, d, r)]? with
      | some k =>
        if k != inn then throw s!"same-link-different-numbers|new link {s}->{d} rec={r} received numbers {k} and {inn} in one generation"
        dups := dups + 1
      | none => lm := lm.insert (s, d, r) inn
    | _ => throw "driver|bad reqLinks row"
  let mut nm : Std.HashMap (Int × Int × Int) (Int × Int × Int) := {}
  for row in nodes do
    match row with
    | [s, d, old, n, k1, k2] =>
      match nm[(s, d, old)]? with
      | some v =>
        if v != (n, k1, k2) then
          throw s!"same-split-different-numbers|split of gene {old} ({s}->{d}) received (node,inn1,inn2) = {v} and {(n, k1, k2)} in one generation"
        dups := dups + 1
      | none => nm := nm.insert (s, d, old) (n, k1, k2)
    | _ => throw "driver|bad reqNodes row"
  return dups

def mkReg (recs : List (Innov Float)) (ctr : Int × Int) : Reg Float := { records := recs, nextInn := ctr.1, nextNode := ctr.2 }

/-- `(getLastNodeId, getNextGeneInnovNum)` of a dumped genome as the MODEL's accessors compute them -/
def modelLasts (g : Genome Float) : Option (Int × Int) :=
  match g.lastNodeId, g.nextGeneInnov with
  | .ok ln, .ok ni => some (ln, ni)
  | _, _ => none

/-- the counters the modelled initialisation yields, as (nextInn, nextNode), computed by the model's own accessors from
    the dumped genomes (in whatever order their genes / nodes are listed); `none` in the second component = the model's
    accessors agree with the implementation's on every dumped genome -/
def modelInitCounters (kind : String) (inp init : Json) : E (Option (Int × Int) × Option String) := do
  let gs ← (← fldArr init "genomes").mapM parseGenome
  let ls ← rows init "lasts"
  -- accessor tie: model vs implementation on every organism of the constructed population
  let accMis : Option String :=
    if gs.length != ls.length then some "dump: genomes / lasts length"
    else (List.zip gs ls).findSome? (fun (g, row) =>
      match modelLasts g, row with
      | some (ln, ni), [iln, ini] => if ln == iln && ni == ini then none else some s!"accessors: model ({ln},{ni}) vs impl ({iln},{ini}) on genome {g.id}"
      | _, _ => some s!"accessors: model fails on genome {g.id}")
  if kind.startsWith "spawn" then
    let start ← parseGenome (← fld init "start")
    let (iln, ini) ← pair2 init "startLasts"
    match modelLasts start with
    | some (ln, ni) =>
      let mis := if ln == iln && ni == ini then accMis else some s!"accessors on the start genome: model ({ln},{ni}) vs impl ({iln},{ini})"
      -- Model/Epoch.lean `spawn`: nextInn := nextGeneInnov - 1, nextNode := lastNodeId + 1
      return (some (ni - 1, ln + 1), mis)
    | none => return (none, some "accessors: model fails on the start genome")
  else if kind.startsWith "read" then
    -- `ReadPopulation`: fold of `readStep` over the genomes in file order, with the MODEL's accessors
    let c := gs.foldl (fun c g => match modelLasts g with | some (ln, ni) => readStep c ln ni | none => c) ((0, 0) : Int × Int)
    return (some (c.2, c.1), accMis)
  else if kind == "random" then
    let c := randomCounters (← fldInt inp "nIn") (← fldInt inp "nOut") (← fldInt inp "maxHidden")
    return (some (c.2, c.1), accMis)
  else return (none, accMis)

def hInnovHistory : Handler := fun j => do
  let inp ← fld j "in"
  let out ← fld j "out"
  let kind ← fldStr inp "kind"
  let init ← fld out "init"
  let gens ← fldArr out "gens"
  let twin ← fldStr out "twin"
  let ctrI ← pair2 init "ctr"
  let initRecs ← (← fldArr init "recs").mapM parseInnov
  let ascending ← fldBool init "ascending"
  -- the run; `Except.error` carries "sig|detail" of the first failing clause
  let run : Except String (Hist × Nat × String × Bool) := do
    let h0 ← ({} : Hist).addBinds (← (rows init "binds").mapError ("driver|" ++ ·)) (fun _ => true)
    let h0 ← h0.addRoles (← (rows init "roles").mapError ("driver|" ++ ·)) (fun _ => true)
    let reg0 := mkReg initRecs ctrI
    if !initRecs.isEmpty then throw "init-records|a freshly constructed population holds innovation records"
    if !decide (CounterAboveB reg0 h0.B h0.R) then
      throw s!"init-counters|counters {ctrI} of the constructed population ({kind}) are not above every number / node id it holds"
    if kind == "random" then
      let nI ← (fldInt inp "nIn").mapError ("driver|" ++ ·)
      let nO ← (fldInt inp "nOut").mapError ("driver|" ++ ·)
      let mH ← (fldInt inp "maxHidden").mapError ("driver|" ++ ·)
      let t := nI + nO + mH
      if !(h0.B.all (fun b => decide (b.1 < t * t)) && h0.R.all (fun p => decide (p.1 ≤ t))) then
        throw "init-randshape|newGenomeRand used an innovation number >= total^2 or a node id > total"
    let mut h := { h0 with newInns := 0 }
    let mut prev := ctrI
    let mut okGens := 0
    let mut errCls := ""
    let mut contiguous := true
    for gj in gens do
      match optStr gj "err" with
      | some e => errCls := e
      | none =>
        let c0 ← (pair2 gj "ctr0").mapError ("driver|" ++ ·)
        let c1 ← (pair2 gj "ctr1").mapError ("driver|" ++ ·)
        let c2 ← (pair2 gj "ctr2").mapError ("driver|" ++ ·)
        if c0 != prev then contiguous := false
        if c1.1 < c0.1 || c1.2 < c0.2 || c2.1 < c1.1 || c2.2 < c1.2 then throw s!"counter-decreased|counters {c0} -> {c1} -> {c2}"
        let recs ← ((← (fldArr gj "recs").mapError ("driver|" ++ ·)).mapM parseInnov).mapError ("driver|" ++ ·)
        let recsAfter ← (fldArr gj "recsAfter").mapError ("driver|" ++ ·)
        if !recsAfter.isEmpty then throw s!"records-not-cleared|{recsAfter.length} innovation record(s) survive the end of generation {okGens + 1}"
        h ← h.addBinds (← (rows gj "newBinds").mapError ("driver|" ++ ·)) (fun inn => decide (c0.1 < inn) && decide (inn ≤ c1.1))
        h ← h.addRoles (← (rows gj "newRoles").mapError ("driver|" ++ ·)) (fun id => decide (c0.2 < id) && decide (id ≤ c1.2))
        let reg1 := mkReg recs c1
        if !((regInns reg1).all (fun k => decide (c0.1 < k)) && (regNodes reg1).all (fun k => decide (c0.2 < k))) then
          throw "record-stale-number|an innovation record of this generation holds a number / node id not above the counters the generation started with"
        if !decide (RegCompatB reg1 h.B h.R) then
          throw "regcompat|a record of this generation does not denote the recorded link/node in the history (or two records share a number)"
        if !decide (CounterAboveB reg1 h.B h.R) then throw "counters-below-held|after reproduction a held number / node id exceeds the counters"
        let d ← sameRequests (← (rows gj "reqLinks").mapError ("driver|" ++ ·)) (← (rows gj "reqNodes").mapError ("driver|" ++ ·))
        h := { h with dupRequests := h.dupRequests + d }
        prev := c2
        okGens := okGens + 1
    -- the literal specification predicate on the whole accumulated history
    if h.B.length ≤ 20000 then
      if !decide (ConsistentB h.B) then throw "inconsistent-history|ConsistentB fails on the accumulated history"
      if !decide (ConsistentR h.R) then throw "inconsistent-history|ConsistentR fails on the accumulated history"
    return (h, okGens, errCls, contiguous)
  let (modelCtr, accMis) ← modelInitCounters kind inp init
  let initCorr := accMis.isNone && match modelCtr with
    | some c => c == ctrI
    | none => true
  let cls := kind ++ (if ascending || kind.endsWith "unsorted" then "" else ":unsorted")
  match run with
  | .error e =>
    let parts := e.splitOn "|"
    let sg := parts.head!
    if parts.head! == "driver" then throw e
    return { corr := twin != "differs" && initCorr, spec := false, nontrivial := false, cls := cls, sig := "innov:" ++ sg,
             detail := e, props := [("C03", false, e, "innov:" ++ sg)] }
  | .ok (h, okGens, errCls, contiguous) =>
    let corr := twin != "differs" && initCorr && contiguous
    let detail := (if twin == "differs" then "twin run through NextEpoch ends in a different population; " else "") ++
      (if initCorr then "" else s!"counter initialisation: model {modelCtr} vs impl {ctrI}; {accMis.getD ""}; ") ++
      (if contiguous then "" else "counters changed between epochs; ")
    return { corr := corr, spec := true, nontrivial := okGens ≥ 1 && h.newInns ≥ 1 && h.dupRequests ≥ 1,
             cls := cls ++ (if errCls == "" then "" else ":err:" ++ errCls), detail := detail,
             props := [("C03", true, "", "")] }

def innovOps : List (String × Handler) := [("innovHistory", hInnovHistory)]

end GoNeat.Driver
