/-
  Driver handlers for C20: `execExhaustive`, `execRandom`.  `in` is the script (the environment's behaviour),
  `out` is what the REAL `Experiment.Execute` did: the calls the scripted evaluator/observer received, completed
  turnovers, `Experiment.Trials`, the returned error.  `corr`: equals the model's `execute`.  `spec`: the protocol
  specification `Protocol.check` evaluated on the implementation's output.
-/
import GoNeat.Driver.Json
import GoNeat.Spec.Experiment

namespace GoNeat.Driver
open Lean GoNeat.Experiment

private def pairs (j : Json) (k : String) : E (List (Nat × Nat)) := do
  (← fldArr j k).mapM fun p => do
    match ← arrNat p with
    | [a, b] => pure (a, b)
    | _ => throw s!"{k}: expected pairs"

def parseScript (j : Json) : E Script := do
  let evalTab ← (← fldArr j "eval").mapM arrNat
  let spawnFail ← arrNat (← fld j "spawnFail")
  let evalCancels ← pairs j "evalCancels"
  let epochFails ← pairs j "epochFails"
  let startedCancels ← arrNat (← fld j "startedCancels")
  let evaluatedCancels ← pairs j "evaluatedCancels"
  let finishedCancels ← arrNat (← fld j "finishedCancels")
  return {
    hasOptions := ← fldBool j "hasOptions"
    runs := ← fldNat j "runs"
    maxGen := ← fldNat j "maxGen"
    observer := ← fldBool j "observer"
    execOk := ← fldBool j "execOk"
    preCancelled := ← fldBool j "preCancelled"
    spawnOk := fun t => !spawnFail.contains t
    evalRes := fun t g =>
      match (evalTab[t]?.bind (·[g]?)).getD 0 with
      | 1 => .solved
      | 2 => .fail
      | _ => .unsolved
    evalCancels := fun t g => evalCancels.contains (t, g)
    epochFails := fun t g => epochFails.contains (t, g)
    startedCancels := fun t => startedCancels.contains t
    evaluatedCancels := fun t g => evaluatedCancels.contains (t, g)
    finishedCancels := fun t => finishedCancels.contains t }

def parseEvent (j : Json) : E Event := do
  let k ← fldStr j "k"
  let t ← fldNat j "t"
  let g ← fldNat j "g"
  match k with
  | "started" => pure (.started t)
  | "eval" => pure (.eval t g (← fldNat j "pt") (← fldNat j "pe"))
  | "epoch" => pure (.epoch t g)
  | "evaluated" => pure (.evaluated t g)
  | "finished" => pure (.finished t)
  | _ => throw s!"unknown event kind {k}"

def showEvent : Event → String
  | .started t => s!"S{t}"
  | .eval t g pt pe => if pt == t && pe == g then s!"E{t}.{g}" else s!"E{t}.{g}[pop {pt}/{pe}]"
  | .epoch t g => s!"T{t}.{g}"
  | .evaluated t g => s!"N{t}.{g}"
  | .finished t => s!"F{t}"
def showEvents (l : List Event) : String := " ".intercalate (l.map showEvent)

def showErr : Option Err → String
  | none => "nil"
  | some .noOptions => "nooptions"
  | some .spawnFailed => "spawn"
  | some .badExecutor => "executor"
  | some .cancelled => "cancelled"
  | some (.evalFailed t g) => s!"eval{t}.{g}"
  | some .epochFailed => "epoch"

/-- recorded trial (signed ids: the caller's sentinel entries have id -1) -/
structure ImplTrial where
  id : Int
  stored : Bool
  gens : List (Int × Int × Bool)

def parseImplTrial (j : Json) : E ImplTrial := do
  let gens ← (← fldArr j "gens").mapM fun gj => do
    return (← fldInt gj "id", ← fldInt gj "trialId", ← fldBool gj "solved")
  return { id := ← fldInt j "id", stored := ← fldBool j "stored", gens := gens }

def ImplTrial.toRec (t : ImplTrial) : Option TrialRec :=
  if t.id < 0 || t.gens.any (fun (a, b, _) => a < 0 || b < 0) then none
  else some ⟨t.id.toNat, t.gens.map fun (a, b, s) => ⟨a.toNat, b.toNat, s⟩⟩

def hExec : Handler := fun j => do
  let inp ← fld j "in"
  let out ← fld j "out"
  let s ← parseScript inp
  let fam ← fldStr inp "family"
  let skip ← fldStr out "skip"
  let cls0 := fam ++ (if s.observer then "/obs" else "/noobs")
  if skip != "" then
    return { corr := true, spec := true, nontrivial := false, cls := "skipped:" ++ cls0, detail := skip }
  let pan ← fldStr out "panic"
  if pan != "" then
    return { corr := false, spec := false, cls := cls0, sig := "exec:panic", detail := "Execute panicked: " ++ pan }
  let note ← fldStr out "note"
  let evs ← (← fldArr out "events").mapM parseEvent
  let implTrials ← (← fldArr out "trials").mapM parseImplTrial
  let err : Option Err ← match fldOpt out "err" with
    | none => pure none
    | some ej => do
      let c ← fldStr ej "cls"
      match c with
      | "cancelled" => pure (some Err.cancelled)
      | "eval" => pure (some (Err.evalFailed (← fldNat ej "t") (← fldNat ej "g")))
      | "epoch" => pure (some Err.epochFailed)
      | "spawn" => pure (some Err.spawnFailed)
      | "executor" => pure (some Err.badExecutor)
      | "nooptions" => pure (some Err.noOptions)
      | _ => throw s!"unknown error class {c}"
  -- the stored entries must be a prefix of Experiment.Trials (results recorded in order)
  let storedPrefix := implTrials.takeWhile (·.stored)
  let rest := implTrials.dropWhile (·.stored)
  let prefixOk := rest.all (!·.stored)
  let recs := storedPrefix.map ImplTrial.toRec
  let recsOk := recs.all Option.isSome
  let res : Result := ⟨recs.filterMap id, err⟩
  -- Experiment.Trials has one slot per configured run (when options were present); a caller who pre-allocated the slice may
  -- have given it MORE slots - the spare ones must stay unstored (prefixOk) and no more than `runs` trials may run (check)
  let prefill := (fldBool inp "prefill").toOption.getD false
  let lenOk := !s.hasOptions || implTrials.length == s.runs || (prefill && implTrials.length ≥ s.runs)
  let (mEvs, mRes) := execute s
  let corr := note == "" && prefixOk && recsOk && lenOk && evs == mEvs && res == mRes
  let chk := Protocol.check s evs res
  let spec := prefixOk && recsOk && lenOk && chk
  let why :=
    if !prefixOk then "recorded trials are not stored in order (gap in Experiment.Trials)"
    else if !recsOk then "negative ids in the recorded trials"
    else if !lenOk then s!"Experiment.Trials has {implTrials.length} slots for {s.runs} runs"
    else Protocol.why s evs res
  let detail :=
    (if corr then "" else s!"model: [{showEvents mEvs}] trials={mRes.trials.length} err={showErr mRes.err} | impl: [{showEvents evs}] trials={res.trials.length} err={showErr err} {note}") ++
    (if spec then "" else " | SPEC: " ++ why)
  let nontrivial := evs.any isEval
  return { corr := corr, spec := spec, nontrivial := nontrivial,
           cls := cls0 ++ "/" ++ (match err with | none => "nil" | some (.evalFailed ..) => "eval" | e => showErr e),
           sig := if spec then "" else "exec:" ++ why, detail := detail }

def experimentOps : List (String × Handler) :=
  [("execExhaustive", hExec), ("execRandom", hExec)]

end GoNeat.Driver
