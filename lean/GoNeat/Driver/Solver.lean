/-
  Driver handlers of the solver ops (C12, C13): `flushRun`, `solverRun` (harness: ops_solver.go).
-/
import GoNeat.Driver.Json
import GoNeat.Model.FastSolver
import GoNeat.Model.SolverDepth
import GoNeat.Model.ActExact
import GoNeat.Spec.Solver
import GoNeat.Proofs.FastFFAll

namespace GoNeat.Driver
open Lean GoNeat.Solver GoNeat.ActExact GoNeat.SolverSpec

/-! ### parsing -/

def parseNLink (j : Json) : E (NLink Float) := do
  return { src := ← fldNat j "src", dst := ← fldNat j "dst", w := ← fldF j "w", recur := ← fldBool j "rec",
           timeDelayed := ← fldBool j "td" }

def parseNNode (j : Json) : E (NNodeS Float) := do
  return { id := ← fldInt j "id", kind := ← fldNat j "kind", act := ← fldNat j "act",
           incoming := ← (← fldArr j "in").mapM parseNLink, outgoing := [] }

def parseNet (j : Json) : E (Net Float) := do
  return { id := ← fldInt j "id", nodes := ← (← fldArr j "nodes").mapM parseNNode,
           inputs := ← arrNat (← fld j "inputs"), outputs := ← arrNat (← fld j "outputs") }

/-- one scripted call, for either solver -/
structure ScriptOp where
  k : String
  xs : List Float
  n : Int
  delta : Float

def parseOp (j : Json) : E ScriptOp := do
  let xs ← match fldOpt j "xs" with
    | none => pure []
    | some v => arrF v
  return { k := ← fldStr j "k", xs := xs, n := ← fldInt j "n", delta := ← fldF j "delta" }

def stdOp (o : ScriptOp) : E (Solver.Op Float) :=
  match o.k with
  | "load" => pure (.load o.xs)
  | "act" => pure (.activate o.n)
  | "fwd" => pure (.forward o.n)
  | "rec" => pure .recursive
  | "relax" => pure .relax
  | "flush" => pure .flush
  | k => throw s!"unknown std op {k}"

/-- a call of a standard-network history: the `Solver` calls plus the depth query `depth` (n = cap; 0 =
    `MaxActivationDepth()`, which is `MaxActivationDepthWithCap(0)` for a network without control nodes) -/
def stdOpD (o : ScriptOp) : E (SolverD.OpD Float) :=
  match o.k with
  | "depth" => pure (.depth o.n)
  | _ => do return .call (← stdOp o)

def fastOp (o : ScriptOp) : E (Fast.Op Float) :=
  match o.k with
  | "load" => pure (.load o.xs)
  | "fwd" => pure (.forward o.n)
  | "rec" => pure .recursive
  | "relax" => pure (.relax o.n o.delta)
  | "flush" => pure .flush
  | k => throw s!"unknown fast op {k}"

/-! ### dumps of model states in the harness's shape -/

def jErr : Option Err → Json
  | none => Json.null
  | some e => jS e.str

def jNState (x : NState Float) : Json :=
  jObj [("count", jN x.count), ("active", jB x.isActive), ("visited", jB x.visited), ("act", jF x.activation),
        ("last", jF x.last), ("last2", jF x.last2), ("sum", jF x.sum)]

def jStdStep (net : Net Float) (r : Solver.Res Float) : Json :=
  jObj [("res", jB r.2.1), ("err", jErr r.2.2), ("outs", jArr jF (readOutputs net r.1)), ("state", jArr jNState r.1)]

def jFState (s : Fast.FState Float) : Json :=
  jObj [("signals", jArr jF s.signals), ("processing", jArr jF s.processing), ("activated", jArr jB s.activated),
        ("inAct", jArr jB s.inAct), ("lastAct", jArr jF s.lastAct)]

def jFastStep (fn : Fast.FastNet Float) (r : Fast.Res Float) : Json :=
  jObj [("res", jB r.2.1), ("err", jErr r.2.2), ("outs", jArr jF (Fast.readOutputs fn r.1)), ("fast", jFState r.1)]

def jFastNet (fn : Fast.FastNet Float) : Json :=
  jObj [("nBias", jN fn.nBias), ("nInput", jN fn.nInput), ("nSensor", jN fn.nSensor), ("nOutput", jN fn.nOutput),
        ("nTotal", jN fn.nTotal), ("acts", jArr jN fn.acts), ("biases", jArr jF fn.biasList),
        ("conns", jArr (fun c : Fast.FLink Float => jObj [("src", jN c.src), ("dst", jN c.dst), ("w", jF c.w)]) fn.conns),
        ("revAdj", jArr (fun i => jArr jN (Fast.revAdj fn i)) (List.range fn.nTotal)),
        ("matrix", jArr (fun s => jArr (fun t => jF (Fast.matW fn s t)) (List.range fn.nTotal)) (List.range fn.nTotal)),
        ("modules", jN 0)]

/-- run a script on the standard-solver model, dumping every step -/
def stdScript (net : Net Float) : List (Solver.Op Float) → St Float → List Json
  | [], _ => []
  | op :: ops, s =>
    let r := Solver.step net sigmaExact s op
    jStdStep net r :: stdScript net ops r.1

/-- the same for histories with depth queries: a depth step dumps the answer and the complete state (the `visited`
    marks the query left behind included) -/
def stdScriptD (net : Net Float) : List (SolverD.OpD Float) → St Float → List Json
  | [], _ => []
  | .call op :: ops, s =>
    let r := Solver.step net sigmaExact s op
    jStdStep net r :: stdScriptD net ops r.1
  | .depth cap :: ops, s =>
    let r := SolverD.stepD net sigmaExact s (.depth cap)
    let ans := match r.2.depth with
      | some (d, e) => jObj [("d", jI d), ("e", jS e.str)]
      | none => Json.null
    jObj [("res", jB r.2.res), ("err", Json.null), ("outs", jArr jF r.2.outs), ("state", jArr jNState r.1),
          ("depth", ans)] :: stdScriptD net ops r.1

def fastScript (fn : Fast.FastNet Float) : List (Fast.Op Float) → Fast.FState Float → List Json
  | [], _ => []
  | op :: ops, s =>
    let r := Fast.step fn sigmaExact s op
    jFastStep fn r :: fastScript fn ops r.1

/-- (res, err, outs) part of a dumped step -/
def obsPart (j : Json) : Json :=
  jObj [("res", (fldOpt j "res").getD Json.null), ("err", (fldOpt j "err").getD Json.null),
        ("outs", (fldOpt j "outs").getD Json.null), ("depth", (fldOpt j "depth").getD Json.null)]

def firstDiff (tag : String) : List Json → List Json → Option String
  | [], [] => none
  | a :: as, b :: bs =>
    match jsonDiff tag a b with
    | some d => some d
    | none => firstDiff (tag ++ "'") as bs
  | _, _ => some s!"{tag}: different number of steps"

def isActivation (o : ScriptOp) : Bool := o.k == "act" || o.k == "fwd" || o.k == "rec" || o.k == "relax"

/-! ### flushRun (C13) -/

def hFlushRun : Handler := fun j => do
  let inp ← fld j "in"
  let out ← fld j "out"
  let net ← parseNet (← fld inp "net")
  let solver ← fldStr inp "solver"
  let family ← fldStr inp "family"
  let hist ← (← fldArr inp "history").mapM parseOp
  let seq ← (← fldArr inp "seq").mapM parseOp
  let flushOp : ScriptOp := { k := "flush", xs := [], n := 0, delta := 0.0 }
  let script := hist ++ [flushOp] ++ seq
  let goFlushed ← fldArr out "flushed"
  let goFresh ← fldArr out "fresh"
  -- model side
  let (mInit, mFlushed, mFresh, buildDiff) ←
    if solver == "std" then do
      let s0 : St Float := Solver.init net
      let initJ := jObj [("res", jB false), ("err", Json.null), ("outs", jArr jF (readOutputs net s0)), ("state", jArr jNState s0)]
      pure (some initJ, stdScriptD net (← script.mapM stdOpD) s0, stdScriptD net (← seq.mapM stdOpD) s0, (none : Option String))
    else
      match Fast.ofNet net with
      | .error e =>
        let d := jsonDiff "buildErr" (jS e.str) ((fldOpt out "buildErr").getD Json.null)
        pure (none, [], [], d)
      | .ok fn => do
        let s0 := Fast.init fn
        let initJ := jObj [("res", jB false), ("err", Json.null), ("outs", jArr jF (Fast.readOutputs fn s0)), ("fast", jFState s0)]
        let d := match fldOpt out "fastNet" with
          | none => some "fastNet: implementation failed to build, model built"
          | some g => jsonDiff "fastNet" (jFastNet fn) g
        pure (some initJ, fastScript fn (← script.mapM fastOp) s0, fastScript fn (← seq.mapM fastOp) s0, d)
  let initDiff := match mInit, fldOpt out "init" with
    | some a, some b => jsonDiff "init" a b
    | none, none => none
    | _, _ => some "init: present on one side only"
  let diff := buildDiff <|> initDiff <|> firstDiff "flushed" mFlushed goFlushed <|> firstDiff "fresh" mFresh goFresh
  -- C13 on the implementation's output: the part of the flushed run after the flush equals the fresh run
  let tail := (goFlushed.drop (hist.length + 1)).map obsPart
  let specDiff := if goFlushed.isEmpty && goFresh.isEmpty then none else
    (if (goFlushed.length != script.length) then some "flushed: wrong number of steps" else none) <|>
      firstDiff "step" tail (goFresh.map obsPart)
  -- the flush itself reports success
  let flushStep := goFlushed[hist.length]?
  let flushOk := match flushStep with
    | some f => (fldOpt f "res") == some (jB true) && (fldOpt f "err").isNone
    | none => goFlushed.isEmpty
  let spec := specDiff.isNone && flushOk
  -- non-trivial: the history changed the state (an activation or a load happened) and the sequence activates
  let nontriv := !hist.isEmpty && seq.any isActivation &&
    (goFresh.any fun st => match fldOpt st "outs" with
      | some (Json.arr a) => a.any (fun v => v != jN 0)
      | _ => false)
  let why := if !flushOk then "flushFailed" else match specDiff with
    | some d => (d.takeWhile (· != ':')).toString
    | none => ""
  return { corr := diff.isNone, spec := spec, nontrivial := nontriv, cls := solver ++ ":" ++ family,
           detail := (diff.getD "") ++ (if spec then "" else " SPEC: " ++ (specDiff.getD "flush reported failure")),
           sig := if spec then "" else s!"flushRun:{solver}:{why}" }

/-! ### solverRun (C12) -/

def relCloseS (a b : Float) : Bool :=
  let m := max 1.0 (max a.abs b.abs)
  (a - b).abs ≤ 1e-9 * m

/-- a neuron with a discontinuous activation (sign, step) whose sum is within 1e-9 of the jump at 0 while not all
    terms vanish: summation order may legitimately flip the result (the property says "up to summation order") -/
def fragileNode (net : Net Float) (sens : Nat → Float) (i : Nat) : Bool :=
  match net.nodes[i]? with
  | none => false
  | some nd =>
    if nd.isSensor || !(nd.act == codeSign || nd.act == codeStep) then false
    else
      let terms := nd.incoming.map fun l =>
        l.w * ((evalNode net sigmaExact sens (net.nodes.length + 1) l.src).getD 0.0)
      let sum := terms.foldl (· + ·) 0.0
      sum.abs < 1e-9 && terms.any (fun t => t != 0.0)

def outsOf (j : Json) : E (List Float) := do arrF (← fld j "outs")

def hSolverRun : Handler := fun j => do
  let inp ← fld j "in"
  let out ← fld j "out"
  let net ← parseNet (← fld inp "net")
  let family ← fldStr inp "family"
  let deadEnd ← fldBool inp "deadEnd"
  let xs ← arrF (← fld inp "xs")
  let k ← fldInt inp "k"
  let relaxMax ← fldInt inp "relaxMax"
  let delta ← fldF inp "delta"
  -- model: every path on a fresh instance after LoadSensors(xs)
  let stdPath (op : Solver.Op Float) : Json :=
    let l := loadSensors net xs (Solver.init net)
    match l.2 with
    | some e => jObj [("res", jB false), ("err", jS e.str), ("outs", jArr jF [])]
    | none => jStdStep net (Solver.step net sigmaExact l.1 op)
  let mStd := stdPath (.forward k)
  let mStdRec := stdPath .recursive
  let cmp (tag : String) (m : Json) : Option String :=
    match fldOpt out tag with
    | some g => jsonDiff tag m g
    | none => some s!"{tag}: missing in implementation output"
  let mut diff := cmp "std" mStd <|> cmp "stdRec" mStdRec
  -- number of forward steps Relax executes on the fresh loaded instance (it stops as soon as no signal moved by more than
  -- delta): Relax is held to the feed-forward value only when that reaches the longest path - the property's hypothesis
  -- "propagating for at least as many steps as the longest sensor-to-output path" (C12.fast_relax: outputs of rank <=
  -- relaxCount hold the value)
  let mut relaxSteps : Nat := 0
  match Fast.ofNet net with
  | .error e => diff := diff <|> jsonDiff "buildErr" (jS e.str) ((fldOpt out "buildErr").getD Json.null)
  | .ok fn =>
    relaxSteps := Fast.relaxCount fn sigmaExact delta relaxMax.toNat (Fast.loadSensors fn xs (Fast.init fn)).1
    let fastPath (op : Fast.Op Float) : Json :=
      let l := Fast.loadSensors fn xs (Fast.init fn)
      match l.2 with
      | some e => jObj [("res", jB false), ("err", jS e.str), ("outs", jArr jF [])]
      | none => jFastStep fn (Fast.step fn sigmaExact l.1 op)
    let dNet := match fldOpt out "fastNet" with
      | none => some "fastNet: implementation failed to build, model built"
      | some g => jsonDiff "fastNet" (jFastNet fn) g
    diff := diff <|> dNet <|> cmp "fwd" (fastPath (.forward k)) <|> cmp "rec" (fastPath .recursive)
              <|> cmp "relax" (fastPath (.relax relaxMax delta))
  -- specification on the implementation's outputs: every path returns the feed-forward function
  let sens := sensFn net xs
  let want := evalOutputs net sigmaExact sens
  let evalOk := want.all Option.isSome
  let wantV := want.map (·.getD 0.0)
  let fragile := (List.range net.nodes.length).any (fragileNode net sens)
  let exactEq (got : List Float) := got.length == wantV.length && (got.zip wantV).all fun p => p.1.toBits == p.2.toBits
  let closeEq (got : List Float) := got.length == wantV.length && (got.zip wantV).all fun p => relCloseS p.1 p.2
  let pathOk (tag : String) (exact : Bool) : E (Option String) := do
    match fldOpt out tag with
    | none => return some s!"{tag}:missing"
    | some g =>
      if (fldOpt g "err").isSome then return some s!"{tag}:error"
      if (fldOpt g "res") != some (jB true) then return some s!"{tag}:resFalse"
      let got ← outsOf g
      if exact then
        return if exactEq got then none else some s!"{tag}:notEqualEval"
      else
        return if fragile || closeEq got then none else some s!"{tag}:notCloseToEval"
  -- second evaluation on the same instances (no Flush in between): the feed-forward value of the SECOND input vector
  let xs2 := ((fldOpt inp "xs2").bind (fun a => (arrF a).toOption)).getD []
  let sens2 := sensFn net xs2
  let want2 := evalOutputs net sigmaExact sens2
  let want2V := want2.map (·.getD 0.0)
  let fragile2 := (List.range net.nodes.length).any (fragileNode net sens2)
  let path2Ok (tag : String) (exact : Bool) : E (Option String) := do
    match fldOpt out tag with
    | none => return none
    | some g =>
      if g == Json.null then return none
      if (fldOpt g "err").isSome then return some s!"{tag}:error"
      if (fldOpt g "res") != some (jB true) then return some s!"{tag}:resFalse"
      let got ← outsOf g
      let ex := got.length == want2V.length && (got.zip want2V).all fun p => p.1.toBits == p.2.toBits
      let cl := got.length == want2V.length && (got.zip want2V).all fun p => relCloseS p.1 p.2
      if exact then
        return if ex then none else some s!"{tag}:notEqualEval(second evaluation on the same instance)"
      else
        return if fragile2 || cl then none else some s!"{tag}:notCloseToEval(second evaluation on the same instance)"
  let depth ← fldNat inp "depth"
  let mut specFail : Option String := none
  if !deadEnd && evalOk then
    -- Network.RecursiveSteps propagates MaxActivationDepthWithCap(0) steps: it is held to the feed-forward function only
    -- when that number reaches the longest path (the no-hidden shortcut returns 1 although outputs may feed outputs:
    -- a depth defect, property C14, reported there)
    let recDepth := (maxDepth net (net.nodes.map fun _ => false)).1
    let stdRecOk ← if recDepth ≥ depth then pathOk "stdRec" true else pure none
    specFail := (← pathOk "std" true) <|> stdRecOk <|> (← pathOk "fwd" false) <|> (← pathOk "rec" false)
                  <|> (← if relaxSteps ≥ depth then pathOk "relax" false else pure none)
    if xs2.length == xs.length && want2.all Option.isSome then
      let stdRec2Ok ← if recDepth ≥ depth then path2Ok "StdRec2" true else pure none
      -- (Relax on a used instance may legitimately stop before `depth` steps when all changes are below delta: the
      -- property's hypothesis 'at least as many steps as the longest path' is then not met, so Relax2 is not held to eval)
      specFail := specFail <|> (← path2Ok "Std2" true) <|> stdRec2Ok <|> (← path2Ok "Fwd2" false) <|> (← path2Ok "Rec2" false)
  let nB := (net.nodes.filter fun nd => nd.kind == Kind.bias).length
  let nH := (net.nodes.filter fun nd => nd.kind == Kind.hidden).length
  let nontriv := !deadEnd && evalOk && nB ≥ 1 && nH ≥ 1 && depth ≥ 2 && wantV.any (fun v => v != 0.0)
  return { corr := diff.isNone, spec := specFail.isNone, nontrivial := nontriv,
           cls := (if deadEnd then "neg:" else if fragile then "fragile:" else "") ++ family ++ s!":d{depth}",
           detail := (diff.getD "") ++ (match specFail with | some s => " SPEC: " ++ s | none => ""),
           sig := match specFail with | some s => "solverRun:" ++ s | none => "" }

def solverOps : List (String × Handler) := [("flushRun", hFlushRun), ("solverRun", hSolverRun)]

end GoNeat.Driver
