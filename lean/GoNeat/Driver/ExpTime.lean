/-
  Driver handler `expTimes` (C19 / C20): the implementation's duration means, latest instants and the orders
  `sort.Sort` produces on Generations / Trials / Experiments equal Model/ExperimentTime.lean (exact integers; ties in
  the order included: `goSort` reproduces `sort.Sort`); `spec`: Spec/ExpTime.lean on the implementation's answers.
-/
import GoNeat.Driver.Json
import GoNeat.Spec.ExpTime

namespace GoNeat.Driver
open Lean GoNeat.ExpTime GoNeat.ExpTimeSpec

def parseInstant (j : Json) : E Int := do
  return (← fldInt j "s") * 1000000000 + (← fldInt j "n")

def parseTExp (j : Json) : E TExp := do
  let mut trials : List TTrial := []
  for tj in ← fldArr j "trials" do
    let mut gens : List TGen := []
    for gj in ← fldArr tj "gens" do
      gens := gens ++ [{ id := ← fldInt gj "id", executed := ← parseInstant (← fld gj "executed"), duration := ← fldInt gj "duration" }]
    trials := trials ++ [{ id := ← fldInt tj "id", gens := gens, duration := ← fldInt tj "duration" }]
  return { id := ← fldInt j "id", trials := trials }

def orderOf {α} [BEq α] (before after : List α) : List Nat :=
  -- positions before, in the order after; equal records are matched first-unused-first
  let rec go (after : List α) (used : List Nat) : List Nat :=
    match after with
    | [] => []
    | x :: rest =>
      match (List.range before.length).find? (fun i => !used.contains i && before[i]? == some x) with
      | some i => i :: go rest (i :: used)
      | none => before.length :: go rest used
  go after []

def hExpTimes : Handler := fun j => do
  let inp ← fld j "in"
  let out ← fld j "out"
  let exps ← (← fldArr inp "exps").mapM parseTExp
  let outs ← fldArr out "exps"
  let expOrderI ← arrNat (← fld out "expOrder")
  let mut corr : List String := []
  let mut why := ""
  let mut anyTie := false
  let mut anyPdq : Bool := decide (exps.length > 12)
  let mut anyNeg := false
  let mut anyEmpty := false
  if outs.length != exps.length then corr := corr ++ ["one answer per experiment expected"]
  for (e, oj) in exps.zip outs do
    let tavgI ← arrInt (← fld oj "trialAvg")
    let trecI ← (← fldArr oj "trialRecent").mapM parseInstant
    let avgTrialI ← fldInt oj "avgTrial"
    let avgEpochI ← fldInt oj "avgEpoch"
    let mostI ← parseInstant (← fld oj "mostRecent")
    let genOrderI ← (← fldArr oj "genOrder").mapM arrNat
    let trialOrderI ← arrNat (← fld oj "trialOrder")
    if e.trials.length > 12 then anyPdq := true
    if e.trials.any (·.gens.isEmpty) || e.trials.isEmpty then anyEmpty := true
    -- model
    if e.trials.map trialAvgEpochDuration != tavgI then corr := corr ++ [s!"exp {e.id}: Trial.AvgEpochDuration differs"]
    if e.trials.map trialRecentEpochEvalTime != trecI then corr := corr ++ [s!"exp {e.id}: Trial.RecentEpochEvalTime differs"]
    if expAvgTrialDuration e != avgTrialI then corr := corr ++ [s!"exp {e.id}: AvgTrialDuration model {expAvgTrialDuration e} vs impl {avgTrialI}"]
    if expAvgEpochDuration e != avgEpochI then corr := corr ++ [s!"exp {e.id}: AvgEpochDuration model {expAvgEpochDuration e} vs impl {avgEpochI}"]
    if expMostRecentTrialEvalTime e != mostI then corr := corr ++ [s!"exp {e.id}: MostRecentTrialEvalTime differs"]
    -- orders: compare positions; records that are equal as values are interchangeable
    let genOrderM := e.trials.map fun t => (sortGens t.gens)
    let genOrderIrec := (e.trials.zip genOrderI).map fun (t, ord) => ord.filterMap (t.gens[·]?)
    if genOrderM != genOrderIrec then corr := corr ++ [s!"exp {e.id}: order of a trial's generations after sort.Sort differs (goSort)"]
    let trialsI := trialOrderI.filterMap (e.trials[·]?)
    if sortTrials e.trials != trialsI then corr := corr ++ [s!"exp {e.id}: order of the trials after sort.Sort differs (goSort)"]
    for t in e.trials do
      if t.gens.length > 12 then anyPdq := true
      if t.gens.any (fun a => decide (a.duration < 0)) || t.duration < 0 then anyNeg := true
      if t.gens.any fun a => (t.gens.filter fun b => b.executed == a.executed).length > 1 then anyTie := true
    -- specification on the implementation's answers
    if why == "" then
      let mut w := ""
      for ((t, a), r) in (e.trials.zip tavgI).zip trecI do
        if w == "" then w := avgWhy "Trial.AvgEpochDuration" (t.gens.map (·.duration)) a
        if w == "" then w := latestWhy "Trial.RecentEpochEvalTime" (t.gens.map (·.executed)) r
      if w == "" && (tavgI.length != e.trials.length || trecI.length != e.trials.length) then w := "one answer per trial expected"
      if w == "" then w := avgWhy "Experiment.AvgTrialDuration" (e.trials.map (·.duration)) avgTrialI
      if w == "" then w := avgWhy "Experiment.AvgEpochDuration" tavgI avgEpochI
      if w == "" then w := latestWhy "Experiment.MostRecentTrialEvalTime" (e.trials.flatMap fun t => t.gens.map (·.executed)) mostI
      for (t, ord) in e.trials.zip genOrderI do
        if w == "" then w := orderWhy "sort.Sort(Generations)" (t.gens.map fun g => (g.executed, g.id)) ord
      if w == "" then w := orderWhy "sort.Sort(Trials)" ((e.trials.zip trecI).map fun (t, r) => (r, t.id)) trialOrderI
      if w != "" then why := s!"exp {e.id}: " ++ w
  -- the experiments themselves
  let expsI := expOrderI.filterMap (exps[·]?)
  if sortExps exps != expsI then corr := corr ++ ["order of the experiments after sort.Sort differs (goSort)"]
  if why == "" then
    why := orderWhy "sort.Sort(Experiments)" (exps.map fun e => (expMostRecentTrialEvalTime e, e.id)) expOrderI
  let cls := (if anyPdq then "pdq" else "small") ++ (if anyTie then "/ties" else "") ++ (if anyNeg then "/neg" else "") ++
    (if anyEmpty then "/empty" else "")
  return { corr := corr.isEmpty, spec := why == "", nontrivial := exps.any (fun e => e.trials.length ≥ 2 && e.trials.any (·.gens.length ≥ 2)),
           cls := cls, sig := if why == "" then "" else "exptime:" ++ ((why.splitOn " ").drop 2 |>.take 2 |> " ".intercalate),
           detail := "; ".intercalate (corr.take 3) ++ (if why == "" then "" else " | SPEC: " ++ why) }

def expTimeOps : List (String × Handler) := [("expTimes", hExpTimes)]

end GoNeat.Driver
