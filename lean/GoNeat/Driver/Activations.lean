/-
  Driver handlers of C18: `actScalar`, `actModule`, `actRegistry`.
  corr: the definitions REGENERATED from the Go source (Gen/ActivationsFloat, Gen/Registry through the registry model)
        reproduce the outputs of the real Go functions - bit for bit for the arithmetic-only activators and the module
        activators, within `Spec.Act.closeTo` for the exp/tanh/sin/pow based ones.  This validates the translator.
  spec: the hand-written specification (Spec/Activations) evaluated on the implementation's outputs: finite, inside
        the documented range, equal to the documented closed form, non-decreasing along the sorted grid where the
        function is documented as monotone; module results are the product / a maximum / a minimum of the inputs;
        the registry maps the documented codes and names onto each other and answers everything else with an error.
-/
import GoNeat.Driver.Json
import GoNeat.Spec.Activations
import GoNeat.Gen.ActivationsFloat
import GoNeat.Gen.Registry

namespace GoNeat.Driver
open Lean GoNeat.Act GoNeat.Spec.Act

/-- the registry description regenerated from the Go source -/
def genRegistry : Desc :=
  { regWrites := Gen.Registry.registerWrites, modWrites := Gen.Registry.registerModuleWrites,
    lookups := Gen.Registry.lookups, registered := Gen.Registry.registered }

def genOk : Bool := Gen.Registry.untranslated.isEmpty

def fmtF (x : Float) : String :=
  let s := toString x
  (if s.length > 26 then (s.take 26).toString ++ "…" else s) ++ s!"[bits {x.toBits}]"

/-- first index at which `p` fails -/
def firstBad {α} (l : List α) (p : α → Bool) : Option (Nat × α) :=
  (l.zipIdx.find? (fun (a, _) => !p a)).map (fun (a, i) => (i, a))

def hActScalar : Handler := fun j => do
  let inp ← fld j "in"
  let out ← fld j "out"
  let t ← fldNat inp "t"
  let xs ← arrF (← fld inp "xs")
  let ys ← arrF (← fld out "ys")
  let err ← fldStr out "err"
  let doc := (scalarDocs Float).find? (·.code == t)
  let cls := match doc with | some d => d.name | none => "notAScalarType"
  -- model: the closure the regenerated registry selects, in its regenerated Float form
  let modelFn := (genRegistry.scalarOfCode t).bind (fun fn => Gen.ActF.scalarByName.lookup fn)
  let (corr, cdetail) :=
    if !genOk then (false, s!"translator reported untranslated constructs: {Gen.Registry.untranslated}") else
    match modelFn, err with
    | none, "" => (false, "model: unknown type, impl: value")
    | none, _ => (true, "")
    | some _, "" =>
      let exact := match doc with | some d => d.exact | none => true
      let f := modelFn.getD id
      if ys.length != xs.length then (false, "length of ys") else
      match firstBad (xs.zip ys) (fun (x, y) => if exact then (f x).toBits == y.toBits else closeTo (f x) y) with
      | none => (true, "")
      | some (i, (x, y)) => (false, s!"x[{i}]={fmtF x}: generated definition gives {fmtF (f x)}, Go gives {fmtF y} (exact={exact})")
    | some _, e => (false, s!"model: value, impl: error {e}")
  -- specification on the implementation's output
  match doc with
  | none =>
    let ok := err != ""
    return { corr := corr, spec := ok, nontrivial := true, cls := cls, detail := if !ok then s!"type {t} is not a documented scalar activation but ActivateByType returned a value" else cdetail,
             sig := if ok then "" else s!"unknownTypeAccepted:{t}" }
  | some d =>
    if err != "" then
      return { corr := corr, spec := false, cls := cls, sig := s!"{d.name}:error", detail := s!"documented type {t} answered with error {err}" }
    if ys.length != xs.length then throw "ys length"
    let pts := xs.zip ys
    let bad := pts.filter (fun (x, y) => !(y.isFinite && d.inRange y && closeTo (d.f x) y))
    -- consecutive grid points whose outputs decrease (for the functions documented as monotone)
    let drops := if d.mono then (pts.zip pts.tail).filter (fun ((_, y), (_, y')) => !(y ≤ y')) else []
    let mono := drops.isEmpty
    let dropsTiny := drops.all (fun ((_, y), (_, y')) => y - y' ≤ 2.5e-16)
    let sorted := nonDecreasing xs
    -- signature: the step function at -0 is a known finding; anything else is named by function and first bad input
    let sig :=
      if !mono then s!"{d.name}:notMonotone" ++ (if dropsTiny then "(drop<=2.5e-16)" else "")
      else match bad with
        | [] => ""
        | (x, y) :: _ =>
          if d.code == 20 && bad.all (fun (x, y) => x.toBits == (0x8000000000000000 : UInt64) && y.toBits == 0) then "StepActivation(-0)=0"
          else s!"{d.name}:x={fmtF x}"
    let why := match bad with
      | [] => match drops with
        | [] => ""
        | ((x, y), (x', y')) :: _ => s!"not non-decreasing: f({fmtF x}) = {fmtF y} > f({fmtF x'}) = {fmtF y'}"
      | (x, y) :: _ => s!"x={fmtF x}: Go returns {fmtF y}; closed form {fmtF (d.f x)}; finite={y.isFinite} inRange={d.inRange y}"
    return { corr := corr, spec := bad.isEmpty && mono, nontrivial := sorted && xs.length ≥ 50, cls := cls, sig := sig,
             detail := if bad.isEmpty && mono then cdetail else why }

def hActModule : Handler := fun j => do
  let inp ← fld j "in"
  let out ← fld j "out"
  let t ← fldNat inp "t"
  let fam ← fldStr inp "family"
  let xs ← arrF (← fld inp "xs")
  let ys ← arrF (← fld out "ys")
  let err ← fldStr out "err"
  let intact ← fldBool out "inputsIntact"
  let docName := moduleDocs.lookup t
  let cls := (docName.getD "notAModuleType") ++ "/" ++ fam ++ (if xs.length == 1 then "/single" else "")
  let modelFn := (genRegistry.moduleOfCode t).bind (fun fn => Gen.ActF.moduleByName.lookup fn)
  let (corr, cdetail) :=
    if !genOk then (false, s!"translator reported untranslated constructs: {Gen.Registry.untranslated}") else
    match modelFn, err with
    | none, "" => (false, "model: unknown type, impl: value")
    | none, _ => (true, "")
    | some f, "" =>
      match ys with
      | [y] => if (f xs).toBits == y.toBits then (true, "") else (false, s!"generated definition gives {fmtF (f xs)}, Go gives {fmtF y}")
      | _ => (false, "impl returned not exactly one value")
    | some _, e => (false, s!"model: value, impl: error {e}")
  match docName with
  | none =>
    let ok := err != ""
    return { corr := corr, spec := ok, cls := cls, detail := if ok then cdetail else s!"type {t} is not a module activation but a value was returned",
             sig := if ok then "" else s!"unknownModuleTypeAccepted:{t}" }
  | some name =>
    let ok := match err, ys with
      | "", [y] =>
        intact && (if t == 21 then y.toBits == (prodF xs).toBits
                   else if t == 22 then isMaxOf y xs else isMinOf y xs)
      | _, _ => false
    return { corr := corr, spec := ok, nontrivial := !xs.isEmpty, cls := cls,
             sig := if ok then "" else s!"{name}/{fam}",
             detail := if ok then cdetail else s!"{name} of {xs.map fmtF} returned {ys.map fmtF} err={err} inputsIntact={intact}" }

structure JLookup where
  ok : Bool
  s : String
  n : Nat

def parseLookup (j : Json) : E JLookup := do
  return { ok := ← fldBool j "ok", s := ← fldStr j "s", n := ← fldNat j "n" }

def hActRegistry : Handler := fun j => do
  let inp ← fld j "in"
  let out ← fld j "out"
  let codes ← arrNat (← fld inp "codes")
  let names ← (← fldArr inp "names").mapM (fun v => v.getStr?)
  let byCode ← (← fldArr out "byCode").mapM parseLookup
  let byName ← (← fldArr out "byName").mapM parseLookup
  let scalarOk ← (← fldArr out "scalarOk").mapM (fun v => v.getBool?)
  let moduleOk ← (← fldArr out "moduleOk").mapM (fun v => v.getBool?)
  if byCode.length != codes.length || byName.length != names.length || scalarOk.length != codes.length || moduleOk.length != codes.length then
    throw "registry dump: lengths"
  -- model
  let mCode := codes.map (fun c => genRegistry.nameOfCode c)
  let mName := names.map (fun n => genRegistry.codeOfName n)
  let dCode := (codes.zip (mCode.zip byCode)).find? (fun (_, m, g) => m != (if g.ok then some g.s else none))
  let dName := (names.zip (mName.zip byName)).find? (fun (_, m, g) => m != (if g.ok then some g.n else none))
  let dScal := (codes.zip scalarOk).find? (fun (c, g) => (genRegistry.scalarOfCode c).isSome != g)
  let dMod := (codes.zip moduleOk).find? (fun (c, g) => (genRegistry.moduleOfCode c).isSome != g)
  let cdetail :=
    if !genOk then s!"translator reported untranslated constructs: {Gen.Registry.untranslated}"
    else match dCode, dName, dScal, dMod with
    | some (c, m, g), _, _, _ => s!"name of type {c}: model {m}, impl ok={g.ok} {g.s}"
    | _, some (n, m, g), _, _ => s!"type of name {n}: model {m}, impl ok={g.ok} {g.n}"
    | _, _, some (c, g), _ => s!"ActivateByType({c}) accepted: impl {g}"
    | _, _, _, some (c, g) => s!"ActivateModuleByType({c}) accepted: impl {g}"
    | _, _, _, _ => ""
  -- specification on the implementation's answers
  let codeTbl := codes.zip byCode
  let nameTbl := names.zip byName
  let problems : List String :=
    -- every code: documented ⇒ its documented name; otherwise an error
    (codeTbl.filterMap fun (c, g) =>
      match docOfCode c with
      | some (n, _) => if g.ok && g.s == n then none else some s!"code{c}:name={if g.ok then g.s else "<error>"}"
      | none => if g.ok then some s!"code{c}:undocumentedAccepted" else none) ++
    -- every name asked: documented ⇒ its code; otherwise an error
    (nameTbl.filterMap fun (n, g) =>
      match documented.find? (fun d => d.2.1 == n) with
      | some d => if g.ok && g.n == d.1 then none else some s!"name{n}:code={if g.ok then toString g.n else "<error>"}"
      | none => if g.ok then some s!"name'{n}':unknownAccepted" else none) ++
    -- every documented name was asked (the harness asks for every name the forward lookup returned)
    (documented.filterMap fun d => if names.contains d.2.1 then none else some s!"name{d.2.1}:notRegistered") ++
    -- one-to-one in both directions on the implementation's own answers
    (codeTbl.filterMap fun (c, g) =>
      if !g.ok then none else
      match nameTbl.find? (fun (n, _) => n == g.s) with
      | some (_, r) => if r.ok && r.n == c then none else some s!"roundtrip:code{c}"
      | none => some s!"roundtrip:code{c}:nameNotAsked") ++
    (nameTbl.filterMap fun (n, g) =>
      if !g.ok then none else
      match codeTbl.find? (fun (c, _) => c == g.n) with
      | some (_, r) => if r.ok && r.s == n then none else some s!"roundtrip:name{n}"
      | none => some s!"roundtrip:name{n}:codeOutOfRange") ++
    -- the two activation entry points accept exactly the documented scalar / module codes
    ((codes.zip (scalarOk.zip moduleOk)).filterMap fun (c, s, m) =>
      let ds := match docOfCode c with | some (_, .scalar) => true | _ => false
      let dm := match docOfCode c with | some (_, .module) => true | _ => false
      if s == ds && m == dm then none else some s!"accepts:code{c}:scalar={s},module={m}")
  let corr := genOk && dCode.isNone && dName.isNone && dScal.isNone && dMod.isNone
  return { corr := corr, spec := problems.isEmpty, nontrivial := codes.length == 256 && names.length > 23,
           cls := if (fldBool inp "fresh").toOption.getD false then "freshFactory" else "defaultFactory",
           sig := (problems.head?).getD "", detail := if problems.isEmpty then cdetail else s!"{problems.take 6}" }

def activationsOps : List (String × Handler) :=
  [("actScalar", hActScalar), ("actModule", hActModule), ("actRegistry", hActRegistry)]

end GoNeat.Driver
