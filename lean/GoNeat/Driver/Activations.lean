/-
  Driver handlers of C18: `actScalar`, `actModule`, `actRegistry`.
  corr: the definitions REGENERATED from the Go source (Gen/ActivationsFloat, Gen/Registry through the registry model)
        reproduce the outputs of the real Go functions - bit for bit for the arithmetic-only activators and the module
        activators, within `Spec.Act.closeTo` for the exp/tanh/sin/pow based ones.  This validates the translator.
  spec: the hand-written specification (Spec/Activations) evaluated on the implementation's outputs: finite, inside
        the documented range, equal to the documented closed form, non-decreasing along the sorted grid where the
        function is documented as monotone; module results are the product / a maximum / a minimum of the inputs;
        the registry maps the documented codes and names onto each other and answers everything else with an error.
-/
import GoNeat.Driver.Json
import GoNeat.Spec.Activations
import GoNeat.Gen.ActivationsFloat
import GoNeat.Gen.Registry
import GoNeat.Model.SolverMod

namespace GoNeat.Driver
open Lean GoNeat.Act GoNeat.Spec.Act

/-- the registry description regenerated from the Go source -/
def genRegistry : Desc :=
  { regWrites := Gen.Registry.registerWrites, modWrites := Gen.Registry.registerModuleWrites,
    lookups := Gen.Registry.lookups, registered := Gen.Registry.registered }

def genOk : Bool := Gen.Registry.untranslated.isEmpty

def fmtF (x : Float) : String :=
  let s := toString x
  (if s.length > 26 then (s.take 26).toString ++ "…" else s) ++ s!"[bits {x.toBits}]"

/-- first index at which `p` fails -/
def firstBad {α} (l : List α) (p : α → Bool) : Option (Nat × α) :=
  (l.zipIdx.find? (fun (a, _) => !p a)).map (fun (a, i) => (i, a))

def hActScalar : Handler := fun j => do
  let inp ← fld j "in"
  let out ← fld j "out"
  let t ← fldNat inp "t"
  let xs ← arrF (← fld inp "xs")
  let ys ← arrF (← fld out "ys")
  let err ← fldStr out "err"
  let doc := (scalarDocs Float).find? (·.code == t)
  let cls := match doc with | some d => d.name | none => "notAScalarType"
  -- model: the closure the regenerated registry selects, in its regenerated Float form
  let modelFn := (genRegistry.scalarOfCode t).bind (fun fn => Gen.ActF.scalarByName.lookup fn)
  let (corr, cdetail) :=
    if !genOk then (false, s!"translator reported untranslated constructs: {Gen.Registry.untranslated}") else
    match modelFn, err with
    | none, "" => (false, "model: unknown type, impl: value")
    | none, _ => (true, "")
    | some _, "" =>
      let exact := match doc with | some d => d.exact | none => true
      let f := modelFn.getD id
      if ys.length != xs.length then (false, "length of ys") else
      match firstBad (xs.zip ys) (fun (x, y) => if exact then (f x).toBits == y.toBits else closeTo (f x) y) with
      | none => (true, "")
      | some (i, (x, y)) => (false, s!"x[{i}]={fmtF x}: generated definition gives {fmtF (f x)}, Go gives {fmtF y} (exact={exact})")
    | some _, e => (false, s!"model: value, impl: error {e}")
  -- specification on the implementation's output
  match doc with
  | none =>
    let ok := err != ""
    return { corr := corr, spec := ok, nontrivial := true, cls := cls, detail := if !ok then s!"type {t} is not a documented scalar activation but ActivateByType returned a value" else cdetail,
             sig := if ok then "" else s!"unknownTypeAccepted:{t}" }
  | some d =>
    if err != "" then
      return { corr := corr, spec := false, cls := cls, sig := s!"{d.name}:error", detail := s!"documented type {t} answered with error {err}" }
    if ys.length != xs.length then throw "ys length"
    let pts := xs.zip ys
    let bad := pts.filter (fun (x, y) => !(y.isFinite && d.inRange y && closeTo (d.f x) y))
    -- consecutive grid points whose outputs decrease (for the functions documented as monotone)
    let drops := if d.mono then (pts.zip pts.tail).filter (fun ((_, y), (_, y')) => !(y ≤ y')) else []
    let mono := drops.isEmpty
    let dropsTiny := drops.all (fun ((_, y), (_, y')) => y - y' ≤ 2.5e-16)
    let sorted := nonDecreasing xs
    -- signature: the step function at -0 is a known finding; anything else is named by function and first bad input
    let sig :=
      if !mono then s!"{d.name}:notMonotone" ++ (if dropsTiny then "(drop<=2.5e-16)" else "")
      else match bad with
        | [] => ""
        | (x, y) :: _ =>
          if d.code == 20 && bad.all (fun (x, y) => x.toBits == (0x8000000000000000 : UInt64) && y.toBits == 0) then "StepActivation(-0)=0"
          else s!"{d.name}:x={fmtF x}"
    let why := match bad with
      | [] => match drops with
        | [] => ""
        | ((x, y), (x', y')) :: _ => s!"not non-decreasing: f({fmtF x}) = {fmtF y} > f({fmtF x'}) = {fmtF y'}"
      | (x, y) :: _ => s!"x={fmtF x}: Go returns {fmtF y}; closed form {fmtF (d.f x)}; finite={y.isFinite} inRange={d.inRange y}"
    return { corr := corr, spec := bad.isEmpty && mono, nontrivial := sorted && xs.length ≥ 50, cls := cls, sig := sig,
             detail := if bad.isEmpty && mono then cdetail else why }

/-! ### `actModule`, sequence form: `network.ActivateModule` on hand-built control nodes, one after another -/

structure SeqMod where
  t : Nat
  inc : List Nat
  out : List Nat

structure SeqNodeSt where
  a : Float
  count : Nat
  active : Bool

def parseSeqNodeSt (j : Json) : E SeqNodeSt := do
  return { a := ← fldF j "a", count := ← fldNat j "count", active := ← fldBool j "active" }

/-- `NodeActivators.ActivateModuleByType` as the regenerated registry and the regenerated Float closures define it -/
def muGen (t : Nat) (xs : List Float) : Option (List Float) :=
  (genRegistry.moduleOfCode t).bind (fun fn => (Gen.ActF.moduleByName.lookup fn).map (fun f => [f xs]))

/-- the hand-built control node: `Incoming` from the source indices, `Outgoing` to the target indices -/
def seqCtrl (m : SeqMod) : NNodeS Float :=
  { id := 0, kind := 0, act := m.t,
    incoming := m.inc.map (fun i => { src := i, dst := 0, w := 1.0, recur := false }),
    outgoing := m.out.map (fun i => { src := 0, dst := i, w := 1.0, recur := false }) }

def seqErrCls : Option Solver.Err → String
  | none => ""
  | some .unknownModAct => "unknown"
  | some .moduleOutLen => "outLen"
  | some _ => "other"

def seqSame (x : NState Float) (g : SeqNodeSt) : Bool :=
  x.activation.toBits == g.a.toBits && x.count == g.count && x.isActive == g.active

/-- model run: `SolverMod.activateModule` of every control node in order on ONE state; first difference to the dump -/
def seqModelDiff : List (SeqMod × String × List SeqNodeSt) → Nat → Solver.St Float → Solver.St Float × Option String
  | [], _, s => (s, none)
  | (m, err, outs) :: rest, k, s =>
    let (s2, e) := SolverMod.activateModule muGen (seqCtrl m) s
    if seqErrCls e != err then (s2, some s!"module {k}: model err '{seqErrCls e}', Go err '{err}'")
    else if outs.length != m.out.length then (s2, some s!"module {k}: dump of {outs.length} output nodes for {m.out.length}")
    else match (m.out.zip outs).find? (fun (i, g) => !seqSame (Solver.get s2 i) g) with
      | some (i, g) =>
        let x := Solver.get s2 i
        (s2, some s!"module {k} (type {m.t}, inputs {SolverMod.moduleInputs (seqCtrl m) s |>.map fmtF}): output node {i}: model {fmtF x.activation} count {x.count} active {x.isActive}, Go {fmtF g.a} count {g.count} active {g.active}")
      | none => seqModelDiff rest (k + 1) s2

def setAt (l : List Float) (i : Nat) (v : Float) : List Float := l.set i v

/-- the C18 predicate on the IMPLEMENTATION's values: every documented module with exactly one output node wrote the
    product / a maximum / a minimum of ITS OWN inputs (the active outputs of its `Incoming` sources at the time of the
    call, taken from the implementation's own earlier dumps) to that node, activated it once; every other module
    (0 or 2 output nodes, undocumented type) answered with an error and left its output nodes untouched.
    Returns the first violation as (signature, detail). -/
def seqSpec (shape : String) : List (SeqMod × String × List SeqNodeSt) → Nat → Option Nat → List Float → Option (String × String)
  | [], _, _, _ => none
  | (m, err, outs) :: rest, k, prevFan, vals =>
    let xs := m.inc.map (fun i => vals.getD i 0.0)
    let after := match prevFan with
      | some p => if m.inc.length < p then "narrowerAfterWider" else "widerAfterNarrower"
      | none => "first"
    let untouched := outs.all (fun o => o.count == 0 && !o.active && o.a.toBits == 0)
    match moduleDocs.lookup m.t with
    | none =>
      if err != "" && untouched then seqSpec shape rest (k + 1) (some m.inc.length) vals
      else some (s!"seq:unknownModuleTypeAccepted:{m.t}", s!"module {k}: type {m.t} is not a module activation but err='{err}', output nodes touched={!untouched}")
    | some name =>
      match m.out, outs with
      | [d], [o] =>
        let good := err == "" && o.active && o.count == 1 &&
          (if m.t == 21 then o.a.toBits == (prodF xs).toBits else if m.t == 22 then isMaxOf o.a xs else isMinOf o.a xs)
        if good then seqSpec shape rest (k + 1) (some m.inc.length) (setAt vals d o.a)
        else some (s!"seq:{name}/{after}",
          s!"module {k} of the sequence ({shape}): {name} over its own {xs.length} inputs {xs.map fmtF} wrote {fmtF o.a} (count {o.count}, active {o.active}, err='{err}') to its output node; previous module had fan-in {prevFan}")
      | _, _ =>
        if err == "outLen" && untouched && outs.length == m.out.length then seqSpec shape rest (k + 1) (some m.inc.length) vals
        else some (s!"seq:{name}/outLen", s!"module {k}: {name} with {m.out.length} output nodes: err='{err}', output nodes touched={!untouched}")

def hActModuleSeq (inp out : Json) : E Verdict := do
  let shape ← fldStr inp "shape"
  let nodes ← (← fldArr inp "nodes").mapM (fun j => do return ((← fldF j "v"), (← fldBool j "loaded")))
  let mods ← (← fldArr inp "mods").mapM (fun j => do
    return ({ t := ← fldNat j "t", inc := ← arrNat (← fld j "inc"), out := ← arrNat (← fld j "out") } : SeqMod))
  let res ← (← fldArr out "mods").mapM (fun j => do
    return ((← fldStr j "err"), (← (← fldArr j "outs").mapM parseSeqNodeSt)))
  let final ← (← fldArr out "final").mapM parseSeqNodeSt
  if res.length != mods.length || final.length != nodes.length then throw "actModule sequence dump: lengths"
  let run := mods.zip res |>.map (fun (m, e, o) => (m, e, o))
  -- model
  let s0 : Solver.St Float := nodes.map (fun (v, loaded) => if loaded then Solver.sensorLoad v NState.fresh else NState.fresh)
  let (sEnd, d) := seqModelDiff run 0 s0
  let cdetail :=
    if !genOk then s!"translator reported untranslated constructs: {Gen.Registry.untranslated}" else
    match d with
    | some e => e
    | none =>
      match ((List.range nodes.length).zip final).find? (fun (i, g) => !seqSame (Solver.get sEnd i) g) with
      | some (i, g) => s!"final state of node {i}: model {fmtF (Solver.get sEnd i).activation} count {(Solver.get sEnd i).count}, Go {fmtF g.a} count {g.count} active {g.active}"
      | none => ""
  -- the wiring must be inside the node table and no node may be the target of two links (what the generator builds)
  let wired := mods.all (fun m => (m.inc ++ m.out).all (· < nodes.length)) && (mods.flatMap (·.out)).Nodup
  let fans := mods.map (·.inc.length)
  let vals0 := nodes.map (fun (v, loaded) => if loaded then v else 0.0)
  let viol := seqSpec shape run 0 none vals0
  return { corr := cdetail == "", spec := viol.isNone, nontrivial := wired && mods.length ≥ 2 && fans.Nodup,
           cls := s!"seq/{shape}/{mods.length}", sig := (viol.map (·.1)).getD "",
           detail := match viol with | some (_, dt) => dt | none => cdetail }

def hActModule : Handler := fun j => do
  let inp ← fld j "in"
  let out ← fld j "out"
  if (inp.getObjVal? "seq").isOk then return ← hActModuleSeq inp out
  let t ← fldNat inp "t"
  let fam ← fldStr inp "family"
  let xs ← arrF (← fld inp "xs")
  let ys ← arrF (← fld out "ys")
  let err ← fldStr out "err"
  let intact ← fldBool out "inputsIntact"
  let docName := moduleDocs.lookup t
  let cls := (docName.getD "notAModuleType") ++ "/" ++ fam ++ (if xs.length == 1 then "/single" else "")
  let modelFn := (genRegistry.moduleOfCode t).bind (fun fn => Gen.ActF.moduleByName.lookup fn)
  let (corr, cdetail) :=
    if !genOk then (false, s!"translator reported untranslated constructs: {Gen.Registry.untranslated}") else
    match modelFn, err with
    | none, "" => (false, "model: unknown type, impl: value")
    | none, _ => (true, "")
    | some f, "" =>
      match ys with
      | [y] => if (f xs).toBits == y.toBits then (true, "") else (false, s!"generated definition gives {fmtF (f xs)}, Go gives {fmtF y}")
      | _ => (false, "impl returned not exactly one value")
    | some _, e => (false, s!"model: value, impl: error {e}")
  match docName with
  | none =>
    let ok := err != ""
    return { corr := corr, spec := ok, cls := cls, detail := if ok then cdetail else s!"type {t} is not a module activation but a value was returned",
             sig := if ok then "" else s!"unknownModuleTypeAccepted:{t}" }
  | some name =>
    let ok := match err, ys with
      | "", [y] =>
        intact && (if t == 21 then y.toBits == (prodF xs).toBits
                   else if t == 22 then isMaxOf y xs else isMinOf y xs)
      | _, _ => false
    return { corr := corr, spec := ok, nontrivial := !xs.isEmpty, cls := cls,
             sig := if ok then "" else s!"{name}/{fam}",
             detail := if ok then cdetail else s!"{name} of {xs.map fmtF} returned {ys.map fmtF} err={err} inputsIntact={intact}" }

structure JLookup where
  ok : Bool
  s : String
  n : Nat

def parseLookup (j : Json) : E JLookup := do
  return { ok := ← fldBool j "ok", s := ← fldStr j "s", n := ← fldNat j "n" }

def hActRegistry : Handler := fun j => do
  let inp ← fld j "in"
  let out ← fld j "out"
  let codes ← arrNat (← fld inp "codes")
  let names ← (← fldArr inp "names").mapM (fun v => v.getStr?)
  let byCode ← (← fldArr out "byCode").mapM parseLookup
  let byName ← (← fldArr out "byName").mapM parseLookup
  let scalarOk ← (← fldArr out "scalarOk").mapM (fun v => v.getBool?)
  let moduleOk ← (← fldArr out "moduleOk").mapM (fun v => v.getBool?)
  if byCode.length != codes.length || byName.length != names.length || scalarOk.length != codes.length || moduleOk.length != codes.length then
    throw "registry dump: lengths"
  -- model
  let mCode := codes.map (fun c => genRegistry.nameOfCode c)
  let mName := names.map (fun n => genRegistry.codeOfName n)
  let dCode := (codes.zip (mCode.zip byCode)).find? (fun (_, m, g) => m != (if g.ok then some g.s else none))
  let dName := (names.zip (mName.zip byName)).find? (fun (_, m, g) => m != (if g.ok then some g.n else none))
  let dScal := (codes.zip scalarOk).find? (fun (c, g) => (genRegistry.scalarOfCode c).isSome != g)
  let dMod := (codes.zip moduleOk).find? (fun (c, g) => (genRegistry.moduleOfCode c).isSome != g)
  let cdetail :=
    if !genOk then s!"translator reported untranslated constructs: {Gen.Registry.untranslated}"
    else match dCode, dName, dScal, dMod with
    | some (c, m, g), _, _, _ => s!"name of type {c}: model {m}, impl ok={g.ok} {g.s}"
    | _, some (n, m, g), _, _ => s!"type of name {n}: model {m}, impl ok={g.ok} {g.n}"
    | _, _, some (c, g), _ => s!"ActivateByType({c}) accepted: impl {g}"
    | _, _, _, some (c, g) => s!"ActivateModuleByType({c}) accepted: impl {g}"
    | _, _, _, _ => ""
  -- specification on the implementation's answers
  let codeTbl := codes.zip byCode
  let nameTbl := names.zip byName
  let problems : List String :=
    -- every code: documented ⇒ its documented name; otherwise an error
    (codeTbl.filterMap fun (c, g) =>
      match docOfCode c with
      | some (n, _) => if g.ok && g.s == n then none else some s!"code{c}:name={if g.ok then g.s else "<error>"}"
      | none => if g.ok then some s!"code{c}:undocumentedAccepted" else none) ++
    -- every name asked: documented ⇒ its code; otherwise an error
    (nameTbl.filterMap fun (n, g) =>
      match documented.find? (fun d => d.2.1 == n) with
      | some d => if g.ok && g.n == d.1 then none else some s!"name{n}:code={if g.ok then toString g.n else "<error>"}"
      | none => if g.ok then some s!"name'{n}':unknownAccepted" else none) ++
    -- every documented name was asked (the harness asks for every name the forward lookup returned)
    (documented.filterMap fun d => if names.contains d.2.1 then none else some s!"name{d.2.1}:notRegistered") ++
    -- one-to-one in both directions on the implementation's own answers
    (codeTbl.filterMap fun (c, g) =>
      if !g.ok then none else
      match nameTbl.find? (fun (n, _) => n == g.s) with
      | some (_, r) => if r.ok && r.n == c then none else some s!"roundtrip:code{c}"
      | none => some s!"roundtrip:code{c}:nameNotAsked") ++
    (nameTbl.filterMap fun (n, g) =>
      if !g.ok then none else
      match codeTbl.find? (fun (c, _) => c == g.n) with
      | some (_, r) => if r.ok && r.s == n then none else some s!"roundtrip:name{n}"
      | none => some s!"roundtrip:name{n}:codeOutOfRange") ++
    -- the two activation entry points accept exactly the documented scalar / module codes
    ((codes.zip (scalarOk.zip moduleOk)).filterMap fun (c, s, m) =>
      let ds := match docOfCode c with | some (_, .scalar) => true | _ => false
      let dm := match docOfCode c with | some (_, .module) => true | _ => false
      if s == ds && m == dm then none else some s!"accepts:code{c}:scalar={s},module={m}")
  let corr := genOk && dCode.isNone && dName.isNone && dScal.isNone && dMod.isNone
  return { corr := corr, spec := problems.isEmpty, nontrivial := codes.length == 256 && names.length > 23,
           cls := if (fldBool inp "fresh").toOption.getD false then "freshFactory" else "defaultFactory",
           sig := (problems.head?).getD "", detail := if problems.isEmpty then cdetail else s!"{problems.take 6}" }

def activationsOps : List (String × Handler) :=
  [("actScalar", hActScalar), ("actModule", hActModule), ("actRegistry", hActRegistry)]

end GoNeat.Driver
