/-
  Driver handlers of C16 / C17 ops that run the real executors over whole runs:
  `parEpochs` (ParallelPopulationEpochExecutor, population guarantees on every generation of the run and
  innovation consistency accumulated over the run) and `twinRun` (byte-for-byte reproducibility of the sequential run).
-/
import GoNeat.Driver.Population
import GoNeat.Spec.ParInv

namespace GoNeat.Driver
open Lean

def hParEpochs : Handler := fun j => do
  let inp ← fld j "in"
  let out ← fld j "out"
  let o ← parseEpochOpts (← fld inp "opts")
  let n := o.popSize
  let procs ← fldNat inp "procs"
  let spClass ← fldStr inp "speciesClass"
  let popsJ ← fldArr out "pops"
  let pops ← popsJ.mapM parsePop
  let fresh ← (← fldArr out "fresh").mapM (fun x => x.getStr?)
  let verify := (← fldArr out "verify").map (fun (x : Json) => match x with | .str s => s | _ => "")
  let implErr := optStr out "err"
  let errAt := (fldInt out "errAt").toOption.getD (-1)
  let cls := s!"{spClass}:procs={procs}" ++ (if implErr.isSome then ":err" else "")
  -- the spawned population must be a valid input (otherwise the case says nothing about the executor)
  let validPop (pj : Json) (p : Pop Float) : Bool :=
    popHeapOk pj && PopSpec.popInvB p n && p.species.all (fun s => s.orgs.all (fun x => decide (WF x.genome))) && PopSpec.fitnessOk p
  match popsJ, pops with
  | pj0 :: _, p0 :: _ =>
    if !validPop pj0 p0 then
      return { corr := true, spec := true, nontrivial := false, cls := cls ++ ":invalidSpawn" }
    else
      -- walk the run
      let rec walk (i : Nat) : List Json → List (Pop Float) → String
        | _ :: bj :: restJ, a :: b :: rest =>
          let why :=
            if !popHeapOk bj then "organism back pointer / genome ownership broken after parallel epoch"
            else
              let w := ParSpec.epochWhy a b n
              if w != "" then w
              else if (fresh[i]?).getD "" != "" then (fresh[i]?).getD ""
              else if (verify[i]?).getD "" != "" then "Population.Verify fails: " ++ (verify[i]?).getD ""
              else ""
          if why != "" then s!"epoch {i + 1}: {why}" else walk (i + 1) (bj :: restJ) (b :: rest)
        | _, _ => ""
      let stepWhy := walk 0 popsJ pops
      let runWhy := if stepWhy != "" then stepWhy else
        let r := ParSpec.runInnovWhy pops
        if r != "" then r else ParSpec.speciesIdsWhy pops
      let errWhy := match implErr with
        | some e => s!"parallel epoch {errAt + 1} failed on a valid population: {e}"
        | none => ""
      let why := if runWhy != "" then runWhy else errWhy
      let multi := (pops.zip (pops.drop 1)).any (fun (a, b) => a.species.length ≥ 2 && b.reg.nextInn > a.reg.nextInn)
      return { corr := true, spec := why == "", nontrivial := multi, cls := cls, detail := why,
               sig := if why == "" then "" else (if implErr.isSome && runWhy == "" then "parEpochs:error:" ++ implErr.getD "" else "parEpochs:guarantee"),
               props := [("C16", why == "", why, if implErr.isSome && runWhy == "" then "parEpochs:error:" ++ implErr.getD "" else "parEpochs:guarantee")] }
  | _, _ => return { corr := true, spec := true, nontrivial := false, cls := cls ++ ":empty" }

def hTwinRun : Handler := fun j => do
  let inp ← fld j "in"
  let out ← fld j "out"
  let diff ← fldStr out "diff"
  let childErr ← fldStr out "childErr"
  let hashesA ← (← fldArr out "hashesA").mapM (fun x => x.getStr?)
  let hashesB ← match fldOpt out "hashesB" with
    | some a => do (← a.getArr?).toList.mapM (fun x => x.getStr?)
    | none => pure []
  let hashesC ← match fldOpt out "hashesC" with
    | some a => do (← a.getArr?).toList.mapM (fun x => x.getStr?)
    | none => pure []
  let species ← fldNat out "species"
  let implErr := optStr out "err"
  let origin ← fldStr inp "origin"
  -- re-derive the verdict from the hashes themselves (the harness's `diff` only explains it)
  let eqB := hashesA == hashesB
  let eqC := childErr != "" || hashesA == hashesC
  let why := if !eqB then (if diff != "" then diff else "run B differs from run A")
             else if !eqC then (if diff != "" then diff else "run C differs from run A")
             else if diff != "" then diff else ""
  return { corr := childErr == "", spec := why == "", nontrivial := hashesA.length ≥ 3 && species ≥ 2,
           cls := origin ++ (if implErr.isSome then ":err" else "") ++ (if childErr != "" then ":nochild" else ""),
           detail := if why != "" then why else childErr, sig := if why == "" then "" else "twinRun:differs",
           props := [("C17", why == "", why, "twinRun:differs")] }

def parallelOps : List (String × Handler) := [("parEpochs", hParEpochs), ("twinRun", hTwinRun)]

end GoNeat.Driver
