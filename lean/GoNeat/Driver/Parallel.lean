/-
  Driver handlers of C16 / C17 ops that run the real executors over whole runs:
  `parEpochs` (ParallelPopulationEpochExecutor, population guarantees on every generation of the run and
  innovation consistency accumulated over the run) and `twinRun` (byte-for-byte reproducibility of the sequential run).
-/
import GoNeat.Driver.Population
import GoNeat.Spec.ParInv
import GoNeat.Model.ParEpoch

namespace GoNeat.Driver
open Lean

def hParEpochs : Handler := fun j => do
  let inp ← fld j "in"
  let out ← fld j "out"
  let o ← parseEpochOpts (← fld inp "opts")
  let n := o.popSize
  let procs ← fldNat inp "procs"
  let spClass ← fldStr inp "speciesClass"
  let popsJ ← fldArr out "pops"
  let pops ← popsJ.mapM parsePop
  let fresh ← (← fldArr out "fresh").mapM (fun x => x.getStr?)
  let verify := (← fldArr out "verify").map (fun (x : Json) => match x with | .str s => s | _ => "")
  let implErr := optStr out "err"
  let errAt := (fldInt out "errAt").toOption.getD (-1)
  let cls := s!"{spClass}:procs={procs}" ++ (if implErr.isSome then ":err" else "")
  -- the spawned population must be a valid input (otherwise the case says nothing about the executor)
  let validPop (pj : Json) (p : Pop Float) : Bool :=
    popHeapOk pj && PopSpec.popInvB p n && p.species.all (fun s => s.orgs.all (fun x => decide (WF x.genome))) && PopSpec.fitnessOk p
  match popsJ, pops with
  | pj0 :: _, p0 :: _ =>
    if !validPop pj0 p0 then
      return { corr := true, spec := true, nontrivial := false, cls := cls ++ ":invalidSpawn" }
    else
      -- walk the run
      let rec walk (i : Nat) : List Json → List (Pop Float) → String
        | _ :: bj :: restJ, a :: b :: rest =>
          let why :=
            if !popHeapOk bj then "organism back pointer / genome ownership broken after parallel epoch"
            else
              let w := ParSpec.epochWhy a b n
              if w != "" then w
              else if (fresh[i]?).getD "" != "" then (fresh[i]?).getD ""
              else if (verify[i]?).getD "" != "" then "Population.Verify fails: " ++ (verify[i]?).getD ""
              else ""
          if why != "" then s!"epoch {i + 1}: {why}" else walk (i + 1) (bj :: restJ) (b :: rest)
        | _, _ => ""
      let stepWhy := walk 0 popsJ pops
      let runWhy := if stepWhy != "" then stepWhy else
        let r := ParSpec.runInnovWhy pops
        if r != "" then r else ParSpec.speciesIdsWhy pops
      let errWhy := match implErr with
        | some e => s!"parallel epoch {errAt + 1} failed on a valid population: {e}"
        | none => ""
      let why := if runWhy != "" then runWhy else errWhy
      let multi := (pops.zip (pops.drop 1)).any (fun (a, b) => a.species.length ≥ 2 && b.reg.nextInn > a.reg.nextInn)
      return { corr := true, spec := why == "", nontrivial := multi, cls := cls, detail := why,
               sig := if why == "" then "" else (if implErr.isSome && runWhy == "" then "parEpochs:error:" ++ implErr.getD "" else "parEpochs:guarantee"),
               props := [("C16", why == "", why, if implErr.isSome && runWhy == "" then "parEpochs:error:" ++ implErr.getD "" else "parEpochs:guarantee"),
                         -- C02 does not name an executor: its guarantees (size, partition, fresh generation, ids, ages, no error
                         -- on a valid population) evaluated on the parallel executor's turnovers
                         (let stepWhy := if (stepWhy.splitOn "shared by the reproduction goroutines").length > 1 then "" else stepWhy  -- that clause is C16's
                          let c02 := if stepWhy != "" then stepWhy else
                                       (let r := ParSpec.speciesIdsWhy pops; if r != "" then r else errWhy)
                          ("C02", c02 == "", c02, if implErr.isSome && stepWhy == "" then "parEpochs:error:" ++ implErr.getD "" else "parEpochs:guarantee"))] }
  | _, _ => return { corr := true, spec := true, nontrivial := false, cls := cls ++ ":empty" }

def hTwinRun : Handler := fun j => do
  let inp ← fld j "in"
  let out ← fld j "out"
  let diff ← fldStr out "diff"
  let childErr ← fldStr out "childErr"
  let hashesA ← (← fldArr out "hashesA").mapM (fun x => x.getStr?)
  let hashesB ← match fldOpt out "hashesB" with
    | some a => do (← a.getArr?).toList.mapM (fun x => x.getStr?)
    | none => pure []
  let hashesC ← match fldOpt out "hashesC" with
    | some a => do (← a.getArr?).toList.mapM (fun x => x.getStr?)
    | none => pure []
  let species ← fldNat out "species"
  let implErr := optStr out "err"
  let origin ← fldStr inp "origin"
  -- re-derive the verdict from the hashes themselves (the harness's `diff` only explains it)
  let eqB := hashesA == hashesB
  let eqC := childErr != "" || hashesA == hashesC
  let why := if !eqB then (if diff != "" then diff else "run B differs from run A")
             else if !eqC then (if diff != "" then diff else "run C differs from run A")
             else if diff != "" then diff else ""
  return { corr := childErr == "", spec := why == "", nontrivial := hashesA.length ≥ 3 && species ≥ 2,
           cls := origin ++ (if implErr.isSome then ":err" else "") ++ (if childErr != "" then ":nochild" else ""),
           detail := if why != "" then why else childErr, sig := if why == "" then "" else "twinRun:differs",
           props := [("C17", why == "", why, "twinRun:differs")] }

/-! ### `parInterleave`: co-simulation of the NON-ATOMIC model (Model/ParEpoch.lean) under interference -/

def ilKindName : Nat → String
  | 0 => "snapshot" | 1 => "nextNode" | 2 => "nextInn" | 3 => "store" | _ => "?"

/-- the registry operation a thread of the model is blocked on -/
def ilProgKind {α : Type} : C16.Prog Float α → String
  | .done _ => "returned" | .snap _ => "snapshot" | .nextNode _ => "nextNode" | .nextInn _ => "nextInn" | .store _ _ => "store"

/-- what the operation the model's thread is blocked on exchanges with the registry: the number of records a snapshot
    sees, the number a counter returns, the record a store appends -/
def ilStepWhy {α : Type} (p : C16.Prog Float α) (reg : Reg Float) (v : Int) (recJ : Option Json) : Option String :=
  match p with
  | .snap _ => if (reg.records.length : Int) == v then none else some s!"snapshot sees {reg.records.length} records in the model, {v} in the implementation"
  | .nextNode _ => if reg.nextNodeId.1 == v then none else some s!"NextNodeId returns {reg.nextNodeId.1} in the model, {v} in the implementation"
  | .nextInn _ => if reg.nextInnovation.1 == v then none else some s!"NextInnovationNumber returns {reg.nextInnovation.1} in the model, {v} in the implementation"
  | .store i _ =>
    match recJ with
    | none => some "trace entry of a store without the record"
    | some rj => (jsonDiff "record" (jInnov i) rj).map (fun d => "stored record differs (model vs implementation): " ++ d)
  | .done _ => none

/-- follow the trace: one scheduler pick (`pstep`) per entry; the first entry at which the model's thread is not blocked on
    the operation the implementation performed (or exchanges another value with the registry) stops the walk -/
def ilWalk (st : C16.PState Float (C16.MRes Float)) : List (Nat × Nat × Int × Option Json) → Nat →
    Except String (C16.PState Float (C16.MRes Float))
  | [], _ => .ok st
  | (ti, k, v, recJ) :: rest, n =>
    match st.threads[ti]? with
    | none => .error s!"step {n}: trace names thread {ti}, which does not exist"
    | some p =>
      if ilProgKind p != ilKindName k then
        .error s!"step {n}: thread {ti} performs {ilKindName k} in the implementation, the model's thread {ti} is at: {ilProgKind p}"
      else match ilStepWhy p st.reg v recJ with
        | some d => .error s!"step {n}: thread {ti} {ilKindName k}: {d}"
        | none => ilWalk (C16.pstep st ti) rest (n + 1)

/-- `parInterleave`: nested interleavings of structural mutations on one shared registry.
    corr: every thread's `Prog` (mutateAddNodeP / mutateAddLinkP / mutateConnectSensorsP on its input genome with the raw
    random values the implementation's thread consumed) is stepped with `pstep` along the recorded trace of registry
    operations; every step must be the operation the model's thread is blocked on, with the same value exchanged; at the end
    every thread has returned with the implementation's flag / error class / genome / number of raw values consumed, and the
    registry (records in order, both counters) is the implementation's.
    spec: the guarantees of C16 (b) on the implementation's genomes: every genome well-formed, one innovation number = one
    link and one node id = one role across ALL genomes, numbers first seen in this round above the counters of its start -/
def hParInterleave : Handler := fun j => do
  let inp ← fld j "in"
  let out ← fld j "out"
  let thsIn ← fldArr inp "threads"
  let thsOut ← fldArr out "threads"
  let before ← thsIn.mapM (fun t => do parseGenome (← fld t "g"))
  let afterJ ← thsOut.mapM (fun t => fld t "g")
  let after ← afterJ.mapM parseGenome
  let reg0 ← parseReg (← fld inp "reg")
  let implReg ← parseReg (← fld out "reg")
  let o ← parseMutOpts (← fld inp "opts")
  let regMode ← fldStr inp "regMode"
  -- the model's threads
  let progs ← (thsIn.zip before).mapM (fun ((t, g) : Json × Genome Float) => do
    let kind ← fldNat t "kind"
    let rs ← arrNat (← fld t "rand")
    let mk : C16.MutKind Float := match kind with | 0 => .addNode o | 1 => .addLink o | _ => .connectSensors
    pure (mk.prog g rs, rs.length))
  let trace ← (← fldArr out "trace").mapM (fun e => do
    pure ((← fldNat e "t"), (← fldNat e "k"), (← fldInt e "v"), fldOpt e "rec"))
  let st0 : C16.PState Float (C16.MRes Float) := { reg := reg0, threads := progs.map (·.1) }
  let corrWhy : String ←
    match ilWalk st0 trace 0 with
    | .error d => pure d
    | .ok st =>
      -- every thread must have returned, with the implementation's result
      let rec cmp (i : Nat) : List (C16.Prog Float (C16.MRes Float)) → List Json → List Json → List Nat → E String
        | p :: ps, ti :: tis, tout :: touts, len :: lens => do
          let implErr := optStr tout "err"
          let implOk ← fldBool tout "ok"
          let implG ← parseGenome (← fld tout "g")
          let consumed ← fldNat ti "consumed"
          let why : String :=
            match p with
            | .done r =>
              match r, implErr with
              | .error e, some ie => if stopStr e == ie then "" else s!"error class: model {stopStr e} vs impl {ie}"
              | .error e, none => s!"model stops ({stopStr e}) but impl succeeds"
              | .ok _, some ie => s!"impl fails ({ie}) but model succeeds"
              | .ok ((g', b), rest), none =>
                match jsonDiff "g" (jGenome g') (jGenome implG) with
                | some d => d
                | none =>
                  if b != implOk then s!"result flag: model {b} vs impl {implOk}"
                  else if len - rest.length != consumed then s!"randomness: model consumed {len - rest.length} raw values, impl {consumed}"
                  else ""
            | q => s!"after the last trace entry the model's thread is still at: {ilProgKind q} (the implementation's thread has returned)"
          if why != "" then pure s!"thread {i}: {why}" else cmp (i + 1) ps tis touts lens
        | [], [], [], [] => pure ""
        | _, _, _, _ => pure "thread lists of different lengths"
      let w ← cmp 0 st.threads thsIn thsOut (progs.map (·.2))
      if w != "" then pure w
      else match jsonDiff "reg" (jReg st.reg) (jReg implReg) with
        | some d => pure ("registry after the last step: " ++ d)
        | none => pure ""
  let inputOk := before.all (fun g => decide (WF g))
  let genes := after.flatMap (·.genes)
  let nodes := after.flatMap (·.nodes)
  let oldInns := before.flatMap (fun g => g.genes.map (·.inn))
  let oldNodes := before.flatMap (fun g => g.nodes.map (·.id))
  let firstOf (inn : Int) := genes.find? (·.inn == inn)
  let why : String :=
    if !inputOk then ""
    else match after.find? (fun g => !decide (WF g)) with
      | some g => "genome " ++ toString g.id ++ " not well-formed after interleaved mutations: " ++ wfWhy g
      | none =>
        if !(afterJ.all ownBitsOk) then "genome ownership broken"
        else if genes.any (fun x => match firstOf x.inn with | some y => !(x.sameLink y) | none => false)
          then "one innovation number carried by two different links"
        else if nodes.any (fun n => nodes.any (fun m => m.id == n.id && m.kind != n.kind)) then "one node id with two roles"
        else if genes.any (fun x => !oldInns.contains x.inn && !reg0.records.any (fun r => r.inn == x.inn || r.inn2 == x.inn) && x.inn ≤ reg0.nextInn)
          then "innovation number issued in this round is not above the counter at its start"
        else if nodes.any (fun n => !oldNodes.contains n.id && !reg0.records.any (fun r => r.newNode == n.id) && n.id ≤ reg0.nextNode)
          then "node id issued in this round is not above the counter at its start"
        else ""
  let nOk := (thsOut.filter (fun t => (fldBool t "ok").toOption.getD false)).length
  let nestedL : List Bool := thsOut.map (fun t => decide ((fldInt t "nested").toOption.getD (-1) ≥ 0))
  let nested := (nestedL.filter id).length
  -- nesting depth: the longest chain thread i interrupted by i+1 interrupted by i+2 ...
  let depth := (nestedL.foldl (fun (acc : Nat × Nat) b => if b then (acc.1 + 1, max acc.2 (acc.1 + 1)) else (0, acc.2)) (0, 0)).2
  -- same choice under interference: two records of this round for one link / one split (different numbers)
  let newRecs := implReg.records.drop reg0.records.length
  let dup := newRecs.any (fun a => (newRecs.filter (fun b => b.typ == a.typ && b.inId == a.inId && b.outId == a.outId &&
                                                         b.oldInn == a.oldInn && b.recur == a.recur)).length ≥ 2)
  -- a thread that found a matching record: a snapshot, success, and no store of its own
  let matched := (List.range thsOut.length).any (fun i =>
    trace.any (fun e => e.1 == i && e.2.1 == 0) && !trace.any (fun e => e.1 == i && e.2.1 == 3) &&
    ((thsOut[i]?).map (fun t => (fldBool t "ok").toOption.getD false)).getD false)
  return { corr := corrWhy == "", spec := why == "", nontrivial := inputOk && nOk ≥ 2 && nested ≥ 1,
           cls := s!"threads={thsOut.length}:depth={depth}:{regMode}" ++ (if dup then ":sameChoice" else "") ++ (if matched then ":matched" else ""),
           detail := if corrWhy != "" then corrWhy else why, sig := if why == "" then "" else "parInterleave:" ++ why,
           props := [("C16", why == "", why, "parInterleave"), ("C03", why == "", why, "parInterleave")] }

def parallelOps : List (String × Handler) := [("parEpochs", hParEpochs), ("twinRun", hTwinRun), ("parInterleave", hParInterleave)]

end GoNeat.Driver
