/-
  Driver handlers of C16 / C17 ops that run the real executors over whole runs:
  `parEpochs` (ParallelPopulationEpochExecutor, population guarantees on every generation of the run and
  innovation consistency accumulated over the run) and `twinRun` (byte-for-byte reproducibility of the sequential run).
-/
import GoNeat.Driver.Population
import GoNeat.Spec.ParInv

namespace GoNeat.Driver
open Lean

def hParEpochs : Handler := fun j => do
  let inp ← fld j "in"
  let out ← fld j "out"
  let o ← parseEpochOpts (← fld inp "opts")
  let n := o.popSize
  let procs ← fldNat inp "procs"
  let spClass ← fldStr inp "speciesClass"
  let popsJ ← fldArr out "pops"
  let pops ← popsJ.mapM parsePop
  let fresh ← (← fldArr out "fresh").mapM (fun x => x.getStr?)
  let verify := (← fldArr out "verify").map (fun (x : Json) => match x with | .str s => s | _ => "")
  let implErr := optStr out "err"
  let errAt := (fldInt out "errAt").toOption.getD (-1)
  let cls := s!"{spClass}:procs={procs}" ++ (if implErr.isSome then ":err" else "")
  -- the spawned population must be a valid input (otherwise the case says nothing about the executor)
  let validPop (pj : Json) (p : Pop Float) : Bool :=
    popHeapOk pj && PopSpec.popInvB p n && p.species.all (fun s => s.orgs.all (fun x => decide (WF x.genome))) && PopSpec.fitnessOk p
  match popsJ, pops with
  | pj0 :: _, p0 :: _ =>
    if !validPop pj0 p0 then
      return { corr := true, spec := true, nontrivial := false, cls := cls ++ ":invalidSpawn" }
    else
      -- walk the run
      let rec walk (i : Nat) : List Json → List (Pop Float) → String
        | _ :: bj :: restJ, a :: b :: rest =>
          let why :=
            if !popHeapOk bj then "organism back pointer / genome ownership broken after parallel epoch"
            else
              let w := ParSpec.epochWhy a b n
              if w != "" then w
              else if (fresh[i]?).getD "" != "" then (fresh[i]?).getD ""
              else if (verify[i]?).getD "" != "" then "Population.Verify fails: " ++ (verify[i]?).getD ""
              else ""
          if why != "" then s!"epoch {i + 1}: {why}" else walk (i + 1) (bj :: restJ) (b :: rest)
        | _, _ => ""
      let stepWhy := walk 0 popsJ pops
      let runWhy := if stepWhy != "" then stepWhy else
        let r := ParSpec.runInnovWhy pops
        if r != "" then r else ParSpec.speciesIdsWhy pops
      let errWhy := match implErr with
        | some e => s!"parallel epoch {errAt + 1} failed on a valid population: {e}"
        | none => ""
      let why := if runWhy != "" then runWhy else errWhy
      let multi := (pops.zip (pops.drop 1)).any (fun (a, b) => a.species.length ≥ 2 && b.reg.nextInn > a.reg.nextInn)
      return { corr := true, spec := why == "", nontrivial := multi, cls := cls, detail := why,
               sig := if why == "" then "" else (if implErr.isSome && runWhy == "" then "parEpochs:error:" ++ implErr.getD "" else "parEpochs:guarantee"),
               props := [("C16", why == "", why, if implErr.isSome && runWhy == "" then "parEpochs:error:" ++ implErr.getD "" else "parEpochs:guarantee"),
                         -- C02 does not name an executor: its guarantees (size, partition, fresh generation, ids, ages, no error
                         -- on a valid population) evaluated on the parallel executor's turnovers
                         (let stepWhy := if (stepWhy.splitOn "shared by the reproduction goroutines").length > 1 then "" else stepWhy  -- that clause is C16's
                          let c02 := if stepWhy != "" then stepWhy else
                                       (let r := ParSpec.speciesIdsWhy pops; if r != "" then r else errWhy)
                          ("C02", c02 == "", c02, if implErr.isSome && stepWhy == "" then "parEpochs:error:" ++ implErr.getD "" else "parEpochs:guarantee"))] }
  | _, _ => return { corr := true, spec := true, nontrivial := false, cls := cls ++ ":empty" }

def hTwinRun : Handler := fun j => do
  let inp ← fld j "in"
  let out ← fld j "out"
  let diff ← fldStr out "diff"
  let childErr ← fldStr out "childErr"
  let hashesA ← (← fldArr out "hashesA").mapM (fun x => x.getStr?)
  let hashesB ← match fldOpt out "hashesB" with
    | some a => do (← a.getArr?).toList.mapM (fun x => x.getStr?)
    | none => pure []
  let hashesC ← match fldOpt out "hashesC" with
    | some a => do (← a.getArr?).toList.mapM (fun x => x.getStr?)
    | none => pure []
  let species ← fldNat out "species"
  let implErr := optStr out "err"
  let origin ← fldStr inp "origin"
  -- re-derive the verdict from the hashes themselves (the harness's `diff` only explains it)
  let eqB := hashesA == hashesB
  let eqC := childErr != "" || hashesA == hashesC
  let why := if !eqB then (if diff != "" then diff else "run B differs from run A")
             else if !eqC then (if diff != "" then diff else "run C differs from run A")
             else if diff != "" then diff else ""
  return { corr := childErr == "", spec := why == "", nontrivial := hashesA.length ≥ 3 && species ≥ 2,
           cls := origin ++ (if implErr.isSome then ":err" else "") ++ (if childErr != "" then ":nochild" else ""),
           detail := if why != "" then why else childErr, sig := if why == "" then "" else "twinRun:differs",
           props := [("C17", why == "", why, "twinRun:differs")] }

/-- `parInterleave`: nested interleavings of structural mutations on one shared registry; the guarantees of C16 (b) are
    evaluated on the implementation's genomes: every genome well-formed, one innovation number = one link and one node
    id = one role across ALL genomes, numbers first seen in this round above the counters of its start -/
def hParInterleave : Handler := fun j => do
  let inp ← fld j "in"
  let out ← fld j "out"
  let before ← (← fldArr inp "genomes").mapM parseGenome
  let afterJ ← fldArr out "genomes"
  let after ← afterJ.mapM parseGenome
  let reg0 ← parseReg (← fld inp "reg")
  let ths ← fldArr out "threads"
  let inputOk := before.all (fun g => decide (WF g))
  let genes := after.flatMap (·.genes)
  let nodes := after.flatMap (·.nodes)
  let oldInns := before.flatMap (fun g => g.genes.map (·.inn))
  let oldNodes := before.flatMap (fun g => g.nodes.map (·.id))
  let firstOf (inn : Int) := genes.find? (·.inn == inn)
  let why : String :=
    if !inputOk then ""
    else match after.find? (fun g => !decide (WF g)) with
      | some g => "genome " ++ toString g.id ++ " not well-formed after interleaved mutations: " ++ wfWhy g
      | none =>
        if !(afterJ.all ownBitsOk) then "genome ownership broken"
        else if genes.any (fun x => match firstOf x.inn with | some y => !(x.sameLink y) | none => false)
          then "one innovation number carried by two different links"
        else if nodes.any (fun n => nodes.any (fun m => m.id == n.id && m.kind != n.kind)) then "one node id with two roles"
        else if genes.any (fun x => !oldInns.contains x.inn && !reg0.records.any (fun r => r.inn == x.inn || r.inn2 == x.inn) && x.inn ≤ reg0.nextInn)
          then "innovation number issued in this round is not above the counter at its start"
        else if nodes.any (fun n => !oldNodes.contains n.id && !reg0.records.any (fun r => r.newNode == n.id) && n.id ≤ reg0.nextNode)
          then "node id issued in this round is not above the counter at its start"
        else ""
  let nOk := (ths.filter (fun t => (fldBool t "ok").toOption.getD false)).length
  let nested := (ths.filter (fun t => (fldInt t "at").toOption.getD (-1) ≥ 0)).length
  return { corr := true, spec := why == "", nontrivial := inputOk && nOk ≥ 2 && nested ≥ 1,
           cls := s!"threads={ths.length}:ok={nOk}", detail := why, sig := if why == "" then "" else "parInterleave:" ++ why,
           props := [("C16", why == "", why, "parInterleave"), ("C03", why == "", why, "parInterleave")] }

def parallelOps : List (String × Handler) := [("parEpochs", hParEpochs), ("twinRun", hTwinRun), ("parInterleave", hParInterleave)]

end GoNeat.Driver
