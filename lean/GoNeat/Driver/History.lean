/-
  Driver handlers of property C01 (every genetic operator and epoch yields only well-formed genomes):
  `opHistory` (random operator histories on a pool of genomes of one lineage: `WF`, `Retains`, pairwise
  `SameLineage`, ownership bits and the outcome of the real `Genome.Genesis` are evaluated on every genome the
  implementation produced) and `genesisOk` (the error exits of `Genome.Genesis` against `genesisErr`).
-/
import GoNeat.Driver.Operators

namespace GoNeat.Driver
open Lean GoNeat.C01

instance : Inhabited (Genome Float) := ⟨{ id := 0, traits := [], nodes := [], genes := [] }⟩

structure HistState where
  pool : Array (Genome Float)
  fails : List (String × String) := []
  structural : Nat := 0
  matings : Nat := 0
  produced : Nat := 0

def hHistory : Handler := fun j => do
  let inp ← fld j "in"
  let out ← fld j "out"
  let poolJ ← fldArr inp "pool"
  let pool ← poolJ.mapM parseGenome
  let family ← fldStr inp "family"
  let steps ← fldArr out "steps"
  let pairwise (l : List (Genome Float)) : Bool :=
    let rec go : List (Genome Float) → Bool
      | [] => true
      | x :: xs => xs.all (fun y => decide (SameLineage x y)) && go xs
    go l
  let inputsOk := pool.all (fun g => decide (WFT g) && g.modules.isEmpty) && poolJ.all ownBitsOk && pairwise pool
  let mut st : HistState := { pool := pool.toArray }
  for sj in steps do
    let op ← fldStr sj "op"
    let a ← fldNat sj "a"
    let b ← fldInt sj "b"
    let dst ← fldInt sj "dst"
    let res ← fldBool sj "res"
    let err := optStr sj "err"
    let genesis ← fldStr sj "genesis"
    let intact ← fldBool sj "intact"
    let pa := st.pool[a]!
    let parents := if b ≥ 0 then [pa, st.pool[b.toNat]!] else [pa]
    if let some e := err then
      st := { st with fails := st.fails ++ [("operator " ++ op ++ " failed on well-formed genomes: " ++ e, "wf:" ++ op ++ ":error:" ++ e)] }
    match fldOpt sj "g" with
    | none => pure ()
    | some gj =>
      let child ← parseGenome gj
      st := { st with produced := st.produced + 1 }
      let r := c01Produced op parents child gj genesis
      let r := match r with
        | some x => some x
        | none =>
          if !intact then some ("operand modified by " ++ op, "wf:" ++ op ++ ":operand-modified")
          else if dst ≥ 0 then
            -- lineage: the produced genome against every other pool member
            let others := (List.range st.pool.size).filter (fun (i : Nat) => Int.ofNat i != dst)
            if others.all (fun i => decide (SameLineage child st.pool[i]!)) then none
            else some ("produced genome no longer of the pool's lineage (an innovation number / node id denotes two things)", "wf:" ++ op ++ ":lineage-broken")
          else none
      if let some x := r then st := { st with fails := st.fails ++ [x] }
      if dst ≥ 0 then st := { st with pool := st.pool.set! dst.toNat child }
      if res && (op == "mutAddNode" || op == "mutAddLink" || op == "mutConnectSensors") then st := { st with structural := st.structural + 1 }
      if op.startsWith "mate" then st := { st with matings := st.matings + 1 }
  -- a failure other than the known finding takes precedence
  let real := st.fails.filter (fun f => f.2 != k1Sig)
  let first := match real, st.fails with
    | x :: _, _ => some x
    | [], x :: _ => some x
    | [], [] => none
  let ok := !inputsOk || first.isNone
  let bucket := if steps.length ≤ 10 then "<=10" else if steps.length ≤ 50 then "<=50" else "<=200"
  return { corr := true, spec := ok, nontrivial := inputsOk && st.structural ≥ 1 && st.matings ≥ 1,
           cls := family ++ ":" ++ bucket ++ (if inputsOk then "" else ":inputs-not-wf"),
           detail := if ok then "" else (first.map (·.1)).getD "",
           sig := if ok then "" else (first.map (·.2)).getD "",
           props := [("C01", ok, if ok then "" else (first.map (·.1)).getD "", if ok then "" else (first.map (·.2)).getD "")] }

/-- `genesisOk`: the implementation's Genesis fails exactly where `genesisErr` says, with the same class;
    and never on a well-formed genome -/
def hGenesisOk : Handler := fun j => do
  let inp ← fld j "in"
  let out ← fld j "out"
  let gj ← fld inp "g"
  let g ← parseGenome gj
  let implCls ← fldStr out "genesis"
  let mal ← fldStr inp "malformed"
  let m := (genesisErr g).getD ""
  -- the id abstraction is only faithful when every pointer is the genome's own object, or the endpoint id is foreign too
  let wf := decide (WF g) && ownBitsOk gj
  let ok := !wf || implCls == ""
  return { corr := m == implCls, spec := ok, nontrivial := mal != "" || wf,
           cls := (← fldStr inp "family") ++ (if mal == "" then "" else "/" ++ mal) ++ (if implCls == "" then "" else ":" ++ implCls),
           detail := if m == implCls then "" else s!"genesis error class: model '{m}' vs impl '{implCls}'",
           sig := if ok then "" else "wf:genesis:" ++ implCls,
           props := [("C01", ok, "Genesis fails on a well-formed genome: " ++ implCls, "wf:genesis:" ++ implCls)] }

def historyOps : List (String × Handler) := [("opHistory", hHistory), ("genesisOk", hGenesisOk)]

end GoNeat.Driver
