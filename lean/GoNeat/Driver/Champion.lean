/-
  Driver handler for C10, the library's champion queries: `champQuery`.
  `corr`: per species of a real population `Species.FindChampion`, `Species.Size`, `CheckChampionChildDamaged` of every
  member and `Species.findChampion` (answer, panic class, order of the member list afterwards - ties included - and the
  whole population afterwards) equal Model/Champion.lean under `Scalar Float`.
  `spec`: Spec/Champion.lean on the implementation's answers.
-/
import GoNeat.Driver.GenStats
import GoNeat.Spec.Champion

namespace GoNeat.Driver
open Lean GoNeat.Champion GoNeat.ChampionSpec

def optNatFld (j : Json) (k : String) : E (Option Nat) :=
  match fldOpt j k with
  | none => pure none
  | some v => do return some (← v.getNat?)

def hChampQuery : Handler := fun j => do
  let inp ← fld j "in"
  let out ← fld j "out"
  let p ← parsePop (← fld inp "pop")
  let variant ← fldStr inp "variant"
  let landscape ← fldStr inp "landscape"
  let epochs ← fldNat inp "epochs"
  let spOut ← fldArr out "species"
  let pI ← parsePop (← fld out "after")
  let mut corr : List String := []
  let mut why := ""
  let mut species' : List (Species Float) := []
  if spOut.length != p.species.length then corr := corr ++ ["one answer per species expected"]
  let mut anyTie := false
  let mut anyPdq := false
  let mut anyNil := false
  for (s, sj) in p.species.zip spOut do
    let pubI ← optNatFld sj "public"
    let alien ← fldBool sj "publicAlien"
    let sizeI ← fldNat sj "size"
    let dmgI ← (← fldArr sj "damaged").mapM (fun b => b.getBool?)
    let errI : Option String := match fldOpt sj "sortErr" with
      | some (.str e) => some e
      | _ => none
    let sortI ← optNatFld sj "sortChamp"
    let firstI ← fldBool sj "sortFirst"
    let orderI ← arrNat (← fld sj "order")
    if s.orgs.length > 12 then anyPdq := true
    if s.orgs.any fun a => s.orgs.any fun b => a.uid != b.uid && a.fitness == b.fitness then anyTie := true
    if pubI.isNone then anyNil := true
    -- model
    let pubM := (findChampionPublic s).bind fun c => s.orgs.findIdx? (·.uid == c.uid)
    if alien then corr := corr ++ [s!"species {s.id}: FindChampion answers an organism that is no member"]
    if pubM != pubI then corr := corr ++ [s!"species {s.id}: FindChampion model {pubM} vs impl {pubI}"]
    -- ComputeMaxAndAvgFitness (running total left to right: bit for bit)
    let mxI ← fldF sj "max"
    let avI ← fldF sj "avg"
    let (mxM, avM) := computeMaxAndAvgFitness s
    if !bitEq mxM mxI || !bitEq avM avI then corr := corr ++ [s!"species {s.id}: ComputeMaxAndAvgFitness differs"]
    if why == "" then
      if s.orgs.any (fun x => mxI < x.fitness) || (mxI != 0.0 && !s.orgs.any (fun x => x.fitness == mxI)) then
        why := s!"species {s.id}: ComputeMaxAndAvgFitness: max is not the greatest member fitness (or 0)"
    if size s != sizeI then corr := corr ++ [s!"species {s.id}: Size model {size s} vs impl {sizeI}"]
    if s.orgs.map checkChampionChildDamaged != dmgI then corr := corr ++ [s!"species {s.id}: CheckChampionChildDamaged differs"]
    match findChampionSort s, errI with
    | .error e, some ei =>
      if stopStr e != ei then corr := corr ++ [s!"species {s.id}: findChampion error class model {stopStr e} vs impl {ei}"]
      species' := species' ++ [s]
    | .error e, none => corr := corr ++ [s!"species {s.id}: model stops ({stopStr e}), findChampion returns"]; species' := species' ++ [s]
    | .ok (_, s'), some ei => corr := corr ++ [s!"species {s.id}: findChampion stops ({ei}), model returns"]; species' := species' ++ [s']
    | .ok (top, s'), none =>
      let sortM := s.orgs.findIdx? (·.uid == top.uid)
      if sortM != sortI then corr := corr ++ [s!"species {s.id}: findChampion model {sortM} vs impl {sortI}"]
      let orderM := s'.orgs.map fun o => (s.orgs.findIdx? (·.uid == o.uid)).getD s.orgs.length
      if orderM != orderI then corr := corr ++ [s!"species {s.id}: order of the member list after findChampion differs (sort.Sort vs goSort)"]
      species' := species' ++ [s']
    -- specification on the implementation's answers
    if why == "" then
      let w1 := publicWhy s.orgs pubI
      let w2 := if w1 != "" then w1 else sortWhy s.orgs errI sortI firstI orderI
      let w3 := if w2 != "" then w2 else damagedWhy s.orgs dmgI
      let w4 := if w3 != "" then w3 else if sizeI != s.orgs.length then "Size is not the number of members" else ""
      let w5 := if w4 != "" then w4 else if errI.isNone then agreeWhy s.orgs pubI sortI else ""
      if w5 != "" then why := s!"species {s.id}: " ++ w5
  -- sort.Sort(ByOrganismFitness) and its reverse on copies of the species list (after the queries above)
  let byFitI ← arrNat (← fld out "byFit")
  let byFitDescI ← arrNat (← fld out "byFitDesc")
  let posOfSp (l : List (Species Float)) : List Nat := l.map fun s => (species'.findIdx? (·.id == s.id)).getD species'.length
  if posOfSp (sortSpeciesByFitness species') != byFitI then corr := corr ++ ["order after sort.Sort(ByOrganismFitness) differs (goSort)"]
  if posOfSp (sortSpeciesByFitnessDesc species') != byFitDescI then corr := corr ++ ["order after sort.Sort(Reverse(ByOrganismFitness)) differs (goSort)"]
  if why == "" then
    let maxOf (k : Nat) : Float := match species'[k]? with
      | some s => (computeMaxAndAvgFitness s).1
      | none => 0.0
    let rec mono (up : Bool) : List Nat → Bool
      | a :: b :: rest => (if up then !(maxOf b < maxOf a) else !(maxOf a < maxOf b)) && mono up (b :: rest)
      | _ => true
    if !GenStatsSpec.permBy (· == ·) (List.range species'.length) byFitI || !mono true byFitI then
      why := "sort.Sort(ByOrganismFitness): not a permutation with non-decreasing species maxima"
    else if !GenStatsSpec.permBy (· == ·) (List.range species'.length) byFitDescI || !mono false byFitDescI then
      why := "sort.Sort(Reverse(ByOrganismFitness)): not a permutation with non-increasing species maxima"
  let p' : Pop Float := { p with species := species' }
  match jsonDiff "after" (jPop p') (jPop pI) with
  | some d => corr := corr ++ [d]
  | none => pure ()
  -- nothing but the order of the member lists may have changed
  if why == "" then
    let hdrOk := pI.species.length == p.species.length &&
      (p.species.zip pI.species).all fun (s, s') => GenStatsSpec.sameSpeciesHeader bitEq s s' && GenStatsSpec.permBy orgSame s.orgs s'.orgs
    if !hdrOk then why := "the queries changed more than the order of a species' member list"
  let cls := variant ++ "/e" ++ toString epochs ++ (if anyPdq then "/pdq" else "") ++ (if anyTie then "/ties" else "") ++
    (if anyNil then "/nil" else "")
  return { corr := corr.isEmpty, spec := why == "", nontrivial := p.species.any (·.orgs.length ≥ 2), cls := cls,
           sig := if why == "" then "" else "champ:" ++ ((why.splitOn " ").drop 2 |>.take 3 |> " ".intercalate),
           detail := "; ".intercalate (corr.take 3) ++ (if why == "" then "" else " | SPEC: " ++ why ++ " [" ++ landscape ++ "]") }

def championOps : List (String × Handler) := [("champQuery", hChampQuery)]

end GoNeat.Driver
