/-
  Driver handlers for C19: `floatsStats`, `floatsPerms`, `expAggregates`.
  `corr`: the implementation's results equal the model's (`Model/Stats.lean`, `Scalar Float`): bit for bit where no
  sum is involved or every partial sum is exact (dyadic series), within 1e-12 relative otherwise (gonum's summation
  order is an implementation detail).  `spec`: the order-free definitions of `Spec/Stats.lean` and the textbook
  mean / unbiased variance evaluated on the IMPLEMENTATION's results; no panic; NaN exactly for the empty series.
-/
import GoNeat.Driver.Json
import GoNeat.Spec.Stats

namespace GoNeat.Driver
open Lean GoNeat.Stats

/-- a float result of the implementation: NaN ↦ none -/
def optF (f : Float) : Option Float := if f.isNaN then none else some f

def sameBits : Option Float → Option Float → Bool
  | none, none => true
  | some a, some b => a.toBits == b.toBits
  | _, _ => false

/-- relative agreement 1e-12 w.r.t. the larger magnitude or `scale` -/
def closeF (scale : Float) : Option Float → Option Float → Bool
  | none, none => true
  | some a, some b =>
    a.toBits == b.toBits || (a - b).abs ≤ 1e-12 * (max (max a.abs b.abs) scale)
  | _, _ => false

/-- a model result: `some NaN` (e.g. 0/0 for the variance of a single value) is NaN -/
def normO (o : Option Float) : Option Float := o.bind optF

def showOF : Option Float → String
  | none => "NaN"
  | some f => toString f

structure StatRes where
  v : Option Float
  panic : String

def parseStat (j : Json) (k : String) : E StatRes := do
  let o ← fld j k
  return { v := optF (← fldF o "v"), panic := ← fldStr o "panic" }

structure FloatsOut where
  min : StatRes
  max : StatRes
  sum : StatRes
  mean : StatRes
  mv : List (Option Float)
  mvPanic : String
  variance : StatRes
  stddev : StatRes
  median : StatRes
  q25 : StatRes
  q75 : StatRes

def parseFloatsOut (o : Json) : E FloatsOut := do
  return { min := ← parseStat o "min", max := ← parseStat o "max", sum := ← parseStat o "sum", mean := ← parseStat o "mean",
           mv := (← arrF (← fld o "mv")).map optF, mvPanic := ← fldStr o "mvPanic",
           variance := ← parseStat o "variance", stddev := ← parseStat o "stddev",
           median := ← parseStat o "median", q25 := ← parseStat o "q25", q75 := ← parseStat o "q75" }

def exceptOpt : Except QErr (Option Float) → Option Float
  | .ok v => v
  | .error _ => none

def FloatsOut.panics (r : FloatsOut) : List String :=
  [("Min", r.min.panic), ("Max", r.max.panic), ("Sum", r.sum.panic), ("Mean", r.mean.panic), ("MeanVariance", r.mvPanic),
   ("Variance", r.variance.panic), ("StdDev", r.stddev.panic), ("Median", r.median.panic), ("Q25", r.q25.panic),
   ("Q75", r.q75.panic)].filterMap fun (n, p) => if p == "" then none else some (n ++ " panics: " ++ p)

/-- correspondence and specification for one series; returns (corr failures, spec failures) -/
def judgeSeries (xs : List Float) (dyadic : Bool) (r : FloatsOut) : List String × List String :=
  let n := xs.length
  let scale1 := (xs.map Float.abs).foldl max 0.0          -- magnitude of the values
  let cmpSum : Float → Option Float → Option Float → Bool := fun sc a b => if dyadic then sameBits a b else closeF sc a b
  -- model
  let mMV := fMeanVariance xs
  let modelErr := [("Median", fMedian xs), ("Q25", fQ25 xs), ("Q75", fQ75 xs)].filterMap fun (nm, q) =>
    match q with
    | .error _ => some (nm ++ ": model reports a gonum panic")
    | .ok _ => none
  let corr : List String :=
    modelErr ++
    (if sameBits (fMin xs) r.min.v then [] else [s!"Min: model {showOF (fMin xs)} impl {showOF r.min.v}"]) ++
    (if sameBits (fMax xs) r.max.v then [] else [s!"Max: model {showOF (fMax xs)} impl {showOF r.max.v}"]) ++
    (if cmpSum (scale1 * n.toFloat) (some (fSum xs)) r.sum.v then [] else [s!"Sum: model {fSum xs} impl {showOF r.sum.v}"]) ++
    (if cmpSum scale1 (fMean xs) r.mean.v then [] else [s!"Mean: model {showOF (fMean xs)} impl {showOF r.mean.v}"]) ++
    (if cmpSum (scale1 * scale1) (normO (fVariance xs)) r.variance.v then [] else [s!"Variance: model {showOF (fVariance xs)} impl {showOF r.variance.v}"]) ++
    (if cmpSum scale1 (normO (fStdDev xs)) r.stddev.v then [] else [s!"StdDev: model {showOF (fStdDev xs)} impl {showOF r.stddev.v}"]) ++
    (match mMV, r.mv with
      | none, [a, b] => if a.isNone && b.isNone then [] else ["MeanVariance: model NaN,NaN"]
      | some (m, v), [a, b] => if cmpSum scale1 (some m) a && cmpSum (scale1 * scale1) (optF v) b then [] else ["MeanVariance differs"]
      | _, _ => ["MeanVariance: shape"]) ++
    (if sameBits (exceptOpt (fMedian xs)) r.median.v then [] else [s!"Median: model {showOF (exceptOpt (fMedian xs))} impl {showOF r.median.v}"]) ++
    (if sameBits (exceptOpt (fQ25 xs)) r.q25.v then [] else [s!"Q25: model {showOF (exceptOpt (fQ25 xs))} impl {showOF r.q25.v}"]) ++
    (if sameBits (exceptOpt (fQ75 xs)) r.q75.v then [] else [s!"Q75: model {showOF (exceptOpt (fQ75 xs))} impl {showOF r.q75.v}"])
  -- specification on the implementation's results
  let pan := r.panics
  let spec : List String :=
    if !pan.isEmpty then pan
    else if n == 0 then
      (if r.min.v.isNone && r.max.v.isNone && r.mean.v.isNone && r.variance.v.isNone && r.stddev.v.isNone && r.median.v.isNone &&
          r.q25.v.isNone && r.q75.v.isNone && r.mv.all Option.isNone && r.mv.length == 2 then [] else ["empty series: a result is not NaN"]) ++
      (if sameBits r.sum.v (some 0.0) then [] else ["empty series: Sum is not 0"])
    else
      let tbSum := xs.foldl (· + ·) 0.0
      let tbMean := tbSum / n.toFloat
      let tbVar := (xs.map fun x => (x - tbMean) * (x - tbMean)).foldl (· + ·) 0.0 / (n.toFloat - 1.0)
      let q (nm : String) (p : Float) (v : Option Float) : List String :=
        match v with
        | none => [nm ++ " is NaN on a non-empty series"]
        | some v => if IsQuantileOf p xs v then [] else [s!"{nm} = {v} is not the empirical {p}-quantile (element with rank >= p*n, none smaller)"]
      (match r.min.v with
        | none => ["Min is NaN on a non-empty series"]
        | some m => if IsMinOf xs m then [] else [s!"Min = {m} is not the smallest element"]) ++
      (match r.max.v with
        | none => ["Max is NaN on a non-empty series"]
        | some m => if IsMaxOf xs m then [] else [s!"Max = {m} is not the greatest element"]) ++
      (if closeF (scale1 * n.toFloat) r.sum.v (some tbSum) then [] else [s!"Sum = {showOF r.sum.v}, textbook {tbSum}"]) ++
      (if closeF scale1 r.mean.v (some tbMean) then [] else [s!"Mean = {showOF r.mean.v}, textbook sum/n = {tbMean}"]) ++
      (if n < 2 then [] else
        if closeF (scale1 * scale1) r.variance.v (optF tbVar) then [] else [s!"Variance = {showOF r.variance.v}, textbook sum (x-mean)^2/(n-1) = {tbVar}"]) ++
      (match r.variance.v, r.stddev.v with
        | some v, s => if sameBits s (optF (Float.sqrt v)) then [] else [s!"StdDev = {showOF s} is not sqrt(Variance = {v})"]
        | none, s => if s.isNone then [] else ["StdDev defined but Variance NaN"]) ++
      (match r.mv with
        | [a, b] => if sameBits a r.mean.v && sameBits b r.variance.v then [] else ["MeanVariance differs from Mean / Variance"]
        | _ => ["MeanVariance does not return two values"]) ++
      q "Median" 0.5 r.median.v ++ q "Q25" 0.25 r.q25.v ++ q "Q75" 0.75 r.q75.v
  (corr, spec)

def sigOf (fails : List String) : String :=
  match fails with
  | [] => ""
  | f :: _ => "stats:" ++ ((f.splitOn " ").headD "") ++ (if (f.splitOn "panics").length > 1 then ":panic" else "")

def hFloatsStats : Handler := fun j => do
  let inp ← fld j "in"
  let xs ← arrF (← fld inp "xs")
  let dy ← fldBool inp "dyadic"
  let fam ← fldStr inp "family"
  let r ← parseFloatsOut (← fld j "out")
  let (corr, spec) := judgeSeries xs dy r
  let nontriv := xs.length ≥ 3 && !isSorted xs
  return { corr := corr.isEmpty, spec := spec.isEmpty, nontrivial := nontriv,
           cls := fam ++ (if xs.length ≤ 2 then s!"/n={xs.length}" else if xs.length ≤ 10 then "/n<=10" else "/n>10"),
           sig := sigOf spec, detail := "; ".intercalate (corr.take 3) ++ (if spec.isEmpty then "" else " | SPEC: " ++ "; ".intercalate (spec.take 3)) }

def hFloatsPerms : Handler := fun j => do
  let inp ← fld j "in"
  let xs ← arrF (← fld inp "xs")
  let dy ← fldBool inp "dyadic"
  let fam ← fldStr inp "family"
  let out ← fld j "out"
  let perms ← (← fldArr out "perms").mapM arrF
  let results ← (← fldArr out "results").mapM parseFloatsOut
  if perms.length != results.length then throw "perms/results length"
  let judged := (perms.zip results).map fun (p, r) => judgeSeries p dy r
  let corr := judged.flatMap (·.1)
  let spec1 := judged.flatMap (·.2)
  -- regardless of order: every permutation gives the same results
  let scale1 := (xs.map Float.abs).foldl max 0.0
  let cmpSum : Float → Option Float → Option Float → Bool := fun sc a b => if dy then sameBits a b else closeF sc a b
  let inv : List String := match results with
    | [] => ["no permutation at all"]
    | r0 :: rs => rs.flatMap fun r =>
      (if sameBits r0.min.v r.min.v && sameBits r0.max.v r.max.v then [] else ["Min/Max depend on the order"]) ++
      (if sameBits r0.median.v r.median.v && sameBits r0.q25.v r.q25.v && sameBits r0.q75.v r.q75.v then [] else ["Median/Q25/Q75 depend on the order"]) ++
      (if cmpSum (scale1 * xs.length.toFloat) r0.sum.v r.sum.v && cmpSum scale1 r0.mean.v r.mean.v then []
       else ["Sum/Mean depend on the order"]) ++
      -- the squared deviations are rounded even for dyadic series: order-independent up to rounding only
      (if closeF (scale1 * scale1) r0.variance.v r.variance.v && closeF scale1 r0.stddev.v r.stddev.v then []
       else ["Variance/StdDev depend on the order"])
  let spec := spec1 ++ inv
  let fact := (List.range xs.length).foldl (fun a i => a * (i + 1)) 1
  let complete := perms.length == fact
  return { corr := corr.isEmpty && complete, spec := spec.isEmpty, nontrivial := xs.length ≥ 3,
           cls := fam ++ s!"/n={xs.length}", sig := sigOf spec,
           detail := (if complete then "" else "harness did not enumerate all permutations; ") ++ "; ".intercalate (corr.take 3) ++
                     (if spec.isEmpty then "" else " | SPEC: " ++ "; ".intercalate (spec.take 3)) }

/-! ### aggregates -/

def parseChamp (j : Json) : E (Champ Float) := do
  return { fitness := ← fldF j "fitness", speciesAge := ← fldOptInt j "age", complexity := ← fldOptInt j "complexity" }

def parseGen (j : Json) : E (Gen Float) := do
  let champ ← match fldOpt j "champion" with
    | none => pure none
    | some c => do pure (some (← parseChamp c))
  return { solved := ← fldBool j "solved", champion := champ, diversity := ← fldInt j "diversity",
           fitness := ← arrF (← fld j "fitness"), age := ← arrF (← fld j "age"), complexity := ← arrF (← fld j "complexity"),
           winnerNodes := ← fldInt j "winnerNodes", winnerGenes := ← fldInt j "winnerGenes", winnerEvals := ← fldInt j "winnerEvals" }

def floatsRes (j : Json) (k : String) : E (List (Option Float) × String) := do
  let o ← fld j k
  return ((← arrF (← fld o "v")).map optF, ← fldStr o "panic")

def sameList (a b : List (Option Float)) : Bool := a.length == b.length && (a.zip b).all fun (x, y) => sameBits x y
def someL (l : List Float) : List (Option Float) := l.map optF

def hExpAggregates : Handler := fun j => do
  let inp ← fld j "in"
  let out ← fld j "out"
  let fam ← fldStr inp "family"
  let nilChamps ← fldBool inp "nilChamps"
  let trials ← (← fldArr inp "trials").mapM fun tj => do
    return ({ gens := ← (← fldArr tj "gens").mapM parseGen } : Trial Float)
  let e : Experiment Float := ⟨trials⟩
  let mut corr : List String := []
  let mut spec : List String := []
  let mut tie := false
  let pan ← fldStr out "panic"
  if pan != "" then spec := spec ++ ["experiment accessor panics: " ++ pan]
  -- trial level
  let touts ← fldArr out "trials"
  if touts.length != trials.length then throw "trials length"
  for (t, tj) in trials.zip touts do
    let tp ← fldStr tj "panic"
    if tp != "" then spec := spec ++ ["trial accessor panics: " ++ tp]
    let chk (name : String) (model : List (Option Float)) : E (List String) := do
      let (v, p) ← floatsRes tj name
      if p != "" then return [name ++ " panics: " ++ p]
      return if sameList v model then [] else [name ++ " differs from the recomputation"]
    let fs ← [ ("championsFitness", someL (championsFitness t)), ("championSpeciesAges", someL (championSpeciesAges t)),
               ("championsComplexities", someL (championsComplexities t)), ("diversity", someL (diversity t)),
               ("avgFitness", (average t).1), ("avgAge", (average t).2.1), ("avgComplexity", (average t).2.2) ].mapM
             fun (n, m) => chk n m
    -- these accessors are maps over the generations: model = direct recomputation
    corr := corr ++ fs.flatten
    spec := spec ++ fs.flatten
    let sv ← fldBool tj "solved"
    if sv != trialSolved t then
      corr := corr ++ ["Trial.Solved"]; spec := spec ++ ["Trial.Solved differs from 'some generation solved'"]
    let w ← arrInt (← fld tj "winner")
    let (a, b, c, d) := winnerStatistics t
    if w != [a, b, c, d] then corr := corr ++ ["WinnerStatistics differs from the model"]
    let (a', b', c', d') := specWinner t
    if tp == "" && w != [a', b', c', d'] then spec := spec ++ ["WinnerStatistics is not that of the first solved generation"]
  -- experiment level
  let solved ← fldBool out "solved"
  if solved != experimentSolved e then corr := corr ++ ["Experiment.Solved"]
  if solved != (specTrialsSolved e > 0) then spec := spec ++ ["Experiment.Solved differs from 'some trial solved'"]
  let ts ← fldNat out "trialsSolved"
  if ts != trialsSolved e then corr := corr ++ ["TrialsSolved differs from the model"]
  if ts != specTrialsSolved e then spec := spec ++ [s!"TrialsSolved = {ts}, number of solved trials = {specTrialsSolved e}"]
  let sr ← fldF out "successRate"
  if !sameBits (optF sr) (optF (successRate e)) then corr := corr ++ ["SuccessRate differs from the model"]
  if !sameBits (optF sr) (optF (specSuccessRate e)) then spec := spec ++ [s!"SuccessRate = {sr}, solved/trials = {specSuccessRate e}"]
  let ag ← fldF out "avgGenerationsPerTrial"
  if !sameBits (optF ag) (optF (avgGenerationsPerTrial e)) then
    corr := corr ++ ["AvgGenerationsPerTrial"]; spec := spec ++ ["AvgGenerationsPerTrial differs from total generations / trials"]
  let aw := (← arrF (← fld out "avgWinner")).map optF
  let (m1, m2, m3, m4) := avgWinnerStatistics e
  if !sameList aw (someL [m1, m2, m3, m4]) then corr := corr ++ ["AvgWinnerStatistics differs from the model"]
  let (s1, s2, s3, s4) := specAvgWinner e
  if !sameList aw (someL [s1, s2, s3, s4]) then spec := spec ++ ["AvgWinnerStatistics differs from the averages over the solved trials' winner generations"]
  let (ad, adp) ← floatsRes out "avgDiversity"
  if adp != "" then spec := spec ++ ["AvgDiversity panics: " ++ adp]
  else if !sameList ad (avgDiversity e) then
    corr := corr ++ ["AvgDiversity"]; spec := spec ++ ["AvgDiversity differs from the per-trial mean number of species"]
  let (ep, epp) ← floatsRes out "epochsPerTrial"
  if epp != "" then spec := spec ++ ["EpochsPerTrial panics: " ++ epp]
  else if !sameList ep (someL (epochsPerTrial e)) then
    corr := corr ++ ["EpochsPerTrial"]; spec := spec ++ ["EpochsPerTrial differs from the number of recorded generations"]
  if !nilChamps then
    let (bf, bfp) ← floatsRes out "bestFitness"
    let (ba, bap) ← floatsRes out "bestSpeciesAge"
    let (bc, bcp) ← floatsRes out "bestComplexity"
    for (nm, p) in [("BestFitness", bfp), ("BestSpeciesAge", bap), ("BestComplexity", bcp)] do
      if p != "" then spec := spec ++ [nm ++ " panics: " ++ p]
    if bfp == "" && bap == "" && bcp == "" then
      if bf.length != trials.length || ba.length != trials.length || bc.length != trials.length then
        spec := spec ++ ["Best* : one entry per trial expected"]
      else
        for (t, (f, (a, c))) in trials.zip (bf.zip (ba.zip bc)) do
          let cands := bestCandidates t
          -- several equally fit champions with different age/complexity: which one sort.Sort puts first is unspecified
          let ambiguous := cands.any fun x => cands.any fun y => !(sameBits (optF (ageW x)) (optF (ageW y)) && sameBits (optF (complexityW x)) (optF (complexityW y)))
          if ambiguous then tie := true
          match cands with
          | [] =>
            if !(sameBits f (some 0.0) && sameBits a (some 0.0) && sameBits c (some 0.0)) then
              spec := spec ++ ["Best* of a trial without generations is not 0"]
          | _ =>
            if !(cands.any fun x => sameBits f (optF x.fitness)) then spec := spec ++ [s!"BestFitness = {showOF f} is not the maximal champion fitness"]
            if !(cands.any fun x => sameBits a (optF (ageW x))) then spec := spec ++ [s!"BestSpeciesAge = {showOF a} is not the species age of a fittest champion"]
            if !(cands.any fun x => sameBits c (optF (complexityW x))) then spec := spec ++ [s!"BestComplexity = {showOF c} is not the complexity of a fittest champion"]
        if !(sameList bf (someL (bestFitness e))) then corr := corr ++ ["BestFitness differs from the model"]
        if !tie then
          if !(sameList ba (someL (bestSpeciesAge e))) then corr := corr ++ ["BestSpeciesAge differs from the model"]
          if !(sameList bc (someL (bestComplexity e))) then corr := corr ++ ["BestComplexity differs from the model"]
  let nontriv := trials.length ≥ 2 && trials.any (fun t => t.gens.length ≥ 2)
  let cls := fam ++ (if trials.isEmpty then "/no-trials" else if specTrialsSolved e == 0 then "/unsolved" else
                     if specTrialsSolved e == trials.length then "/all-solved" else "/some-solved")
  return { corr := corr.isEmpty, spec := spec.isEmpty, nontrivial := nontriv, cls := cls, tie := tie && !corr.isEmpty,
           sig := match spec with
             | [] => ""
             | f :: _ => "agg:" ++ ((f.splitOn " ").headD ""),
           detail := "; ".intercalate (corr.take 3) ++ (if spec.isEmpty then "" else " | SPEC: " ++ "; ".intercalate (spec.take 3)) }

def statsOps : List (String × Handler) :=
  [("floatsStats", hFloatsStats), ("floatsPerms", hFloatsPerms), ("expAggregates", hExpAggregates)]

end GoNeat.Driver
