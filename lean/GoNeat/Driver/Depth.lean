/-
  Driver handlers of the depth ops (C14): `depthQueries`, `nodeDepth` (harness: ops_depth.go).
-/
import GoNeat.Driver.Solver
import GoNeat.Spec.Depth

namespace GoNeat.Driver
open Lean GoNeat.Depth

def parseDErr (s : String) : Option DErr :=
  match s with
  | "ok" => some .ok | "exceeded" => some .exceeded | "modular" => some .modular | _ => none

def arrBool (j : Json) : E (List Bool) := do
  let a ← j.getArr?
  a.toList.mapM fun v => v.getBool?

def parseAnswer (j : Json) : E Query := do
  let es ← fldStr j "err"
  match parseDErr es with
  | none => throw s!"implementation returned an unexpected error: {es}"
  | some e => return { cap := ← fldInt j "cap", depth := ← fldInt j "depth", err := e, marks := ← arrBool (← fld j "marks") }

def jQuery (q : Query) : Json :=
  jObj [("depth", jI q.depth), ("err", jS q.err.str), ("marks", jArr jB q.marks)]

/-- cheap acyclicity test of the links the search follows (only decides WHICH clauses are evaluated; the ranking
    hypothesis of the theorem, `Ranked net (lp net F)`, is then evaluated itself) -/
def peel (net : Net Float) : Nat → List Nat → List Nat
  | 0, rem => rem
  | k + 1, rem => peel net k (rem.filter fun i => (preds net i).any fun w => rem.contains w)

def acyclic (net : Net Float) : Bool :=
  (peel net net.nodes.length (List.range net.nodes.length)).isEmpty

def firstBadQuery (n : Nat) (d0 : Int) : List Query → Nat → Option Nat
  | [], _ => none
  | q :: qs, k => if queryOk n d0 q then firstBadQuery n d0 qs (k + 1) else some k

def hDepthQueries : Handler := fun j => do
  let inp ← fld j "in"
  let out ← fld j "out"
  let net0 ← parseNet (← fld inp "net")
  let nctrl ← fldNat inp "nctrl"
  let dummy : NNodeS Float := { id := 0, kind := Kind.hidden, act := 0, incoming := [], outgoing := [] }
  let net : Net Float := { net0 with ctrl := List.replicate nctrl dummy }
  let family ← fldStr inp "family"
  let caps ← match fldOpt inp "caps" with
    | none => pure []
    | some c => arrInt c
  let fresh ← parseAnswer (← fld out "fresh")
  let answers ← match fldOpt out "answers" with
    | none => pure []
    | some a => do (← a.getArr?).toList.mapM parseAnswer
  let n := net.nodes.length
  -- model: the same sequence on one instance, starting from clean marks
  let mAll := runQueries net (0 :: caps) (clean net)
  let mQs := List.zipWith toQuery (0 :: caps) mAll
  let diff := jsonDiff "answers" (jArr jQuery mQs) (jArr jQuery (fresh :: answers))
  if nctrl > 0 then
    -- modular network: outside C14; only the refusal is compared
    return { corr := diff.isNone, spec := true, nontrivial := false, cls := "modular", detail := diff.getD "" }
  -- C14 on the implementation's answers
  let dag := acyclic net
  let F := n + 1
  let rankedOk := !dag || Ranked net (lp net F)
  let dagFuel := if dag then some F else none
  let spec := querySpec net dagFuel fresh answers
  let shortcut := noHiddenShortcut net
  let why :=
    if spec then "" else
    if fresh.err != .ok then "fresh:error"
    else if fresh.depth < 0 || (!shortcut && fresh.depth > n) then "fresh:range"
    else if !queryOk n fresh.depth fresh then "fresh:marksLeft"
    else match firstBadQuery n fresh.depth answers 0 with
      | some k =>
        let q := answers.getD k fresh
        if q.marks != List.replicate n false then "later:marksLeft"
        else if q.cap ≤ 0 then "later:uncappedDiffers" else "later:capBehaviour"
      | none => "dag:notLongestPath"
  let hit := answers.any fun q => q.err == .exceeded
  let capped := answers.any fun q => q.cap > 0
  let nontriv := !shortcut && hasHidden net && fresh.depth ≥ 2 && capped
  return { corr := diff.isNone && rankedOk, spec := spec, nontrivial := nontriv,
           cls := (family.takeWhile (· != ':')).toString ++ (if shortcut then ":shortcut" else if dag then ":dag" else ":cyclic")
                    ++ (if hit then ":capHit" else ""),
           detail := (diff.getD "") ++ (if rankedOk then "" else " acyclic graph but lp is not a ranking")
                      ++ (if spec then "" else " SPEC: " ++ why),
           sig := if spec then "" else "depthQueries:" ++ why }

def hNodeDepth : Handler := fun j => do
  let inp ← fld j "in"
  let out ← fld j "out"
  let net ← parseNet (← fld inp "net")
  let family ← fldStr inp "family"
  let i ← fldNat inp "node"
  let d0 ← fldNat inp "d0"
  let cap ← fldInt inp "cap"
  let marks ← arrBool (← fld inp "marks")
  let gDepth ← fldInt out "depth"
  let gErr ← fldStr out "err"
  let gMarks ← arrBool (← fld out "marks")
  let r := depth net cap (fuelOf net) marks i d0
  let diff := jsonDiff "res" (jObj [("depth", jI r.d), ("err", jS r.err.str), ("marks", jArr jB r.vis)])
    (jObj [("depth", jI gDepth), ("err", jS gErr), ("marks", jArr jB gMarks)])
  -- C14 at node level: the node was unmarked, so the marks afterwards are the marks before (`marks_restored_node`);
  -- a normal result lies in [d0, d0 + number of unmarked nodes]; the cap error carries the cap
  let unm := (marks.filter (· == false)).length
  let spec := !marked marks i →
    (gMarks == marks &&
      (if gErr == "ok" then decide ((d0 : Int) ≤ gDepth) && decide (gDepth ≤ (d0 + unm : Nat))
       else gErr == "exceeded" && decide (cap > 0) && gDepth == cap))
  let why := if gMarks != marks then "marksLeft" else "range"
  return { corr := diff.isNone, spec := spec, nontrivial := marks.any id && gDepth > d0,
           cls := (family.takeWhile (· != ':')).toString ++ (if gErr == "ok" then "" else ":" ++ gErr),
           detail := (diff.getD "") ++ (if spec then "" else " SPEC: " ++ why),
           sig := if spec then "" else "nodeDepth:" ++ why }

def depthOps : List (String × Handler) := [("depthQueries", hDepthQueries), ("nodeDepth", hNodeDepth)]

end GoNeat.Driver
