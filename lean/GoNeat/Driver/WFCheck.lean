/-
  C01 evaluated on one genome the implementation produced: `WF`, non-zero trait ids, ownership bits,
  `Retains` against every operand, the outcome of the real `Genome.Genesis`; the failing clause is named in
  the signature (`wfWhy`).  Known finding K1 has its own stable signature.
-/
import GoNeat.Driver.Json
import GoNeat.Model.GenesisOk
import GoNeat.Spec.WFReg

namespace GoNeat.Driver
open Lean GoNeat.C01

/-- signature of known finding K1 at operator level -/
def k1Sig : String := "mateSinglePoint:no-genes:no-common-first-gene"
/-- signature of known finding K1 at epoch level -/
def k1EpochSig : String := "epoch:no-genes:no-common-first-gene"

/-- C01 on one produced genome: (why, signature) of the first failing clause, `none` if all hold -/
def c01Produced (op : String) (parents : List (Genome Float)) (child : Genome Float) (childJ : Json) (genesis : String) :
    Option (String × String) :=
  if op == "mateSinglePoint" && child.genes.isEmpty &&
     (match parents with | [p1, p2] => !decide (SharedHead p1 p2) | _ => false) then
    some ("single-point crossover of parents without a common first gene returned a gene-less genome", k1Sig)
  else if !decide (WF child) then some ("result not well-formed: " ++ wfWhy child, "wf:" ++ op ++ ":" ++ wfWhy child)
  else if !decide (TraitIdsNonzero child) then some ("trait id 0", "wf:" ++ op ++ ":trait-id-0")
  else if !ownBitsOk childJ then
    some ("result holds foreign pointers: " ++ ((fldStr childJ "ownWhy").toOption.getD ""), "wf:" ++ op ++ ":foreign-pointer")
  else if !parents.all (fun p => decide (Retains p child)) then
    some ("input/bias/output node of an ancestor lost", "wf:" ++ op ++ ":io-node-lost")
  else if genesis != "" then some ("Genome.Genesis fails on the result: " ++ genesis, "wf:" ++ op ++ ":genesis:" ++ genesis)
  else if (genesisErr child).isSome then some ("model of Genesis rejects a genome the implementation expressed", "wf:" ++ op ++ ":genesis-model")
  else none

end GoNeat.Driver
