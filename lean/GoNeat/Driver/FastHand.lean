/-
  Driver handlers of the hand-built fast-solver ops `fastHandFlushRun` (C13) and `fastHandRun` (C12)
  (harness: ops_fasthand.go).  The INPUT is a raw description as accepted by the public constructor
  `NewFastModularNetworkSolver` / built by `ReadFMNSModel`; it is parsed directly into `FastMod.FastModNet Float`
  (no `ofNet` translation in between) and co-simulated with `FastMod.step` bit-exactly: every array after every call,
  plus the derived `reverseAdjacentList` / `adjacentMatrix`, `NodeCount`, `LinkCount`.

  Specification predicates on the implementation's outputs:
  * fastHandFlushRun: C13 - the observations after the flush equal the observations of the fresh twin, the flush
    reports success; the module decision logic of ModNet.lean.
  * fastHandRun: C12 for hand-built descriptions - when the description satisfies the decidable hypotheses of
    `C12.fast_recursive_fval` / `C12.fast_forward_any_state` (no modules, a ranking exists = acyclic, `NoDupConn`,
    sources in range, outputs inside the arrays, activation types registered) every `RecursiveSteps` call and every
    `ForwardSteps(k)` call with k > largest output rank succeeds and leaves at the outputs exactly (bit-for-bit:
    the theorems are Kind A) `fvalNode` of the sensor signals the script has loaded (bias = 1, inputs = last accepted
    `LoadSensors` vector, 0 after construction / `Flush`).  Descriptions outside the hypotheses: correspondence only.
-/
import GoNeat.Driver.ModNet
import GoNeat.Proofs.FastFFAll

namespace GoNeat.Driver
open Lean GoNeat.Solver GoNeat.ActExact

def parseFDesc (j : Json) : E (FastMod.FastModNet Float) := do
  let conns ← (← fldArr j "conns").mapM fun c => do
    return ({ src := ← fldNat c "src", dst := ← fldNat c "dst", w := ← fldF c "w" } : Fast.FLink Float)
  let mods ← (← fldArr j "mods").mapM fun m => do
    return ({ act := ← fldNat m "act", ins := ← arrNat (← fld m "ins"), outs := ← arrNat (← fld m "outs") } : FastMod.FMod)
  return { base := { nBias := ← fldNat j "nBias", nInput := ← fldNat j "nInput", nOutput := ← fldNat j "nOutput",
                     nTotal := ← fldNat j "nTotal", acts := ← arrNat (← fld j "acts"),
                     biasList := ← arrF (← fld j "biases"), conns := conns },
           modules := mods }

/-- every index the constructor / the step functions dereference lies inside the arrays (the generator's contract;
    outside it Go panics and the model totalises) -/
def descInRange (fm : FastMod.FastModNet Float) : Bool :=
  let fn := fm.base
  decide (fn.nSensor + fn.nOutput ≤ fn.nTotal) && decide (fn.acts.length = fn.nTotal) &&
  (fn.nBias == 0 || fn.biasList.length == fn.nTotal) &&
  (fn.conns.all fun c => decide (c.src < fn.nTotal) && decide (c.dst < fn.nTotal)) &&
  (fm.modules.all fun m => (m.ins ++ m.outs).all fun i => decide (i < fn.nTotal))

/-! ### the decidable hypotheses of the C12 fast theorems -/

def relaxRound (conns : List (Fast.FLink Float)) (lv : List Nat) : List Nat :=
  conns.foldl (fun l c => l.set c.dst (max (l.getD c.dst 0) (l.getD c.src 0 + 1))) lv

/-- longest-path ranking (sensors from 0, neurons from 1) after `nTotal + 2` relaxation rounds -/
def handLevels (fn : Fast.FastNet Float) : List Nat :=
  (List.range (fn.nTotal + 2)).foldl (fun l _ => relaxRound fn.conns l)
    ((List.range fn.nTotal).map fun i => if i < fn.nSensor then 0 else 1)

/-- `FFFast fn lvl ∧ NoDupConn fn ∧ (neurons have rank ≥ 1) ∧ (activation types of the neurons registered)`,
    for `lvl = handLevels fn`, and no modules -/
def ffHyp (fm : FastMod.FastModNet Float) : Bool :=
  let fn := fm.base
  let lv := handLevels fn
  fm.modules.isEmpty &&
  (fn.conns.all fun c => decide (lv.getD c.src 0 < lv.getD c.dst 0) && decide (c.src < fn.nTotal)) &&
  (lv.all fun l => decide (l ≤ fn.nTotal)) &&
  decide (fn.nSensor + fn.nOutput ≤ fn.nTotal) &&
  decide (Fast.NoDupConn fn) &&
  ((List.range fn.nTotal).all fun i => i < fn.nSensor || (decide (1 ≤ lv.getD i 0) && (sigmaExact (fn.acts.getD i 0) 0.0).isSome))

/-- sensor signals the script has established: bias 1; inputs = last accepted load, 0 after a flush -/
def sensAfter (fn : Fast.FastNet Float) (inputs : List Float) (op : ScriptOp) : List Float :=
  if op.k == "load" && op.xs.length == fn.nInput then op.xs
  else if op.k == "flush" then List.replicate fn.nInput 0.0
  else inputs

/-- C12 on the dumped steps of one script: (first failure, number of steps held to the feed-forward value,
    some expected output non-zero) -/
def ffCheck (fn : Fast.FastNet Float) (dOut : Nat) :
    List ScriptOp → List Json → List Float → Nat → Bool → Option String × Nat × Bool
  | op :: ops, st :: sts, inputs, n, nz =>
    let inputs := sensAfter fn inputs op
    let held := op.k == "rec" || (op.k == "fwd" && op.n ≥ (dOut : Int) + 1)
    if !held then ffCheck fn dOut ops sts inputs n nz
    else
      let sig : Nat → Float := fun i => if i < fn.nBias then 1.0 else inputs.getD (i - fn.nBias) 0.0
      let want := (List.range fn.nOutput).map fun j => Fast.fvalNode fn sigmaExact sig (fn.nTotal + 1) (fn.nSensor + j)
      let got := ((fldOpt st "outs").bind fun a => (arrF a).toOption).getD []
      let fail : Option String :=
        if (fldOpt st "err").isSome then some s!"{op.k}:error"
        else if (fldOpt st "res") != some (jB true) then some s!"{op.k}:resFalse"
        else if want.any Option.isNone then some s!"{op.k}:evalUndefined"
        else if got.length == want.length && (got.zip want).all (fun p => some p.1.toBits == p.2.map Float.toBits) then none
        else some s!"{op.k}:notEqualEval"
      match fail with
      | some f => (some f, n + 1, nz)
      | none => ffCheck fn dOut ops sts inputs (n + 1) (nz || want.any fun w => w.any (· != 0.0))
  | _, _, _, n, nz => (none, n, nz)

structure HandCase where
  fm : FastMod.FastModNet Float
  family : String
  hist : List ScriptOp
  seq : List ScriptOp
  out : Json

def parseHandCase (j : Json) : E HandCase := do
  let inp ← fld j "in"
  return { fm := ← parseFDesc (← fld inp "desc"), family := ← fldStr inp "family",
           hist := ← (← fldArr inp "history").mapM parseOp, seq := ← (← fldArr inp "seq").mapM parseOp,
           out := ← fld j "out" }

/-- correspondence of everything but the runs: derived arrays, module list, counts, initial state -/
def handStatic (c : HandCase) : Option String :=
  let fm := c.fm
  let s0 := FastMod.init fm
  let initJ := jObj [("res", jB false), ("err", Json.null), ("outs", jArr jF (Fast.readOutputs fm.base s0)), ("fast", jFState s0)]
  let counts := jObj [("nodes", jN (FastMod.nodeCount fm)), ("links", jN (FastMod.linkCount fm)), ("complexity", jN 0)]
  (if descInRange fm then none else some "desc: index outside the arrays (generator contract broken)") <|>
  jsonDiff "fastNet" (jFastNetM fm) ((fldOpt c.out "fastNet").getD Json.null) <|>
  jsonDiff "mods" (jArr jFMod fm.modules) ((fldOpt c.out "mods").getD Json.null) <|>
  jsonDiff "counts" counts ((fldOpt c.out "counts").getD Json.null) <|>
  jsonDiff "init" initJ ((fldOpt c.out "init").getD Json.null)

/-- module decision logic (ModNet.lean) on the implementation's dumps -/
def handLogic (fm : FastMod.FastModNet Float) (script : List ScriptOp) (goRun : List Json) : Bool :=
  (script.zip goRun).all fun (op, st) =>
    if op.k == "fwd" && op.n == 1 && (fldOpt st "err").isNone then
      match fldOpt st "fast" with
      | some f =>
        match (do return ((← arrF (← fld f "signals")), (← arrF (← fld f "processing"))) : E (List Float × List Float)) with
        | .ok (sg, pr) => lastModuleOkFast fm { signals := sg, processing := pr, activated := [], inAct := [], lastAct := [] }
        | .error _ => false
      | none => false
    else true

def handCls (c : HandCase) : String :=
  c.family ++ (if fastHyp c.fm then "" else ":biasCellWritten")

/-! ### fastHandFlushRun (C13) -/

def hFastHandFlushRun : Handler := fun j => do
  let c ← parseHandCase j
  let fm := c.fm
  let flushOp : ScriptOp := { k := "flush", xs := [], n := 0, delta := 0.0 }
  let script := c.hist ++ [flushOp] ++ c.seq
  let goFlushed ← fldArr c.out "flushed"
  let goFresh ← fldArr c.out "fresh"
  let s0 := FastMod.init fm
  let mFlushed := fastScriptM fm (← script.mapM fastOp) s0
  let mFresh := fastScriptM fm (← c.seq.mapM fastOp) s0
  let diff := handStatic c <|> firstDiff "flushed" mFlushed goFlushed <|> firstDiff "fresh" mFresh goFresh
  -- C13 on the implementation's output
  let tail := (goFlushed.drop (c.hist.length + 1)).map obsPart
  let specDiff :=
    (if goFlushed.length != script.length then some "flushed: wrong number of steps" else none) <|>
      firstDiff "step" tail (goFresh.map obsPart)
  let flushOk := match goFlushed[c.hist.length]? with
    | some f => (fldOpt f "res") == some (jB true) && (fldOpt f "err").isNone
    | none => false
  let logic := handLogic fm script goFlushed
  let spec := specDiff.isNone && flushOk && logic
  let nontriv := !c.hist.isEmpty && c.seq.any isActivation && nonzeroOuts goFresh
  let why := if !logic then "moduleLogic" else if !flushOk then "flushFailed" else match specDiff with
    | some d => (d.takeWhile (· != ':')).toString
    | none => ""
  return { corr := diff.isNone, spec := spec, nontrivial := nontriv, cls := handCls c,
           detail := (diff.getD "") ++ (if spec then "" else " SPEC: " ++ (specDiff.getD (if logic then "flush reported failure" else "module decision logic"))),
           sig := if spec then "" else s!"fastHandFlushRun:{why}" }

/-! ### fastHandRun (C12) -/

def hFastHandRun : Handler := fun j => do
  let c ← parseHandCase j
  let fm := c.fm
  let fn := fm.base
  let script := c.hist ++ c.seq
  let goRun ← fldArr c.out "flushed"
  let mRun := fastScriptM fm (← script.mapM fastOp) (FastMod.init fm)
  let diff := handStatic c <|> firstDiff "run" mRun goRun
  let logic := handLogic fm script goRun
  let ff := ffHyp fm
  let lv := handLevels fn
  let dOut := ((List.range fn.nOutput).map fun k => lv.getD (fn.nSensor + k) 0).foldl max 0
  let (ffFail, held, nz) :=
    if ff then
      if goRun.length != script.length then (some "wrongNumberOfSteps", 0, false)
      else ffCheck fn dOut script goRun (List.replicate fn.nInput 0.0) 0 false
    else (none, 0, false)
  let specFail : Option String := if !logic then some "moduleLogic" else ffFail
  return { corr := diff.isNone, spec := specFail.isNone, nontrivial := held > 0 && nz,
           cls := handCls c ++ (if ff then s!":ffHyp:d{dOut}" else ""),
           detail := (diff.getD "") ++ (match specFail with | some s => " SPEC: " ++ s | none => ""),
           sig := match specFail with | some s => "fastHandRun:" ++ s | none => "" }

def fastHandOps : List (String × Handler) := [("fastHandFlushRun", hFastHandFlushRun), ("fastHandRun", hFastHandRun)]

end GoNeat.Driver
