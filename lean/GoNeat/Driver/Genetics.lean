/-
  Driver handlers for the genome-level ops: duplicate, dupThenMutate, compat, geneInsert, nodeInsert.
  Each handler recomputes the implementation's output with the model (`corr`) and evaluates the
  property's executable specification predicate on the implementation's output (`spec`).
-/
import GoNeat.Driver.Json
import GoNeat.Driver.WFCheck
import GoNeat.Model.Compat
import GoNeat.Spec.WF
import GoNeat.Spec.Compat

namespace GoNeat.Driver
open Lean

def errClassOfGo (s : String) : String :=
  if s.startsWith "incoming node" then
    if (s.splitOn "control node").length > 1 then "dup:missingModuleIn" else "dup:missingInNode"
  else if s.startsWith "outgoing node" then
    if (s.splitOn "control node").length > 1 then "dup:missingModuleOut" else "dup:missingOutNode"
  else s

/-- `duplicate`: C06 (exact copy, independence) and the duplication clause of C01 -/
def hDuplicate : Handler := fun j => do
  let inp ← fld j "in"
  let out ← fld j "out"
  let gj ← fld inp "g"
  let g ← parseGenome gj
  let newId ← fldInt inp "newId"
  let mal ← fldStr inp "malformed"
  let srcAfter ← fld out "srcAfter"
  let srcIntact := (jsonDiff "src" gj srcAfter).isNone
  let cls := (← fldStr inp "family") ++ (if mal == "" then "" else "/malformed:" ++ mal)
  match g.duplicate newId, fldOpt out "err" with
  | .error e, some ej =>
    let es ← ej.getStr?
    let same := errClassOfGo es == stopStr e
    return { corr := same, spec := srcIntact, nontrivial := true, cls := cls,
             detail := if same then "" else s!"error class: model {stopStr e} vs impl {es}" }
  | .error e, none => return { corr := false, spec := true, cls := cls, detail := s!"model rejects ({stopStr e}) but impl accepts" }
  | .ok _, some ej => return { corr := false, spec := true, cls := cls, detail := s!"impl rejects ({ej.compress}) but model accepts" }
  | .ok d, none =>
    let dj ← fld out "g"
    -- compare without the ownership bits
    let implG ← parseGenome dj
    let diff := jsonDiff "g" (jGenome d) (jGenome implG)
    let shared ← fldStr out "shared"
    -- C06 on the implementation's output: genetically equal apart from the id, own objects only, nothing shared
    let exact := (jsonDiff "copy" (jGenome { g with id := newId }) (jGenome implG)).isNone
    let own := ownBitsOk dj
    let inputOwn := ownBitsOk gj
    -- the property speaks about well-formed genomes: all references resolve inside the genome
    let refsOk := decide (TraitRefsOwned g) && decide (EndpointsOwned g) && inputOwn &&
                  g.modules.all (fun m => decide (TraitRefOk g m.ctrl.trait))
    let spec := !refsOk || (exact && own && shared == "" && srcIntact)
    let why := if !exact then "copy differs from source: " ++ ((jsonDiff "copy" (jGenome { g with id := newId }) (jGenome implG)).getD "")
               else if !own then "copy holds foreign pointers: " ++ ((fldStr dj "ownWhy").toOption.getD "")
               else if shared != "" then "copy shares mutable state with the source: " ++ shared
               else if !srcIntact then "source genome modified by duplicate" else ""
    let nontriv := g.genes.any (fun x => !x.en) || g.genes.any (·.recur) || !g.modules.isEmpty ||
                   g.genes.any (·.trait.isNone)
    -- C01 (duplication clause; modular genomes included): a well-formed genome has a well-formed, expressible copy
    let genesis := (fldStr out "genesis").toOption.getD ""
    let c01 : Option (String × String) :=
      if decide (C01.WFT g) && inputOwn then c01Produced "duplicate" [g] implG dj genesis else none
    let c06sig := if spec then "" else if !exact then "duplicate:not-exact" else "duplicate:not-independent"
    return { corr := diff.isNone, spec := spec && c01.isNone, nontrivial := nontriv && refsOk, cls := cls,
             detail := (diff.getD "") ++ (if spec then "" else why),
             sig := c06sig,
             props := [("C06", spec, why, c06sig), ("C01", c01.isNone, (c01.map (·.1)).getD "", (c01.map (·.2)).getD "")] }
where
  _u : Unit := ()

/-- `dupThenMutate`: mutating one side of a duplicate leaves the other unchanged (C06 independence) -/
def hDupThenMutate : Handler := fun j => do
  let inp ← fld j "in"
  let out ← fld j "out"
  let before ← fld inp "witnessBefore"
  let after ← fld out "witnessAfter"
  let victim ← fld out "victimAfter"
  let d := jsonDiff "witness" before after
  let changed := (jsonDiff "victim" before victim).isSome
  return { corr := true, spec := d.isNone, nontrivial := changed, cls := (← fldStr inp "family"),
           detail := d.getD "", sig := if d.isNone then "" else "duplicate:not-independent" }

def parseCompatOpts (j : Json) : E (CompatOpts Float) := do
  return { disjointCoeff := ← fldF j "disjoint", excessCoeff := ← fldF j "excess", mutdiffCoeff := ← fldF j "mutdiff",
           linear := ← fldBool j "linear" }

def relClose (a b : Float) : Bool :=
  a == b || Float.abs (a - b) ≤ 1e-9 * (Float.abs a + Float.abs b) + 1e-12

/-- `compat`: C07 -/
def hCompat : Handler := fun j => do
  let inp ← fld j "in"
  let out ← fld j "out"
  let a ← parseGenome (← fld inp "a")
  let b ← parseGenome (← fld inp "b")
  let o ← parseCompatOpts (← fld inp "opts")
  let linAB ← fldF out "linAB"; let linBA ← fldF out "linBA"
  let fastAB ← fldF out "fastAB"; let fastBA ← fldF out "fastBA"
  let dLin ← fldF out "dispatchLin"; let dFast ← fldF out "dispatchFast"
  let mLinAB := compatLinear o a b; let mLinBA := compatLinear o b a
  let mFastAB := compatFast o a b; let mFastBA := compatFast o b a
  let bitEq (x y : Float) := x.toBits == y.toBits
  let corr := bitEq linAB mLinAB && bitEq linBA mLinBA && bitEq fastAB mFastAB && bitEq fastBA mFastBA &&
              bitEq dLin (compatibility { o with linear := true } a b) && bitEq dFast (compatibility { o with linear := false } a b)
  -- specification: the NEAT formula from independently defined E, D, M, W̄
  let sorted := decide (GenesSorted a.genes) && decide (GenesSorted b.genes)
  let c := specCounts (a.genes.map (·.inn)) (b.genes.map (·.inn))
  let wbar := specMutDiffMean a.genes b.genes
  let formula := o.excessCoeff * Float.ofNat c.excess + o.disjointCoeff * Float.ofNat c.disjoint + o.mutdiffCoeff * wbar
  let family ← fldStr inp "family"
  let vals := [linAB, linBA, fastAB, fastBA]
  let noNaN := vals.all (fun v => !v.isNaN)
  let nonneg := vals.all (fun v => v ≥ 0.0)
  let sym := bitEq linAB linBA && bitEq fastAB fastBA
  let agree := relClose linAB fastAB
  -- the value users get is the dispatcher's (`Genome.compatibility` selects the method from the options): it must be the formula too
  let eqFormula := relClose linAB formula && relClose fastAB formula && relClose dLin formula && relClose dFast formula
  let selfZero := !(family == "self" || family == "duplicate") || (linAB == 0.0 && fastAB == 0.0)
  let countsOk := (compatLinearAcc a b).cnt == c && ((a.genes.isEmpty || b.genes.isEmpty) || (compatFastAcc o a b).cnt == c)
  let spec := !sorted || (noNaN && nonneg && sym && agree && eqFormula && selfZero)
  let why := if spec then "" else
    if !noNaN then "NaN" else if !nonneg then "negative" else if !sym then "asymmetric"
    else if !agree then s!"linear {linAB} vs fast {fastAB}" else if !eqFormula then s!"formula {formula} vs linear {linAB} fast {fastAB} dispatcher {dLin}/{dFast} (E={c.excess} D={c.disjoint} M={c.matching})"
    else "self/duplicate distance not zero"
  let nontriv := c.excess > 0 && c.disjoint > 0 && c.matching > 0
  return { corr := corr && (!sorted || countsOk), spec := spec, nontrivial := nontriv, cls := family,
           detail := (if corr then "" else s!"model lin {mLinAB.toBits}/{mLinBA.toBits} fast {mFastAB.toBits}/{mFastBA.toBits} vs impl {linAB.toBits}/{linBA.toBits} {fastAB.toBits}/{fastBA.toBits}; ") ++
                     (if !sorted || countsOk then "" else "model ghost counters differ from specification counts; ") ++ why,
           sig := if spec then "" else "compat:" ++ why.takeWhile (· != ' ') }

structure Tagged where
  key : Int
  tag : Int
deriving BEq, Repr

def parseTagged (j : Json) : E Tagged := do return { key := ← fldInt j "inn", tag := ← fldInt j "tag" }

def isSortedLe (l : List Int) : Bool :=
  match l with
  | [] => true
  | x :: xs => (xs.head?.map (fun y => decide (x ≤ y))).getD true && isSortedLe xs

/-- `geneInsert` / `nodeInsert`: both share `insertIndex` -/
def hInsert : Handler := fun j => do
  let inp ← fld j "in"
  let out ← fld j "out"
  let l ← (← fldArr inp "genes").mapM parseTagged
  let n ← parseTagged (← fld inp "new")
  let res ← (← fldArr out "genes").mapM parseTagged
  let m := insertAt l (insertIndex (l.map (·.key)) n.key) n
  let sortedIn := isSortedLe (l.map (·.key))
  -- spec (C01 building block): sorted in ⇒ sorted out, and the result is the input plus the new element, old order kept
  let spec := !sortedIn || (isSortedLe (res.map (·.key)) && res.filter (· != n) == l && res.length == l.length + 1)
  let intact ← fldBool out "inputIntact"
  let opName := (fldStr j "op").toOption.getD "insert"
  -- C01 building block in the words of the property: strictly sorted list + absent key ⇒ strictly sorted list that is
  -- the old list plus the new element
  let rec strict : List Int → Bool
    | [] => true
    | [_] => true
    | x :: y :: r => decide (x < y) && strict (y :: r)
  let absent := !l.any (·.key == n.key)
  let c01 := !(strict (l.map (·.key)) && absent) ||
             (strict (res.map (·.key)) && res.filter (· != n) == l && res.length == l.length + 1)
  return { corr := m == res, spec := spec && intact && c01, nontrivial := l.length ≥ 2,
           props := [("C01", c01, "ordered insertion broke the strict order / lost an element", "wf:" ++ opName ++ ":order")],
           cls := if sortedIn then (if l.any (·.key == n.key) then "equal-key" else "sorted") else "unsorted",
           detail := if m == res then "" else s!"model {repr m} vs impl {repr res}",
           sig := if spec && intact then "" else "insert:order" }

def geneticsOps : List (String × Handler) :=
  [("duplicate", hDuplicate), ("dupThenMutate", hDupThenMutate), ("compat", hCompat),
   ("geneInsert", hInsert), ("nodeInsert", hInsert)]

end GoNeat.Driver
