/-
  Driver handler of the genesis op (C11): `genesis` (harness: ops_genesis.go).
  Weights never take part in arithmetic here, so they are handled as their 64-bit patterns (`W := Nat`).
-/
import GoNeat.Driver.Json
import GoNeat.Spec.Genesis

namespace GoNeat.Driver
open Lean GoNeat.Genesis

def bitsW (f : Float) : Nat := f.toBits.toNat

def geneBits (x : Gene Float) : Gene Nat :=
  { inn := x.inn, src := x.src, dst := x.dst, recur := x.recur, w := bitsW x.w, mnum := bitsW x.mnum, en := x.en, trait := x.trait }
def wireBits (w : Wire Float) : Wire Nat := { node := w.node, w := bitsW w.w, recur := w.recur, trait := w.trait }
def moduleBits (m : Module Float) : Module Nat :=
  { inn := m.inn, mnum := bitsW m.mnum, en := m.en, ctrl := m.ctrl, ins := m.ins.map wireBits, outs := m.outs.map wireBits }
def genomeBits (g : Genome Float) : Genome Nat :=
  { id := g.id, traits := g.traits.map (fun t => { id := t.id, params := t.params.map bitsW }), nodes := g.nodes,
    genes := g.genes.map geneBits, modules := g.modules.map moduleBits }

def parseXLink (j : Json) : E (NLink Nat) := do
  return { src := ← fldNat j "src", dst := ← fldNat j "dst", w := ← fldNat j "w", recur := ← fldBool j "rec" }

def parseXNode (j : Json) : E (NNodeS Nat) := do
  return { id := ← fldInt j "id", kind := ← fldNat j "kind", act := ← fldNat j "act",
           incoming := ← (← fldArr j "in").mapM parseXLink, outgoing := ← (← fldArr j "out").mapM parseXLink }

def parseXNet (j : Json) : E (Net Nat) := do
  return { id := ← fldInt j "id", nodes := ← (← fldArr j "nodes").mapM parseXNode,
           inputs := ← arrNat (← fld j "inputs"), outputs := ← arrNat (← fld j "outputs"),
           ctrl := ← (← fldArr j "ctrl").mapM parseXNode }

def jXLink (l : NLink Nat) : Json := jObj [("src", jN l.src), ("dst", jN l.dst), ("w", jN l.w), ("rec", jB l.recur)]
def jXNode (nd : NNodeS Nat) : Json :=
  jObj [("id", jI nd.id), ("kind", jN nd.kind), ("act", jN nd.act), ("in", jArr jXLink nd.incoming), ("out", jArr jXLink nd.outgoing)]
def jXNet (net : Net Nat) : Json :=
  jObj [("id", jI net.id), ("nodes", jArr jXNode net.nodes), ("inputs", jArr jN net.inputs), ("outputs", jArr jN net.outputs),
        ("ctrl", jArr jXNode net.ctrl)]

def parseEdge (j : Json) : E (ELink Nat) := do
  return { src := some (← fldInt j "from"), dst := some (← fldInt j "to"), w := ← fldNat j "w", recur := ← fldBool j "rec" }

def parseOptEdge (j : Json) (k : String) : E (Option (ELink Nat)) :=
  match fldOpt j k with
  | none => pure none
  | some e => do return some (← parseEdge e)

def parsePair (j : Json) : E (PairAnswer Nat) := do
  let ok ← fldBool j "weightOk"
  let wv ← fldNat j "weight"
  return { u := ← fldInt j "u", v := ← fldInt j "v", edge := ← parseOptEdge j "edge", wedge := ← parseOptEdge j "wedge",
           weight := if ok then some wv else none,
           hasFromTo := ← fldBool j "hasFromTo", hasBetween := ← fldBool j "hasBetween" }

def parseIdAns (j : Json) : E IdAnswer := do
  let node ← match fldOpt j "node" with
    | none => pure none
    | some nd => do pure (some (← fldInt nd "id", ← fldNat nd "kind", ← fldNat nd "act"))
  return { u := ← fldInt j "u", node := node, from_ := (← arrInt (← fld j "from")).map some,
           to_ := (← arrInt (← fld j "to")).map some }

/-- the model's answers on one pair / one id, in the shape of the implementation's -/
def modelPair (net : Net Nat) (u v : Int) : PairAnswer Nat :=
  { u := u, v := v, edge := (edge? net u v).map (elink net), wedge := (edge? net u v).map (elink net),
    weight := weight? net u v, hasFromTo := hasEdgeFromTo net u v, hasBetween := hasEdgeBetween net u v }

def modelId (net : Net Nat) (u : Int) : IdAnswer :=
  { u := u, node := node? net u, from_ := fromIds net u, to_ := toIds net u }

def pairEq (a b : PairAnswer Nat) : Bool :=
  a.edge == b.edge && a.wedge == b.wedge && a.weight == b.weight && a.hasFromTo == b.hasFromTo && a.hasBetween == b.hasBetween

def idEq (a b : IdAnswer) : Bool := a.node == b.node && a.from_ == b.from_ && a.to_ == b.to_

def emptyPair (u v : Int) : PairAnswer Nat :=
  { u := u, v := v, edge := none, wedge := none, weight := none, hasFromTo := false, hasBetween := false }

def lookupPair (loud : List (PairAnswer Nat)) (u v : Int) : PairAnswer Nat :=
  match loud.find? fun p => p.u == u && p.v == v with
  | some p => p
  | none => emptyPair u v

def allPairs (ids : List Int) : List (Int × Int) := ids.flatMap fun u => ids.map fun v => (u, v)

def firstSome {α} (l : List α) (f : α → Option String) : Option String :=
  l.foldl (fun acc a => match acc with | some s => some s | none => f a) none

def hGenesis : Handler := fun j => do
  let inp ← fld j "in"
  let out ← fld j "out"
  let family ← fldStr inp "family"
  let path ← fldStr inp "path"
  -- paths `mutated` / `epoch` (op phenotype): the harness reports the id the code gave the network (C11 does not
  -- speak about it there); for the other paths it is the id that was asked for
  let netId ← fldInt inp "netId"
  let gj ← fld inp "genome"
  let g := genomeBits (← parseGenome gj)
  let ids ← match fldOpt inp "ids" with
    | none => pure []
    | some a => arrInt a
  let gErr := match fldOpt out "err" with
    | some (Json.str s) => some s
    | _ => none
  if !ownBitsOk gj || !GenomeOk g then
    return { corr := true, spec := true, nontrivial := false, cls := "skipped:notWellFormed",
             detail := "genome outside the hypotheses of C11 (foreign pointers / duplicate ids)" }
  match genesis g netId with
  | .error e =>
    let me := stopStr e
    let ok := gErr == some me
    -- the only refusals of a well-formed genome: no genes at all / no output node
    let specOk := (me == "noGenes" && g.genes.isEmpty) || (me == "noOutputs" && !g.nodes.any (fun n => n.kind == Kind.output))
    return { corr := ok, spec := !ok || specOk, nontrivial := false, cls := "refused:" ++ me,
             detail := if ok then "" else s!"model refuses with {me}, implementation: {gErr}",
             sig := if !ok || specOk then "" else "genesis:refusal" }
  | .ok mNet =>
    match gErr with
    | some e =>
      -- C11: every well-formed genome with at least one gene and an output node is expressed (any mix of enabled and
      -- disabled genes) - a refusal here is a violation, not only a disagreement with the model
      let ids := g.nodes.map (·.id)
      let wf := !g.genes.isEmpty && g.nodes.any (fun n => n.kind == Kind.output) && ids.eraseDups.length == ids.length &&
                g.genes.all (fun x => ids.contains x.src && ids.contains x.dst) && g.modules.isEmpty
      return { corr := false, spec := !wf, nontrivial := false, cls := "implRefused",
               detail := s!"implementation refuses with {e}, model builds",
               sig := if wf then "genesis:refusedWellFormed" else "" }
    | none =>
    let netJ ← fld out "net"
    let iNet ← parseXNet netJ
    let mimoOk ← fldBool netJ "mimoOk"
    let loud ← (← fldArr out "loud").mapM parsePair
    let idAns ← match fldOpt out "idAnswers" with
      | none => pure []
      | some a => do (← a.getArr?).toList.mapM parseIdAns
    let nodesIter ← arrInt (← fld out "nodesIter")
    let pairsAsked ← fldNat out "pairsAsked"
    let nodeCnt ← fldNat out "nodeCount"
    let linkCnt ← fldNat out "linkCount"
    let cplx ← fldNat out "complexity"
    let cached ← fldBool out "cached"
    let tnE ← fldNat out "edgeTypedNil"
    let tnW ← fldNat out "wedgeTypedNil"
    let tnN ← fldNat out "nodeTypedNil"
    let pairs := allPairs ids
    -- correspondence: network and every answer
    let netDiff := jsonDiff "net" (jXNet mNet) (jXNet iNet)
    let pairDiff := firstSome pairs fun (u, v) =>
      if pairEq (modelPair mNet u v) (lookupPair loud u v) then none else some s!"pair ({u},{v}) differs"
    let idDiff := firstSome ids fun u =>
      match idAns.find? (·.u == u) with
      | none => some s!"id {u}: no answer"
      | some a => if idEq (modelId mNet u) a then none else some s!"id {u}: node/from/to differ"
    let cntDiff :=
      if nodeIds mNet != nodesIter then some "Nodes() differs"
      else if nodeCount mNet != nodeCnt || linkCount mNet != linkCnt || complexity mNet != cplx then some "counts differ"
      else if pairsAsked != pairs.length || loud.length > pairs.length then some "pairsAsked"
      else if !mimoOk then some "allNodesMIMO is not allNodes ++ controlNodes (or BaseNodes / ControlNodes / AllNodes / IsControlNode disagree with them)"
      else none
    let diff := netDiff <|> pairDiff <|> idDiff <|> cntDiff
    -- C11 on the implementation's network and answers
    -- every failing clause is collected
    let overlapPair (u v : Int) : Bool :=
      (enabledMods g).any fun m => m.ctrl.id == u && m.ins.any (·.node == v) && m.outs.any (·.node == v)
    let pairLabel (u v : Int) : Option String :=
      let a := lookupPair loud u v
      let saysNoEdge := a.edge.isNone && a.wedge.isNone && a.weight.isNone && !a.hasFromTo
      if overlapPair u v && saysNoEdge && a.hasBetween then some "ctrlOverlapEdge"
      else if a.edge != specEdge g u v then some "edge"
      else if a.wedge != a.edge then some "weightedEdge"
      else if a.weight != (specEdge g u v).map (·.w) then some "weight"
      else if a.hasFromTo != specHasEdge g u v then some "hasEdgeFromTo"
      else if a.hasBetween != (specHasEdge g u v || specHasEdge g v u) then some "hasEdgeBetween" else none
    let idLabel (u : Int) : Option String :=
      match idAns.find? (·.u == u) with
      | none => some "id:missing"
      | some a =>
        if a.node != specNode g u then some "node"
        else if a.from_ != specFrom g u then some "from"
        else if a.to_ != specTo g u then some "to" else none
    let fails : List String :=
      (if expresses g netId iNet then [] else ["notExpressed"]) ++
      (if nodesIter == specNodes g then [] else ["nodes"]) ++
      ids.filterMap idLabel ++
      pairs.filterMap (fun (u, v) => pairLabel u v) ++
      (if nodeCnt == specNodeCount g && linkCnt == specLinkCount g && cplx == specNodeCount g + specLinkCount g then []
       else ["counts"]) ++
      (if path == "genesis" || cached then [] else ["phenotypeNotCached"]) ++
      -- an absent node / edge must be a nil interface value, not an interface holding a nil pointer
      (if tnE + tnW + tnN == 0 then [] else ["typedNil"])
    -- (both were known findings until the repairs 513f15a / 9995670; they keep their own labels and are reported
    -- after every other kind of failure)
    let lateKinds := ["ctrlOverlapEdge", "typedNil"]
    let why : Option String :=
      match fails.find? (fun f => !lateKinds.contains f) with
      | some f => some f
      | none => fails.head?
    let hasMod := !(enabledMods g).isEmpty
    let hasDis := g.genes.any (fun x => !x.en)
    let hasRec := g.genes.any (fun x => x.en && (x.recur || x.src == x.dst))
    let nontriv := if path == "mutated" || path == "epoch" then (enabledGenes g).length ≥ 2 && (hasDis || hasRec)
      else hasDis && (hasRec || hasMod) && (enabledGenes g).length ≥ 2
    return { corr := diff.isNone, spec := why.isNone, nontrivial := nontriv,
             cls := path ++ (if hasMod then ":mod" else "") ++ (if hasDis then ":dis" else "") ++ (if hasRec then ":rec" else ""),
             detail := (diff.getD "") ++ (match why with | some s => " SPEC: " ++ s | none => "") ++ s!" [{family}]",
             sig := match why with | some s => "genesis:" ++ s | none => "" }

def genesisOps : List (String × Handler) := [("genesis", hGenesis), ("phenotype", hGenesis)]

end GoNeat.Driver
