-- all property modules (built by setup.sh)
import GoNeat.Props.C04
import GoNeat.Props.C05
import GoNeat.Props.C06
import GoNeat.Props.C07
import GoNeat.Props.C07Exact
import GoNeat.Props.C08
import GoNeat.Props.C12
import GoNeat.Props.C13
import GoNeat.Props.C18
import GoNeat.Props.C09
import GoNeat.Props.C09Exact
import GoNeat.Props.C10
import GoNeat.Props.C02
import GoNeat.Props.C02Ids
import GoNeat.Props.C02Epoch
import GoNeat.Props.C08Batch
import GoNeat.Props.C10Sort
