-- all property modules (built by setup.sh)
import GoNeat.Props.C04
import GoNeat.Props.C05
import GoNeat.Props.C06
import GoNeat.Props.C07
import GoNeat.Props.C07Exact
import GoNeat.Props.C08
import GoNeat.Props.C12
import GoNeat.Props.C13
import GoNeat.Props.C18
import GoNeat.Props.C09
import GoNeat.Props.C09Exact
import GoNeat.Props.C10
import GoNeat.Props.C01
