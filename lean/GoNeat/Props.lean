-- all property modules (built by setup.sh)
import GoNeat.Props.C13
import GoNeat.Props.C12
