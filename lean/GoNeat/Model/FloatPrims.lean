/-
  Float primitives of Go's `math` package that Lean core does not provide, written from the Go 1.23 sources
  (math/signbit.go, math/dim.go).  CORE ONLY.  Part of the trusted base of the Float side of C18 (their agreement with
  Go is exercised bit-for-bit by the `act_*` correspondence ops).
-/
namespace GoNeat

/-- `math.Signbit`: the sign bit of the IEEE-754 pattern (true for negative numbers and for -0).
    (`Float.toBits` canonicalises NaN, so the sign of a NaN is not observable; NaN inputs are outside C18.) -/
def signbit (x : Float) : Bool := x.toBits >>> 63 == 1

def posInf : Float := Float.ofBits 0x7FF0000000000000
def negInf : Float := Float.ofBits 0xFFF0000000000000
def nan : Float := Float.ofBits 0x7FF8000000000001

/-- `math.Max` (special cases: +Inf wins, then NaN, then +0 over -0) -/
def goMax (x y : Float) : Float :=
  if x == posInf || y == posInf then posInf
  else if x.isNaN || y.isNaN then nan
  else if x == 0 && x == y then (if signbit x then y else x)
  else if x > y then x else y

/-- `math.Min` (special cases: -Inf wins, then NaN, then -0 over +0) -/
def goMin (x y : Float) : Float :=
  if x == negInf || y == negInf then negInf
  else if x.isNaN || y.isNaN then nan
  else if x == 0 && x == y then (if signbit x then x else y)
  else if x < y then x else y

/-- distance in units of the last place between two finite floats of the same sign class (via the usual monotone
    integer encoding of the bit patterns); used for the tolerance of the exp/tanh/sin based activators -/
def ulpKey (x : Float) : Int :=
  let b := x.toBits.toNat
  if b ≥ 2^63 then -((b - 2^63 : Nat) : Int) else (b : Int)

def ulpDist (x y : Float) : Nat := (ulpKey x - ulpKey y).natAbs

end GoNeat
