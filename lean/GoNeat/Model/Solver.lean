/-
  Standard network solver: dynamics of `network.Network` (neat/network/network.go, nnode.go, common.go)
  over the shared static model `Net` / `NState` of Model/Net.lean.

  * state = one `NState` per entry of `allNodes` (same index), Go's in-place mutation is threaded explicitly;
    every sweep reads the *current* state, so the in-place order effects of the Go loops are reproduced
    (e.g. `isActive` set for an earlier node in a sweep is seen by later nodes of the same sweep);
  * the activation function is a parameter `σ : Nat → W → Option W` (= `NodeActivators.ActivateByType`,
    `none` = "unknown neuron activation type");
  * every operation is total: it returns the new state, the Go return values and an error class; a Go run-time
    panic (index out of range in `LoadSensors`) is the error class `panic` with the partial mutation kept;
  * MIMO control nodes (`controlNodes`, third sweep of `ActivateSteps`) are NOT in this file: it is the model of
    networks with `ctrl = []`; the modular model is Model/SolverMod.lean, which coincides with this one for
    `ctrl = []` (refinement theorems in Proofs/SolverModFlush.lean).  `ActivationsCount` is `int32` in Go and a `Nat` here (no wrap after 2^31 activations).
-/
import GoNeat.Model.Net

namespace GoNeat.Solver

variable {W : Type}

/-- error classes of both solvers -/
inductive Err where
  | zeroSteps      -- ErrZeroActivationStepsRequested
  | exceeded       -- ErrNetExceededMaxActivationAttempts
  | unknownAct     -- ActivateByType: unknown neuron activation type
  | sensorsSize    -- ErrNetUnsupportedSensorsArraySize
  | flushCheck     -- FlushbackCheck failed
  | panic          -- Go run-time panic (index out of range)
  | lookup         -- FastNetworkSolver: failed to lookup neuron
  | recFailed      -- fast RecursiveSteps: failed to recursively activate
  | notImpl        -- Network.Relax
  | fuel           -- model fuel exhausted (unreachable; see the fuel lemmas)
  | modular        -- MaxActivationDepthWithCap: unsupported for modular networks (Network.RecursiveSteps)
  | unknownModAct  -- ActivateModuleByType: unknown module activation type
  | moduleOutLen   -- ActivateModule: number of outputs of the activator != number of output neurons
  | recModules     -- fast RecursiveSteps: can not be used for network with defined modules
deriving DecidableEq, Repr

def Err.str : Err → String
  | .zeroSteps => "zeroSteps" | .exceeded => "exceeded" | .unknownAct => "unknownAct"
  | .sensorsSize => "sensorsSize" | .flushCheck => "flushCheck" | .panic => "panic" | .lookup => "lookup"
  | .recFailed => "recFailed" | .notImpl => "notImpl" | .fuel => "fuel"
  | .modular => "modular" | .unknownModAct => "unknownModAct" | .moduleOutLen => "moduleOutLen"
  | .recModules => "recModules"

/-- solver state: `NState` of node `i` of `allNodes` at position `i` -/
abbrev St (W : Type) := List (NState W)

section
variable [Scalar W]

def get (s : St W) (i : Nat) : NState W := s.getD i NState.fresh

def upd : St W → Nat → (NState W → NState W) → St W
  | [], _, _ => []
  | a :: l, 0, f => f a :: l
  | a :: l, i + 1, f => a :: upd l i f

/-- state of a freshly built network (`NewNNode` zero values) -/
def init (net : Net W) : St W := net.nodes.map fun _ => NState.fresh

def isSensorAt (net : Net W) (i : Nat) : Bool :=
  match net.nodes[i]? with
  | some nd => nd.isSensor
  | none => false

def kindAt (net : Net W) (i : Nat) : Option Kind := (net.nodes[i]?).map (·.kind)

/-- `NNode.GetActiveOut` -/
def activeOut (x : NState W) : W := if x.count > 0 then x.activation else Scalar.zero
/-- `NNode.GetActiveOutTd` -/
def activeOutTd (x : NState W) : W := if x.count > 1 then x.last else Scalar.zero

/-- `NNode.saveActivations` -/
def saveActs (x : NState W) : NState W := { x with last2 := x.last, last := x.activation }
/-- `NNode.setActivation` -/
def setActivation (v : W) (x : NState W) : NState W :=
  { saveActs x with activation := v, count := x.count + 1 }
/-- body of `NNode.SensorLoad` for a sensor -/
def sensorLoad (v : W) (x : NState W) : NState W :=
  { saveActs x with count := x.count + 1, activation := v }

/-! ### LoadSensors -/

/-- first branch (`len(sensors) == len(n.inputs)`): every `IsSensor` node of `inputs` takes the next value -/
def loadEq (net : Net W) : List Nat → List W → St W → St W × Option Err
  | [], _, s => (s, none)
  | i :: rest, xs, s =>
    if isSensorAt net i then
      match xs with
      | [] => (s, some .panic)
      | x :: xs' => loadEq net rest xs' (upd s i (sensorLoad x))
    else loadEq net rest xs s

/-- second branch: input-type nodes take the next value, every other node is `SensorLoad(1.0)`ed
    (which is a no-op on a non-sensor) -/
def loadNe (net : Net W) : List Nat → List W → St W → St W × Option Err
  | [], _, s => (s, none)
  | i :: rest, xs, s =>
    if kindAt net i == some Kind.input then
      match xs with
      | [] => (s, some .panic)
      | x :: xs' => loadNe net rest xs' (upd s i (sensorLoad x))
    else if isSensorAt net i then loadNe net rest xs (upd s i (sensorLoad Scalar.one))
    else loadNe net rest xs s

/-- `Network.LoadSensors` -/
def loadSensors (net : Net W) (xs : List W) (s : St W) : St W × Option Err :=
  if xs.length == net.inputs.length then loadEq net net.inputs xs s else loadNe net net.inputs xs s

/-! ### ActivateSteps -/

/-- `Network.OutputIsOff` -/
def outputIsOff (net : Net W) (s : St W) : Bool := net.outputs.any fun o => (get s o).count == 0

/-- one incoming link of node `i` in the first sweep -/
def linkStep (net : Net W) (i : Nat) (s : St W) (l : NLink W) : St W :=
  let src := get s l.src
  if !l.timeDelayed then
    let add := Scalar.mul l.w (activeOut src)
    let s1 := if src.isActive || isSensorAt net l.src then upd s i (fun x => { x with isActive := true }) else s
    upd s1 i (fun x => { x with sum := Scalar.add x.sum add })
  else
    let add := Scalar.mul l.w (activeOutTd src)
    upd s i (fun x => { x with sum := Scalar.add x.sum add })

/-- first sweep, node `i`: reset the sum, add every incoming link in `Incoming` order -/
def sumNode (net : Net W) (nd : NNodeS W) (i : Nat) (s : St W) : St W :=
  nd.incoming.foldl (linkStep net i) (upd s i (fun x => { x with sum := Scalar.zero }))

def sweep1Aux (net : Net W) : List (NNodeS W) → Nat → St W → St W
  | [], _, s => s
  | nd :: rest, i, s => sweep1Aux net rest (i + 1) (if nd.isNeuron then sumNode net nd i s else s)

def sweep1 (net : Net W) (s : St W) : St W := sweep1Aux net net.nodes 0 s

/-- second sweep: `ActivateNode` on every active neuron; stops at the first activation error -/
def sweep2Aux (σ : Nat → W → Option W) : List (NNodeS W) → Nat → St W → St W × Option Err
  | [], _, s => (s, none)
  | nd :: rest, i, s =>
    if nd.isNeuron && (get s i).isActive then
      match σ nd.act (get s i).sum with
      | none => (s, some .unknownAct)
      | some out => sweep2Aux σ rest (i + 1) (upd s i (setActivation out))
    else sweep2Aux σ rest (i + 1) s

def sweep2 (net : Net W) (σ : Nat → W → Option W) (s : St W) : St W × Option Err := sweep2Aux σ net.nodes 0 s

/-- result of a solver call: new state, the boolean result, the error -/
abbrev Res (W : Type) := St W × Bool × Option Err

/-- the `for n.OutputIsOff() || !oneTime` loop; `fuel` bounds the number of iterations (`maxSteps+1` suffice) -/
def actLoop (net : Net W) (σ : Nat → W → Option W) (maxSteps : Int) : Nat → Nat → Bool → St W → Res W
  | 0, _, _, s => (s, false, some .fuel)
  | fuel + 1, abort, oneTime, s =>
    if outputIsOff net s || !oneTime then
      if (abort : Int) ≥ maxSteps then (s, false, some .exceeded)
      else
        match sweep2 net σ (sweep1 net s) with
        | (s2, some e) => (s2, false, some e)
        | (s2, none) => actLoop net σ maxSteps fuel (abort + 1) true s2
    else (s, true, none)

/-- `Network.ActivateSteps` -/
def activateSteps (net : Net W) (σ : Nat → W → Option W) (maxSteps : Int) (s : St W) : Res W :=
  if maxSteps == 0 then (s, false, some .zeroSteps)
  else actLoop net σ maxSteps (maxSteps.toNat + 2) 0 false s

def fwdLoop (net : Net W) (σ : Nat → W → Option W) (steps : Int) : Nat → Bool → St W → Res W
  | 0, res, s => (s, res, none)
  | k + 1, _, s =>
    match activateSteps net σ steps s with
    | (s', _, some e) => (s', false, some e)
    | (s', r, none) => fwdLoop net σ steps k r s'

/-- `Network.ForwardSteps` -/
def forwardSteps (net : Net W) (σ : Nat → W → Option W) (steps : Int) (s : St W) : Res W :=
  if steps == 0 then (s, false, some .zeroSteps) else fwdLoop net σ steps steps.toNat false s

/-! ### depth (minimal private version of `NNode.Depth(0, 0)` / `MaxActivationDepthWithCap(0)`; to be unified
    with Model/Depth.lean).  Works on the vector of `visited` flags. -/

def depthAux (net : Net W) : Nat → List Bool → Nat → Nat → Nat × List Bool
  | 0, vis, _, d => (d, vis)
  | f + 1, vis, i, d =>
    match net.nodes[i]? with
    | none => (d, vis)
    | some nd =>
      if nd.isSensor then (d, vis)
      else
        let r := nd.incoming.foldl (fun (acc : Nat × List Bool) l =>
          if acc.2.getD l.src false then acc
          else
            let c := depthAux net f acc.2 l.src (d + 1)
            (if c.1 > acc.1 then c.1 else acc.1, c.2)) (d, vis.set i true)
        (r.1, r.2.set i false)

/-- `MaxActivationDepthWithCap(0)` for a network without control nodes -/
def maxDepth (net : Net W) (vis : List Bool) : Nat × List Bool :=
  if net.nodes.length == net.inputs.length + net.outputs.length then (1, vis)
  else
    net.outputs.foldl (fun (acc : Nat × List Bool) o =>
      let c := depthAux net (net.nodes.length + 2) acc.2 o 0
      (if c.1 > acc.1 then c.1 else acc.1, c.2)) (0, vis)

def setVisited : St W → List Bool → St W
  | [], _ => []
  | a :: l, [] => a :: l
  | a :: l, b :: bs => { a with visited := b } :: setVisited l bs

/-- `Network.RecursiveSteps` -/
def recursiveSteps (net : Net W) (σ : Nat → W → Option W) (s : St W) : Res W :=
  let r := maxDepth net (s.map (·.visited))
  forwardSteps net σ (r.1 : Int) (setVisited s r.2)

/-! ### Flush -/

/-- `NNode.Flushback`: everything but `ActivationSum` -/
def flushback (x : NState W) : NState W :=
  { x with count := 0, activation := Scalar.zero, last := Scalar.zero, last2 := Scalar.zero,
           isActive := false, visited := false }

/-- `NNode.FlushbackCheck` reports an error -/
def flushCheckFails (x : NState W) : Bool :=
  x.count > 0 || Scalar.lt Scalar.zero x.activation || Scalar.lt Scalar.zero x.last || Scalar.lt Scalar.zero x.last2

/-- loop of `Network.Flush`: stops (leaving the rest untouched) at the first failed check -/
def flushAux : St W → St W × Bool × Option Err
  | [] => ([], true, none)
  | a :: l =>
    let a' := flushback a
    if flushCheckFails a' then (a' :: l, false, some .flushCheck)
    else
      let r := flushAux l
      (a' :: r.1, r.2)

/-- `Network.Flush` -/
def flush (s : St W) : Res W := flushAux s

/-- `Network.ReadOutputs` -/
def readOutputs (net : Net W) (s : St W) : List W := net.outputs.map fun o => (get s o).activation

/-! ### operation sequences -/

/-- one call of the `Solver` interface (standard network) -/
inductive Op (W : Type) where
  | load (xs : List W)
  | activate (maxSteps : Int)
  | forward (steps : Int)
  | recursive
  | relax
  | flush
deriving Repr

/-- what a caller sees of one call: boolean result, error, `ReadOutputs()` afterwards -/
structure Obs (W : Type) where
  res : Bool
  err : Option Err
  outs : List W
deriving Repr

def step (net : Net W) (σ : Nat → W → Option W) (s : St W) : Op W → Res W
  | .load xs => let r := loadSensors net xs s; (r.1, r.2.isNone, r.2)
  | .activate n => activateSteps net σ n s
  | .forward n => forwardSteps net σ n s
  | .recursive => recursiveSteps net σ s
  | .relax => (s, false, some .notImpl)
  | .flush => flush s

def obsOf (net : Net W) (r : Res W) : Obs W := { res := r.2.1, err := r.2.2, outs := readOutputs net r.1 }

/-- run a sequence; returns the final state and the observation after every call -/
def run (net : Net W) (σ : Nat → W → Option W) : List (Op W) → St W → St W × List (Obs W)
  | [], s => (s, [])
  | op :: ops, s =>
    let r := step net σ s op
    let t := run net σ ops r.1
    (t.1, obsOf net r :: t.2)

end
end GoNeat.Solver
