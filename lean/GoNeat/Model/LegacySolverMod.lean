/-
  Frozen copies of the two `Flush` loops of MODULAR networks as they were before the repairs
    842abdd "fix: Network.Flush also resets the control nodes of a modular network"            (defect F15)
    1a387d5 "fix: FastModularNetworkSolver.Flush clears the processing cells of bias neurons too" (defect F16)
  Kept only for the machine-checked counterexamples `C13Mod.std_flush_legacy_counterexample` and
  `C13Mod.fast_flush_legacy_counterexample`.
-/
import GoNeat.Model.FastSolverMod

namespace GoNeat.SolverMod.Legacy
open GoNeat.Solver

variable {W : Type} [Scalar W]

/-- loop of the old `Network.Flush` over the first `n` cells (= `allNodes`): control nodes were not visited -/
def flushN : Nat → St W → St W × Bool × Option Err
  | 0, s => (s, true, none)
  | _ + 1, [] => ([], true, none)
  | n + 1, a :: l =>
    let a' := flushback a
    if flushCheckFails a' then (a' :: l, false, some .flushCheck)
    else
      let r := flushN n l
      (a' :: r.1, r.2)

/-- the old `Network.Flush` -/
def flush (net : Net W) (s : St W) : Res W := flushN net.nodes.length s

end GoNeat.SolverMod.Legacy

namespace GoNeat.FastMod.Legacy
open GoNeat.Fast

variable {W : Type} [Scalar W]

/-- the old `FastModularNetworkSolver.Flush`: BOTH arrays zeroed from `biasNeuronCount` on, so the processing cells
    of the bias neurons survived -/
def flush (fn : FastNet W) (s : FState W) : Res W :=
  ({ s with signals := zeroFrom fn.nBias s.signals, processing := zeroFrom fn.nBias s.processing }, true, none)

end GoNeat.FastMod.Legacy
