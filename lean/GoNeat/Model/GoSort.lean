/-
  Executable model of `sort.Sort` of the installed Go toolchain (go1.23: /usr/lib/go-1.23/src/sort/sort.go and
  zsortinterface.go): `Sort` -> `pdqsort(data, 0, n, bits.Len(uint(n)))`, transliterated function by function.
  CORE LEAN ONLY (compiled into the driver).

  Representation.  The Go code sees the data only through `Less(i,j)` and `Swap(i,j)` on POSITIONS.  The model keeps
  an `Array Nat` `d` of INDICES into the original list (`d[p]` = which original element currently sits at
  position `p`); `Less(i,j)` is `lt d[i] d[j]` where `lt x y := less l[x] l[y]`; `Swap` swaps two cells.
  `sort.Reverse` is not modelled separately: it only swaps the arguments of `Less`, so the callers pass
  `fun a b => less b a`.

  All loops are structural or fuel recursion (total, no `partial`); the fuel of every loop is at least the length
  of the slice, which bounds its number of iterations, so fuel never runs out (this is NOT proved - see below).

  What is proved and what is not.  Nothing is proved about `pdqLoop`.  `goSort` is a CHECKED wrapper: the pdq
  result is used only if it is (decidably) a permutation of the indices and sorted w.r.t. `less`; otherwise
  `goSort` falls back to `goInsertionSort`.  Hence `goSort_perm`, `goSort_sorted`, `goSort_head_min`
  (Proofs/SortLemmas.lean) hold unconditionally, while `goSort` equals the transliterated pdqsort on every input
  on which the transliteration returns a sorted permutation - which Go's pdqsort does for every strict weak order.
  That the transliteration IS Go's `sort.Sort` is validated by the correspondence op `goSort` (Driver/Sort.lean;
  the driver reports a case as failed if the fallback was taken) and by the epoch co-simulation.
  Limit: if `less` is not a strict weak order (a NaN fitness), Go's result need not be sorted; then the fallback
  is taken and the model's order may differ from Go's.  NaN fitness is excluded by the `fitnessOk` input guard.
-/
namespace GoNeat

/-! ### Go's `insertionSort` on a list (what `sort.Sort` runs for n ≤ 12; stable) -/

/-- Go's insertion sort written directly: process elements left to right, each moved left past all
    elements it is strictly less than -/
def goInsertionSort {α} (less : α → α → Bool) (l : List α) : List α :=
  l.foldl (fun sorted x =>
    -- move x left while less x (its left neighbour)
    let rec go (revLeft : List α) (acc : List α) : List α :=
      match revLeft with
      | [] => x :: acc
      | y :: ys => if less x y then go ys (y :: acc) else revLeft.reverse ++ x :: acc
    go sorted.reverse []) []

/-- two distinct positions compare equal under the sort order -/
def sortHasTie {α} (less : α → α → Bool) : List α → Bool
  | [] => false
  | x :: xs => xs.any (fun y => !less x y && !less y x) || sortHasTie less xs

namespace Pdq

/-- `data.Less(i, j)` -/
@[inline] def dLess (lt : Nat → Nat → Bool) (d : Array Nat) (i j : Nat) : Bool := lt (d.getD i 0) (d.getD j 0)
/-- `data.Swap(i, j)` -/
@[inline] def dSwap (d : Array Nat) (i j : Nat) : Array Nat := d.swapIfInBounds i j

/-- `for c(i) { i++ }` -/
def whileUp (c : Nat → Bool) : Nat → Nat → Nat
  | 0, i => i
  | f+1, i => if c i then whileUp c f (i+1) else i
/-- `for c(j) { j-- }` -/
def whileDown (c : Nat → Bool) : Nat → Nat → Nat
  | 0, j => j
  | f+1, j => if c j then whileDown c f (j-1) else j

/-- sort.go:72-75 `nextPowerOfTwo` uses `bits.Len` -/
def bitsLen (n : Nat) : Nat :=
  let rec go : Nat → Nat → Nat
    | 0, _ => 0
    | f+1, n => if n == 0 then 0 else go f (n / 2) + 1
  go 64 n

/-- zsortinterface.go:10-16, inner loop `for j := i; j > a && data.Less(j, j-1); j-- { data.Swap(j, j-1) }` -/
def insInner (lt : Nat → Nat → Bool) (a : Nat) : Nat → Array Nat → Array Nat
  | 0, d => d
  | j+1, d => if j+1 > a && dLess lt d (j+1) j then insInner lt a j (dSwap d (j+1) j) else d

/-- zsortinterface.go:10-16 `insertionSort(data, a, b)` -/
def insertionSort (lt : Nat → Nat → Bool) (d : Array Nat) (a b : Nat) : Array Nat :=
  (List.range' (a+1) (b - (a+1))).foldl (fun d i => insInner lt a i d) d

/-- zsortinterface.go:20-36 `siftDown(data, lo, hi, first)`; argument order: fuel, root (= lo at entry) -/
def siftDown (lt : Nat → Nat → Bool) (hi first : Nat) : Nat → Nat → Array Nat → Array Nat
  | 0, _, d => d
  | f+1, root, d =>
    let child := 2*root + 1
    if child ≥ hi then d else
    let child := if child+1 < hi && dLess lt d (first+child) (first+child+1) then child+1 else child
    if !dLess lt d (first+root) (first+child) then d else
    siftDown lt hi first f child (dSwap d (first+root) (first+child))

/-- zsortinterface.go:38-53 `heapSort(data, a, b)` -/
def heapSort (lt : Nat → Nat → Bool) (d : Array Nat) (a b : Nat) : Array Nat :=
  let first := a
  let lo := 0
  let hi := b - a
  -- for i := (hi - 1) / 2; i >= 0; i--
  let d := (List.range ((hi - 1) / 2 + 1)).reverse.foldl (fun d i => siftDown lt hi first (hi+1) i d) d
  -- for i := hi - 1; i >= 0; i--
  (List.range hi).reverse.foldl (fun d i => siftDown lt i first (hi+1) lo (dSwap d first (first+i))) d

/-- zsortinterface.go:141-158, the `for { ... }` loop of `partition`; returns (data, i, j) -/
def partitionLoop (lt : Nat → Nat → Bool) (a : Nat) : Nat → Array Nat → Nat → Nat → Array Nat × Nat × Nat
  | 0, d, i, j => (d, i, j)
  | f+1, d, i, j =>
    let i := whileUp (fun i => i ≤ j && dLess lt d i a) (d.size+1) i
    let j := whileDown (fun j => i ≤ j && !dLess lt d j a) (d.size+1) j
    if i > j then (d, i, j) else
    partitionLoop lt a f (dSwap d i j) (i+1) (j-1)

/-- zsortinterface.go:125-161 `partition(data, a, b, pivot) (newpivot, alreadyPartitioned)` -/
def partition (lt : Nat → Nat → Bool) (d : Array Nat) (a b pivot : Nat) : Array Nat × Nat × Bool :=
  let d := dSwap d a pivot
  let i := a + 1
  let j := b - 1
  let i := whileUp (fun i => i ≤ j && dLess lt d i a) (d.size+1) i
  let j := whileDown (fun j => i ≤ j && !dLess lt d j a) (d.size+1) j
  if i > j then (dSwap d j a, j, true) else
  let d := dSwap d i j
  let i := i + 1
  let j := j - 1
  let (d, _, j) := partitionLoop lt a (d.size+1) d i j
  (dSwap d j a, j, false)

/-- zsortinterface.go:169-184, the loop of `partitionEqual`; returns (data, i) -/
def partitionEqualLoop (lt : Nat → Nat → Bool) (a : Nat) : Nat → Array Nat → Nat → Nat → Array Nat × Nat
  | 0, d, i, _ => (d, i)
  | f+1, d, i, j =>
    let i := whileUp (fun i => i ≤ j && !dLess lt d a i) (d.size+1) i
    let j := whileDown (fun j => i ≤ j && dLess lt d a j) (d.size+1) j
    if i > j then (d, i) else
    partitionEqualLoop lt a f (dSwap d i j) (i+1) (j-1)

/-- zsortinterface.go:165-185 `partitionEqual(data, a, b, pivot) (newpivot)` -/
def partitionEqual (lt : Nat → Nat → Bool) (d : Array Nat) (a b pivot : Nat) : Array Nat × Nat :=
  let d := dSwap d a pivot
  partitionEqualLoop lt a (d.size+1) d (a+1) (b-1)

/-- zsortinterface.go:209-216 `for j := i - 1; j >= 1; j-- { if !Less(j, j-1) {break}; Swap(j, j-1) }` (sic: `j >= 1`) -/
def shiftLeft (lt : Nat → Nat → Bool) : Nat → Array Nat → Array Nat
  | 0, d => d
  | j+1, d => if !dLess lt d (j+1) j then d else shiftLeft lt j (dSwap d (j+1) j)

/-- zsortinterface.go:218-225 `for j := i + 1; j < b; j++ { if !Less(j, j-1) {break}; Swap(j, j-1) }` -/
def shiftRight (lt : Nat → Nat → Bool) (b : Nat) : Nat → Nat → Array Nat → Array Nat
  | 0, _, d => d
  | f+1, j, d =>
    if j < b then
      if !dLess lt d j (j-1) then d else shiftRight lt b f (j+1) (dSwap d j (j-1))
    else d

/-- zsortinterface.go:194-227, the `for j := 0; j < maxSteps; j++` loop of `partialInsertionSort` -/
def partialInsertionLoop (lt : Nat → Nat → Bool) (a b : Nat) : Nat → Array Nat → Nat → Array Nat × Bool
  | 0, d, _ => (d, false)
  | steps+1, d, i =>
    let i := whileUp (fun i => i < b && !dLess lt d i (i-1)) (d.size+1) i
    if i == b then (d, true) else
    if b - a < 50 then (d, false) else            -- shortestShifting = 50
    let d := dSwap d i (i-1)
    let d := if i - a ≥ 2 then shiftLeft lt (i-1) d else d
    let d := if b - i ≥ 2 then shiftRight lt b (d.size+1) (i+1) d else d
    partialInsertionLoop lt a b steps d i

/-- zsortinterface.go:188-228 `partialInsertionSort(data, a, b) bool`; maxSteps = 5 -/
def partialInsertionSort (lt : Nat → Nat → Bool) (d : Array Nat) (a b : Nat) : Array Nat × Bool :=
  partialInsertionLoop lt a b 5 d (a+1)

/-- sort.go:65-70 `(*xorshift).Next`: uint64 arithmetic -/
def xorshiftNext (r : UInt64) : UInt64 :=
  let r := r ^^^ (r <<< 13)
  let r := r ^^^ (r >>> 17)
  let r := r ^^^ (r <<< 5)
  r

/-- zsortinterface.go:232-247 `breakPatterns(data, a, b)` -/
def breakPatterns (d : Array Nat) (a b : Nat) : Array Nat :=
  let length := b - a
  if length ≥ 8 then
    let random : UInt64 := UInt64.ofNat length
    let modulus : Nat := 2 ^ bitsLen length            -- nextPowerOfTwo
    let idx0 := a + (length/4)*2 - 1
    -- for idx := a + (length/4)*2 - 1; idx <= a + (length/4)*2 + 1; idx++
    let (d, _) := (List.range 3).foldl (fun (st : Array Nat × UInt64) k =>
        let (d, random) := st
        let idx := idx0 + k
        let random := xorshiftNext random
        let other := random.toNat % modulus              -- int(uint(random.Next()) & (modulus - 1))
        let other := if other ≥ length then other - length else other
        (dSwap d idx (a + other), random)) (d, random)
    d
  else d

/-- zsortinterface.go:293-299 `order2(data, a, b, swaps)` -/
@[inline] def order2 (lt : Nat → Nat → Bool) (d : Array Nat) (a b swaps : Nat) : Nat × Nat × Nat :=
  if dLess lt d b a then (b, a, swaps+1) else (a, b, swaps)

/-- zsortinterface.go:302-307 `median(data, a, b, c, swaps)` -/
def median (lt : Nat → Nat → Bool) (d : Array Nat) (a b c swaps : Nat) : Nat × Nat :=
  let (a, b, swaps) := order2 lt d a b swaps
  let (b, _, swaps) := order2 lt d b c swaps
  let (_, b, swaps) := order2 lt d a b swaps
  (b, swaps)

/-- zsortinterface.go:310-312 `medianAdjacent(data, a, swaps)` -/
def medianAdjacent (lt : Nat → Nat → Bool) (d : Array Nat) (a swaps : Nat) : Nat × Nat :=
  median lt d (a-1) a (a+1) swaps

/-- hints: 0 = unknownHint, 1 = increasingHint, 2 = decreasingHint (sort.go:54-60) -/
abbrev unknownHint : Nat := 0
abbrev increasingHint : Nat := 1
abbrev decreasingHint : Nat := 2

/-- zsortinterface.go:254-290 `choosePivot(data, a, b) (pivot, hint)`; shortestNinther = 50, maxSwaps = 12 -/
def choosePivot (lt : Nat → Nat → Bool) (d : Array Nat) (a b : Nat) : Nat × Nat :=
  let l := b - a
  let swaps := 0
  let i := a + l/4*1
  let j := a + l/4*2
  let k := a + l/4*3
  let (j, swaps) :=
    if l ≥ 8 then
      let (i, j, k, swaps) :=
        if l ≥ 50 then
          let (i, swaps) := medianAdjacent lt d i swaps
          let (j, swaps) := medianAdjacent lt d j swaps
          let (k, swaps) := medianAdjacent lt d k swaps
          (i, j, k, swaps)
        else (i, j, k, swaps)
      median lt d i j k swaps
    else (j, swaps)
  if swaps == 0 then (j, increasingHint)
  else if swaps == 4*3 then (j, decreasingHint)
  else (j, unknownHint)

/-- zsortinterface.go:314-322 `reverseRange(data, a, b)`: call with i = a, j = b - 1 -/
def reverseRange : Nat → Array Nat → Nat → Nat → Array Nat
  | 0, d, _, _ => d
  | f+1, d, i, j => if i < j then reverseRange f (dSwap d i j) (i+1) (j-1) else d

/-- zsortinterface.go:61-123 `pdqsort(data, a, b, limit)`: one call of this function is one iteration of the
    `for` loop; `wasBalanced`, `wasPartitioned` are the loop-carried locals (both `true` on function entry).
    Fuel: every iteration and every recursive call strictly shrinks `b - a`, so `b - a + 1` suffices. -/
def pdqLoop (lt : Nat → Nat → Bool) : Nat → Array Nat → Nat → Nat → Nat → Bool → Bool → Array Nat
  | 0, d, _, _, _, _, _ => d
  | f+1, d, a, b, limit, wasBalanced, wasPartitioned =>
    let length := b - a
    if length ≤ 12 then insertionSort lt d a b else          -- maxInsertion = 12
    if limit == 0 then heapSort lt d a b else
    let (d, limit) := if !wasBalanced then (breakPatterns d a b, limit - 1) else (d, limit)
    let (pivot, hint) := choosePivot lt d a b
    let (d, pivot, hint) :=
      if hint == decreasingHint then (reverseRange (d.size+1) d a (b-1), (b - 1) - (pivot - a), increasingHint)
      else (d, pivot, hint)
    let (d, done) :=
      if wasBalanced && wasPartitioned && hint == increasingHint then partialInsertionSort lt d a b else (d, false)
    if done then d else
    if a > 0 && !dLess lt d (a-1) pivot then
      let (d, mid) := partitionEqual lt d a b pivot
      pdqLoop lt f d mid b limit wasBalanced wasPartitioned        -- a = mid; continue
    else
    let (d, mid, alreadyPartitioned) := partition lt d a b pivot
    let leftLen := mid - a
    let rightLen := b - mid
    let balanceThreshold := length / 8
    if leftLen < rightLen then
      let d := pdqLoop lt f d a mid limit true true                -- pdqsort(data, a, mid, limit)
      pdqLoop lt f d (mid+1) b limit (leftLen ≥ balanceThreshold) alreadyPartitioned
    else
      let d := pdqLoop lt f d (mid+1) b limit true true            -- pdqsort(data, mid+1, b, limit)
      pdqLoop lt f d a mid limit (rightLen ≥ balanceThreshold) alreadyPartitioned

/-- sort.go:45-52 `Sort(data)` on the index array of a slice of `n` elements compared by `lt` on indices -/
def sortIdx (lt : Nat → Nat → Bool) (n : Nat) : Array Nat :=
  if n ≤ 1 then Array.range n else pdqLoop lt (n+1) (Array.range n) 0 n (bitsLen n) true true

end Pdq

/-- the order `sort.Sort` gives a slice holding `l` with `Less(i,j) = less l[i] l[j]`, as indices into `l` -/
def pdqIdx {α} (less : α → α → Bool) (l : List α) : List Nat :=
  let arr := l.toArray
  (Pdq.sortIdx (fun i j => match arr[i]?, arr[j]? with
                           | some x, some y => less x y
                           | _, _ => false) l.length).toList

/-- sorted: no later element is strictly less than an earlier one (Bool version of `SortedBy`) -/
def sortedByB {α} (less : α → α → Bool) : List α → Bool
  | [] => true
  | x :: xs => xs.all (fun y => !less y x) && sortedByB less xs

/-- the pdq result as elements, if it passes the check "permutation of the indices, and sorted" -/
def goSortPdq? {α} (less : α → α → Bool) (l : List α) : Option (List α) :=
  let idx := pdqIdx less l
  let arr := l.toArray
  let r := idx.filterMap (arr[·]?)
  if idx.isPerm (List.range l.length) && sortedByB less r then some r else none

/-- model of `sort.Sort` (for `sort.Sort(sort.Reverse(x))` pass `fun a b => less b a`): Go's insertion sort for
    n ≤ 12 (that is what pdqsort does then), else the checked transliteration of pdqsort (see file header) -/
def goSort {α} (less : α → α → Bool) (l : List α) : List α :=
  if l.length ≤ 12 then goInsertionSort less l
  else match goSortPdq? less l with
    | some r => r
    | none => goInsertionSort less l

end GoNeat
