/-
  Model of the activator registry of neat/math/activations.go (`NodeActivatorsFactory`).  CORE ONLY.

  The factory holds four Go maps.  A Go map is modelled as an association list in which the latest write of a key
  comes first (`m[k] = v` overwrites), a lookup `v, ok := m[k]` as `List.lookup`.  WHAT `Register`/`RegisterModule`
  write and HOW the four lookup methods answer is not fixed here: it is read from tables regenerated from the Go source
  (`Gen/Registry.lean`: `registerWrites`, `registerModuleWrites`, `lookups`, `registered`).
-/
namespace GoNeat.Act

inductive Kind | scalar | module
  deriving DecidableEq, Repr, BEq

/-- one `af.Register(<const>, <closure>, "<name>")` / `af.RegisterModule(...)` call -/
structure Reg where
  code : Nat
  const : String
  fn : String
  name : String
  kind : Kind
  deriving DecidableEq, Repr

/-- body of `Register`/`RegisterModule`: parameter names and the statements `a.<map>[<key param>] = <value param>` -/
structure MapWrites where
  params : List String
  writes : List (String × String × String)
  deriving DecidableEq, Repr

/-- shape of a lookup method `if v, ok := a.<map>[<key>]; ok { return .., nil } else { return <missValue>, <error> }` -/
structure Lookup where
  fn : String
  map : String
  key : String
  /-- the hit branch returns a nil error -/
  hitErrNil : Bool
  /-- the miss branch returns a non-nil error (fmt.Errorf / errors.New) -/
  missErr : Bool
  missValue : String
  deriving DecidableEq, Repr

/-- values stored in the maps: a type code, a name, or (for the activator maps) the identifier of a closure -/
inductive Val | code (n : Nat) | str (s : String)
  deriving DecidableEq, Repr

abbrev GoMap := List (Val × Val)
/-- map field name ↦ contents -/
abbrev Factory := List (String × GoMap)

def Factory.get (f : Factory) (m : String) : GoMap := (f.lookup m).getD []

/-- `a.<m>[k] = v` -/
def Factory.put (f : Factory) (m : String) (k v : Val) : Factory :=
  (m, (k, v) :: f.get m) :: f.filter (fun e => e.1 != m)

/-- the argument a call `Register(r.const, r.fn, r.name)` binds to the parameter at position `i` -/
def argAt (r : Reg) : Nat → Option Val
  | 0 => some (.code r.code)
  | 1 => some (.str r.fn)
  | 2 => some (.str r.name)
  | _ => none

def argOf (w : MapWrites) (r : Reg) (p : String) : Option Val :=
  match w.params.findIdx? (· == p) with
  | some i => argAt r i
  | none => none

/-- run the body of `Register`/`RegisterModule` for one call; a write the model cannot interpret poisons the factory
    (recorded under the map name "?" so that the theorems about it fail) -/
def register (w : MapWrites) (f : Factory) (r : Reg) : Factory :=
  w.writes.foldl (fun f (m, k, v) =>
    match argOf w r k, argOf w r v with
    | some kv, some vv => f.put m kv vv
    | _, _ => f.put "?" (.str m) (.str k)) f

/-- `NewNodeActivatorsFactory` -/
def build (ws wm : MapWrites) (regs : List Reg) : Factory :=
  regs.foldl (fun f r => register (if r.kind == .scalar then ws else wm) f r) []

inductive Res | ok (v : Val) | err
  deriving DecidableEq, Repr

/-- a lookup method applied to key `k` -/
def Lookup.run (l : Lookup) (f : Factory) (k : Val) : Res :=
  match (f.get l.map).lookup k with
  | some v => if l.hitErrNil then .ok v else .err
  | none => if l.missErr then .err else .ok (.str l.missValue)

def findLookup (ls : List Lookup) (fn : String) : Lookup :=
  (ls.find? (·.fn == fn)).getD { fn := fn, map := "", key := "", hitErrNil := false, missErr := false, missValue := "" }

/-- the four public lookups over a generated registry description -/
structure Desc where
  regWrites : MapWrites
  modWrites : MapWrites
  lookups : List Lookup
  registered : List Reg

def Desc.factory (g : Desc) : Factory := build g.regWrites g.modWrites g.registered

/-- `ActivationNameFromType` -/
def Desc.nameOfCode (g : Desc) (c : Nat) : Option String :=
  match (findLookup g.lookups "ActivationNameFromType").run g.factory (.code c) with
  | .ok (.str s) => some s
  | _ => none

/-- `ActivationTypeFromName` -/
def Desc.codeOfName (g : Desc) (n : String) : Option Nat :=
  match (findLookup g.lookups "ActivationTypeFromName").run g.factory (.str n) with
  | .ok (.code c) => some c
  | _ => none

/-- `ActivateByType`: identifier of the closure that is applied, `none` = error -/
def Desc.scalarOfCode (g : Desc) (c : Nat) : Option String :=
  match (findLookup g.lookups "ActivateByType").run g.factory (.code c) with
  | .ok (.str s) => some s
  | _ => none

/-- `ActivateModuleByType` -/
def Desc.moduleOfCode (g : Desc) (c : Nat) : Option String :=
  match (findLookup g.lookups "ActivateModuleByType").run g.factory (.code c) with
  | .ok (.str s) => some s
  | _ => none

end GoNeat.Act
