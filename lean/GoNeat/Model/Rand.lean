/-
  Randomness is data (DESIGN §2.3): every model function that draws random numbers takes the raw
  63-bit stream of Go's global `math/rand` source explicitly and returns the unconsumed rest.
  The derived draws below mirror go1.23 `math/rand` (`Float64`, `Float32`, `Int31n`, `Intn`, `Int`).
-/
import GoNeat.Model.Scalar

namespace GoNeat

inductive Stop where
  | error (e : String)
  | outOfRandom
deriving Repr, DecidableEq

/-- result of a computation that consumes a prefix of the raw stream -/
abbrev R (α : Type) := Except Stop (α × List Nat)

/-- a computation over the raw stream -/
abbrev Rand (α : Type) := List Nat → R α

namespace Rand

@[inline] def pure' {α} (a : α) : Rand α := fun rs => .ok (a, rs)
@[inline] def bind' {α β} (m : Rand α) (f : α → Rand β) : Rand β := fun rs =>
  match m rs with
  | .error e => .error e
  | .ok (a, rs') => f a rs'
@[inline] def fail {α} (e : String) : Rand α := fun _ => .error (.error e)

instance : Monad Rand where
  pure := pure'
  bind := bind'

/-- `rand.Int63()` -/
def int63 : Rand Nat
  | [] => .error .outOfRandom
  | x :: rs => .ok (x, rs)

/-- `rand.Float64()`: `float64(Int63()) / (1<<63)`, redrawn while the quotient rounds to 1 -/
def float64 {W} [Scalar W] : Rand W
  | [] => .error .outOfRandom
  | x :: rs =>
    let f : W := Scalar.ofUnit63 x
    if Scalar.eq f Scalar.one then float64 rs else .ok (f, rs)

/-- the test `rand.Float32() >= 0.3` (the only use of `Float32` in goNEAT).
    `Float32` is `float32(Float64())`, redrawn while it equals 1. -/
def float32Ge03 (W) [Scalar W] : Rand Bool
  | [] => .error .outOfRandom
  | x :: rs =>
    let f : W := Scalar.ofUnit63 x
    if Scalar.eq f Scalar.one then float32Ge03 W rs
    else if Scalar.f32IsOne f then float32Ge03 W rs
    else .ok (Scalar.f32Ge03 f, rs)

/-- `Int31()` from one raw draw -/
@[inline] def int31OfRaw (x : Nat) : Nat := (x >>> 32) % 2147483648

/-- rejection loop of `Int31n` for a non-power-of-two bound -/
def int31nLoop (n max : Nat) : Rand Nat
  | [] => .error .outOfRandom
  | x :: rs =>
    let v := int31OfRaw x
    if v > max then int31nLoop n max rs else .ok (v % n, rs)

/-- `rand.Int31n(n)` / `rand.Intn(n)` for `0 < n ≤ 2^31-1`.  `n = 0` panics in Go. -/
def intn (n : Nat) : Rand Nat := fun rs =>
  if n = 0 then .error (.error "panic:intn-nonpositive")
  else if n &&& (n - 1) = 0 then
    match rs with
    | [] => .error .outOfRandom
    | x :: rs' => .ok (int31OfRaw x &&& (n - 1), rs')
  else
    int31nLoop n (2147483647 - 2147483648 % n) rs

/-- `neat/math.RandSign()`: `-1` if `rand.Int()` is even, else `1` -/
def randSign : Rand Int
  | [] => .error .outOfRandom
  | x :: rs => .ok (if x % 2 = 0 then -1 else 1, rs)

/-- `float64(RandSign()) * rand.Float64()` – the ubiquitous signed unit draw -/
def signedUnit {W} [Scalar W] : Rand W := fun rs =>
  match randSign rs with
  | .error e => .error e
  | .ok (s, rs1) =>
    match float64 (W := W) rs1 with
    | .error e => .error e
    | .ok (f, rs2) => .ok (Scalar.mul (Scalar.ofInt s) f, rs2)

end Rand
end GoNeat
