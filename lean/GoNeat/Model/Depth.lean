/-
  Activation depth (C14): `NNode.Depth`, `Network.MaxActivationDepthWithCap`, `Network.MaxActivationDepth`
  (neat/network/nnode.go:217-246, network.go:437-471) over the static network model of Model/Net.lean.

  * Go mutates `NNode.visited` in place; the model threads the vector of marks (`vis[i]` = `allNodes[i].visited`)
    through every call and returns it, so "which marks are left behind" is part of the result;
  * recursion is structural on a fuel argument; running out of fuel is the distinct error `fuel`
    (`Props/C14.lean: no_fuel_error` proves that `|allNodes| + 1` is always enough, for cyclic graphs too);
  * a link whose source index is not in the node table cannot occur in Go (links hold pointers); the model
    treats such an index like a node without incoming links;
  * Go's `int` depth is a `Nat` here: the depth starts at 0 and is only incremented.  `maxDepthCap` is an `Int`
    (the code tests `maxDepthCap > 0`).
  * modular networks: `MaxActivationDepthWithCap` refuses them (-1 and an error); `maxActivationDepthModular`
    is not modelled (C14 is about non-modular networks).
-/
import GoNeat.Model.Net

namespace GoNeat.Depth

variable {W : Type}

inductive DErr where
  | ok          -- nil
  | exceeded    -- ErrMaximalNetDepthExceeded
  | modular     -- "unsupported for modular networks"
  | fuel        -- model fuel exhausted (unreachable: `C14.no_fuel_error`)
deriving DecidableEq, Repr

def DErr.str : DErr → String
  | .ok => "ok" | .exceeded => "exceeded" | .modular => "modular" | .fuel => "fuel"

/-- result of a depth call: returned depth, error, marks afterwards -/
structure DRes where
  d : Nat
  err : DErr
  vis : List Bool
deriving DecidableEq, Repr

/-- is node `j` marked -/
def marked (vis : List Bool) (j : Nat) : Bool := vis.getD j false

/-- the loop `for _, l := range n.Incoming` of `NNode.Depth` over the indices `j` of the `l.InNode`s; `call vis j` is
    `l.InNode.Depth(d+1, cap)` run on the marks `vis`, `mx` is the variable `max`.  On an error the loop is left
    with the callee's result. -/
def loop (call : List Bool → Nat → DRes) : List Nat → Nat → List Bool → DRes
  | [], mx, vis => ⟨mx, .ok, vis⟩
  | j :: ls, mx, vis =>
    if marked vis j then loop call ls mx vis        -- loop detected: skip
    else
      let r := call vis j
      if r.err ≠ .ok then r
      else loop call ls (if r.d > mx then r.d else mx) r.vis

/-- the cap test at the head of `NNode.Depth` -/
def overCap (cap : Int) (d : Nat) : Bool := decide (cap > 0) && decide ((d : Int) > cap)

/-- `NNode.Depth(d, cap)` called on node `i` with marks `vis`.  Both exits of the non-sensor case clear the mark of
    `i` (the error exit does so since repair d4f2c1c; `Model/LegacyDepth.lean` keeps the old form). -/
def depth (net : Net W) (cap : Int) : Nat → List Bool → Nat → Nat → DRes
  | 0, vis, _, d => ⟨d, .fuel, vis⟩
  | f + 1, vis, i, d =>
    if overCap cap d then ⟨cap.toNat, .exceeded, vis⟩
    else
      match net.nodes[i]? with
      | none => ⟨d, .ok, vis⟩
      | some nd =>
        if nd.isSensor then ⟨d, .ok, vis⟩
        else
          let r := loop (fun v j => depth net cap f v j (d + 1)) (nd.incoming.map (·.src)) d (vis.set i true)
          ⟨r.d, r.err, r.vis.set i false⟩

/-- fuel handed to every top-level `Depth` call -/
def fuelOf (net : Net W) : Nat := net.nodes.length + 1

/-- the loop over `n.Outputs` of `MaxActivationDepthWithCap` -/
def outLoop (net : Net W) (cap : Int) : List Nat → Nat → List Bool → DRes
  | [], mx, vis => ⟨mx, .ok, vis⟩
  | o :: os, mx, vis =>
    let r := depth net cap (fuelOf net) vis o 0
    if r.err ≠ .ok then r
    else outLoop net cap os (if r.d > mx then r.d else mx) r.vis

/-- the code's test for "no hidden nodes": `len(allNodes) == len(inputs)+len(Outputs)` -/
def noHiddenShortcut (net : Net W) : Bool := net.nodes.length == net.inputs.length + net.outputs.length

/-- result of the network-level queries: Go's `(int, error)` plus the marks left behind -/
structure TopRes where
  depth : Int
  err : DErr
  vis : List Bool
deriving DecidableEq, Repr

/-- `Network.MaxActivationDepthWithCap(cap)` -/
def maxDepthCap (net : Net W) (cap : Int) (vis : List Bool) : TopRes :=
  if net.ctrl.length > 0 then ⟨-1, .modular, vis⟩
  else if noHiddenShortcut net then ⟨1, .ok, vis⟩
  else
    let r := outLoop net cap net.outputs 0 vis
    ⟨(r.d : Int), r.err, r.vis⟩

/-- `Network.MaxActivationDepth()` of a non-modular network (= `MaxActivationDepthWithCap(0)`); `none` for a modular
    network (`maxActivationDepthModular` is outside the model) -/
def maxDepth (net : Net W) (vis : List Bool) : Option TopRes :=
  if net.ctrl.length == 0 then some (maxDepthCap net 0 vis) else none

/-- a sequence of `MaxActivationDepthWithCap(cap)` calls on one network instance (marks carried over) -/
def runQueries (net : Net W) : List Int → List Bool → List TopRes
  | [], _ => []
  | c :: cs, vis =>
    let r := maxDepthCap net c vis
    r :: runQueries net cs r.vis

/-- marks of a freshly built network -/
def clean (net : Net W) : List Bool := net.nodes.map fun _ => false

end GoNeat.Depth
