/-
  Time and duration aggregates of the result records and the orders the records are sorted by (properties C19 / C20):
  experiment/trial.go `Trial.AvgEpochDuration`, `Trial.RecentEpochEvalTime`, `Trials.Less`;
  experiment/experiment.go `Experiment.AvgTrialDuration`, `AvgEpochDuration`, `MostRecentTrialEvalTime`, `Experiments.Less`;
  experiment/generation.go `Generations.Less`.

  * `time.Duration` is an int64 count of nanoseconds; Go's `/` truncates towards zero: `Int.tdiv`.  The model uses
    unbounded `Int` (sums of recorded durations are far from 2^63; wrap-around is NOT modelled - trusted base).
  * `time.Time` is modelled by the instant it denotes: nanoseconds since the zero `time.Time{}` (January 1, year 1 UTC)
    as an unbounded `Int` (negative for instants before it).  `Before`/`Equal` compare instants (wall clock and
    monotonic readings do not matter for them when both sides lack or both carry a monotonic reading; the recorded
    values come from files or one process).
  * `sort.Sort` is `goSort` (Model/GoSort.lean).
  Core Lean only.
-/
import GoNeat.Model.GoSort

namespace GoNeat.ExpTime

/-- `experiment.EmptyDuration` -/
def emptyDuration : Int := -1

/-- the zero `time.Time{}` -/
def zeroTime : Int := 0

structure TGen where
  id : Int
  executed : Int
  duration : Int
deriving Repr, DecidableEq

structure TTrial where
  id : Int
  gens : List TGen
  duration : Int
deriving Repr, DecidableEq

structure TExp where
  id : Int
  trials : List TTrial
deriving Repr, DecidableEq

/-- `total / time.Duration(n)` or `EmptyDuration` -/
def avgOf (ds : List Int) : Int :=
  if ds.length > 0 then (ds.foldl (· + ·) 0).tdiv ds.length else emptyDuration

/-- `Trial.AvgEpochDuration` -/
def trialAvgEpochDuration (t : TTrial) : Int := avgOf (t.gens.map (·.duration))

/-- the loop `if u.Before(x) { u = x }` -/
def latest (ts : List Int) : Int := ts.foldl (fun u x => if u < x then x else u) zeroTime

/-- `Trial.RecentEpochEvalTime` -/
def trialRecentEpochEvalTime (t : TTrial) : Int := latest (t.gens.map (·.executed))

/-- `Experiment.AvgTrialDuration` -/
def expAvgTrialDuration (e : TExp) : Int := avgOf (e.trials.map (·.duration))

/-- `Experiment.AvgEpochDuration`: the mean of the trials' (truncated) means -/
def expAvgEpochDuration (e : TExp) : Int := avgOf (e.trials.map trialAvgEpochDuration)

/-- `Experiment.MostRecentTrialEvalTime` -/
def expMostRecentTrialEvalTime (e : TExp) : Int := latest (e.trials.map trialRecentEpochEvalTime)

/-- the common shape of the three `Less` methods: by instant, ties by id -/
def lessBy (ta : Int) (ia : Int) (tb : Int) (ib : Int) : Bool :=
  if ta = tb then decide (ia < ib) else decide (ta < tb)

/-- `Generations.Less` -/
def genLess (a b : TGen) : Bool := lessBy a.executed a.id b.executed b.id
/-- `Trials.Less` -/
def trialLess (a b : TTrial) : Bool := lessBy (trialRecentEpochEvalTime a) a.id (trialRecentEpochEvalTime b) b.id
/-- `Experiments.Less` -/
def expLess (a b : TExp) : Bool := lessBy (expMostRecentTrialEvalTime a) a.id (expMostRecentTrialEvalTime b) b.id

/-- `sort.Sort(generations)` etc. -/
def sortGens (l : List TGen) : List TGen := goSort genLess l
def sortTrials (l : List TTrial) : List TTrial := goSort trialLess l
def sortExps (l : List TExp) : List TExp := goSort expLess l

end GoNeat.ExpTime
