/-
  Frozen copies of definitions as they were in the pinned commit BEFORE the `fix:` commits (DESIGN §4).
  They exist only to host machine-checked counterexamples (`Props/*`: `…_counterexample`); nothing else
  may import this file.
-/
import GoNeat.Model.Compat

namespace GoNeat.Legacy
open GoNeat

/-- counting skeleton of the pre-fix `compatLinear`: the loop ran `max(len1,len2)` iterations -/
def linCountsFuel : Nat → List Int → List Int → Counts → Counts
  | 0, _, _, c => c
  | _ + 1, [], [], c => c   -- (unreachable before the fuel ends; kept total)
  | n + 1, [], _ :: ys, c => linCountsFuel n [] ys { c with excess := c.excess + 1 }
  | n + 1, _ :: xs, [], c => linCountsFuel n xs [] { c with excess := c.excess + 1 }
  | n + 1, x :: xs, y :: ys, c =>
    if x = y then linCountsFuel n xs ys { c with matching := c.matching + 1 }
    else if x < y then linCountsFuel n xs (y :: ys) { c with disjoint := c.disjoint + 1 }
    else linCountsFuel n (x :: xs) ys { c with disjoint := c.disjoint + 1 }

def linCounts (a b : List Int) : Counts := linCountsFuel (max a.length b.length) a b {}

/-- pre-fix `NewGeneCopy`: the enabled flag of the source gene was replaced by `true` -/
def geneCopy {W} (g : Gene W) : Gene W := { g with en := true }

end GoNeat.Legacy
