/-
  A variant of the non-atomic add-node mutator that ASSUMES its two innovation numbers are consecutive
  (`gene2Innovation := gene1Innovation + 1`, the counter is still advanced a second time) - the seeded change C16-A.
  Run alone it is indistinguishable from the atomic model; under interleaving it is wrong.  Hosts the counterexample
  `C16.consecutive_breaks` (Props/C16Par.lean).  CORE LEAN ONLY.
-/
import GoNeat.Model.ParEpoch

namespace GoNeat.C16.Legacy
open GoNeat GoNeat.C16 Scalar
variable {W : Type} [Scalar W]

def mutateAddNodeP_consecutive (g : Genome W) (o : MutOpts W) (rs : List Nat) : Prog W (MRes W) :=
  if g.genes.isEmpty then .done (.ok ((g, false), rs))
  else
    let pick := if g.genes.length < 15 then pickSplitSmall g g.genes 0 rs else pickSplitLarge g 20 rs
    match pick with
    | .error e => .done (.error e)
    | .ok (none, rs1) => .done (.ok ((g, false), rs1))
    | .ok (some k, rs1) =>
      match g.genes[k]? with
      | none => .done (.error (.error "panic:index"))
      | some gene =>
        let g1 : Genome W := { g with genes := setEnabledAt g.genes k false }
        .snap fun recs =>
        match recs.find? (fun i => i.typ == 1 && i.inId == gene.src && i.outId == gene.dst && i.oldInn == gene.inn) with
        | some inn =>
          match traitAt g1 0 with
          | .error e => .done (.error e)
          | .ok tr0 =>
            let node : Node := { id := inn.newNode, kind := Kind.hidden, act := defaultActivation, trait := tr0 }
            let gene1 : Gene W := { inn := inn.inn, src := gene.src, dst := node.id, recur := gene.recur, w := one,
                                    mnum := zero, en := true, trait := gene.trait }
            let gene2 : Gene W := { inn := inn.inn2, src := node.id, dst := gene.dst, recur := false, w := gene.w,
                                    mnum := zero, en := true, trait := gene.trait }
            if g1.hasNode node.id then .done (.ok ((g1, false), rs1))
            else
              .done (.ok (({ g1 with genes := geneInsert (geneInsert g1.genes gene1) gene2, nodes := nodeInsert g1.nodes node },
                           true), rs1))
        | none =>
          .nextNode fun newNodeId =>
          match traitAt g1 0 with
          | .error e => .done (.error e)
          | .ok tr0 =>
            match randomNodeActivationType o rs1 with
            | .error e => .done (.error e)
            | .ok (act, rs2) =>
              let node : Node := { id := newNodeId, kind := Kind.hidden, act := act, trait := tr0 }
              .nextInn fun inn1 =>
              -- the number the second call returns is dropped: "the next one"
              .nextInn fun _ =>
              let inn2 := inn1 + 1
              let gene1 : Gene W := { inn := inn1, src := gene.src, dst := node.id, recur := gene.recur, w := one,
                                      mnum := zero, en := true, trait := gene.trait }
              let gene2 : Gene W := { inn := inn2, src := node.id, dst := gene.dst, recur := false, w := gene.w,
                                      mnum := zero, en := true, trait := gene.trait }
              let rec_ : Innov W := { typ := 1, inId := gene.src, outId := gene.dst, inn := inn1, inn2 := inn2, w := zero,
                                      traitNum := 0, newNode := newNodeId, oldInn := gene.inn, recur := false }
              .store rec_
                (.done (.ok (({ g1 with genes := geneInsert (geneInsert g1.genes gene1) gene2, nodes := nodeInsert g1.nodes node },
                              true), rs2)))

end GoNeat.C16.Legacy
