/-
  `Experiment.Execute` (experiment/experiment_execute.go) composed with the REAL population steps, property C20.

  `Model/Experiment.lean` scripts `NewPopulation` / `NextEpoch` as black boxes.  Here the same two loops run the model
  of `NewPopulation` (`spawn`, Model/Epoch.lean) at the head of every trial and the model of the sequential
  `NextEpoch` (`nextEpoch`) after every unsolved generation, threading the raw random stream through the whole run.
  What stays an input:
    * the evaluator `eval : trial → generation → Pop W → EvalResult W` — it is handed the population and answers with
      the population as it leaves it (fitness values assigned) and unsolved / solved / error;
    * the control part `Ctl` of the environment: NumRuns, NumGenerations, observer or not, executor type supported,
      the cancellation points (the same callbacks as in `Script`), and `Population.Verify` (not modelled: `verifyOk`).

  `executeReal` returns the same observable output as `execute` (event trace, recorded trials, returned error) and a
  ghost log: per trial the spawned population, per evaluator call the population handed over, the population as the
  evaluator left it, its answer, and whether the turnover that followed failed by an error of its own.
  `inducedScript` reads the `Script` of the run off that log (Props/C20Epoch.lean: `execute (inducedScript …)` is the
  observable output of `executeReal`).

  A finite stream may run out inside `spawn` / `nextEpoch`: then the whole run is `.error .outOfRandom` (DESIGN §2.3);
  `.error (.error _)` is never returned — an error of `spawn` / `nextEpoch` is the `Err` the run ends with.
  The turnover is not run when the context was cancelled inside the evaluator (`NextEpoch` returns `ctx.Err()`; the
  run ends there, so the random values it would have consumed are unobservable) — as in `genLoop`.

  Core Lean only; structural recursion on fuel (`runs - t`, `maxGen - g`).
-/
import GoNeat.Model.Experiment
import GoNeat.Model.Epoch

namespace GoNeat.Experiment
open GoNeat
variable {W : Type} [Scalar W]

/-- what `GenerationEvaluate` did: the population as it leaves it, and its answer -/
structure EvalResult (W : Type) where
  pop : Pop W
  outcome : EvalOutcome

/-- the part of the environment that is not population mechanics (the fields of `Script` with the same names) -/
structure Ctl where
  hasOptions : Bool := true
  runs : Nat
  maxGen : Nat
  observer : Bool
  execOk : Bool := true
  preCancelled : Bool := false
  /-- `Population.Verify` of the population spawned for trial `t` succeeds (not modelled) -/
  verifyOk : Nat → Bool := fun _ => true
  evalCancels : Nat → Nat → Bool := fun _ _ => false
  startedCancels : Nat → Bool := fun _ => false
  evaluatedCancels : Nat → Nat → Bool := fun _ _ => false
  finishedCancels : Nat → Bool := fun _ => false

/-- ghost record of one evaluator call -/
structure GenLog (W : Type) where
  /-- the population handed to the evaluator -/
  pop : Pop W
  /-- the population as the evaluator left it (input of the turnover) -/
  after : Pop W
  outcome : EvalOutcome
  /-- the turnover ran and returned an error of its own -/
  epochFailed : Bool

/-- ghost record of one trial -/
structure TrialLog (W : Type) where
  /-- what `NewPopulation` returned (`none`: it failed) -/
  spawned : Option (Pop W)
  /-- `NewPopulation` and `Verify` succeeded -/
  spawnOk : Bool
  gens : List (GenLog W)

def obsC (c : Ctl) (e : Event) : List Event := if c.observer then [e] else []

structure GenOutR (W : Type) where
  events : List Event
  gens : List GenRec
  exit : Except Err Bool
  log : List (GenLog W)

/-- generation loop of trial `t` on the real population `p` (`fuel = maxGen - g`, `pe` turnovers so far, `cn` =
    context already cancelled) -/
def genLoopR (c : Ctl) (o : EpochOpts W) (eval : Nat → Nat → Pop W → EvalResult W) (t : Nat) :
    Nat → Nat → Nat → Bool → Pop W → Rand (GenOutR W)
  | 0, _, _, cn, _, rs => .ok (⟨[], [], .ok cn, []⟩, rs)
  | fuel + 1, g, pe, cn, p, rs =>
    if cn then .ok (⟨[], [], .error .cancelled, []⟩, rs)
    else
      let c1 := c.evalCancels t g
      let r := eval t g p
      match r.outcome with
      | .fail => .ok (⟨[.eval t g t pe], [], .error (.evalFailed t g), [⟨p, r.pop, .fail, false⟩]⟩, rs)
      | .solved =>
        .ok (⟨.eval t g t pe :: obsC c (.evaluated t g), [⟨g, t, true⟩],
              .ok (c1 || (c.observer && c.evaluatedCancels t g)), [⟨p, r.pop, .solved, false⟩]⟩, rs)
      | .unsolved =>
        if c1 then .ok (⟨[.eval t g t pe], [], .error .cancelled, [⟨p, r.pop, .unsolved, false⟩]⟩, rs)
        else
          -- epochExecutor.NextEpoch(ctx, generationId, pop)
          match nextEpoch o (g : Int) r.pop rs with
          | .error .outOfRandom => .error .outOfRandom
          | .error (.error _) => .ok (⟨[.eval t g t pe], [], .error .epochFailed, [⟨p, r.pop, .unsolved, true⟩]⟩, rs)
          | .ok (p', rs') =>
            match genLoopR c o eval t fuel (g + 1) (pe + 1) (c.observer && c.evaluatedCancels t g) p' rs' with
            | .error e => .error e
            | .ok (r2, rs'') =>
              .ok (⟨.eval t g t pe :: .epoch t g :: (obsC c (.evaluated t g) ++ r2.events), ⟨g, t, false⟩ :: r2.gens, r2.exit,
                    ⟨p, r.pop, .unsolved, false⟩ :: r2.log⟩, rs'')

structure RunOutR (W : Type) where
  events : List Event
  trials : List TrialRec
  err : Option Err
  log : List (TrialLog W)

/-- trial loop (`fuel = runs - t`): every trial spawns a fresh population from the start genome `g0` -/
def trialLoopR (c : Ctl) (o : EpochOpts W) (g0 : Genome W) (eval : Nat → Nat → Pop W → EvalResult W) :
    Nat → Nat → Bool → Rand (RunOutR W)
  | 0, _, _, rs => .ok (⟨[], [], none, []⟩, rs)
  | fuel + 1, t, cn, rs =>
    -- genetics.NewPopulation(startGenome, opts)
    match spawn o g0 rs with
    | .error .outOfRandom => .error .outOfRandom
    | .error (.error _) => .ok (⟨[], [], some .spawnFailed, [⟨none, false, []⟩]⟩, rs)
    | .ok (p, rs1) =>
      if !c.verifyOk t then .ok (⟨[], [], some .spawnFailed, [⟨some p, false, []⟩]⟩, rs1)
      else if !c.execOk then .ok (⟨[], [], some .badExecutor, [⟨some p, true, []⟩]⟩, rs1)
      else
        match genLoopR c o eval t c.maxGen 0 0 (cn || (c.observer && c.startedCancels t)) p rs1 with
        | .error e => .error e
        | .ok (r, rs2) =>
          match r.exit with
          | .error e => .ok (⟨obsC c (.started t) ++ r.events, [], some e, [⟨some p, true, r.log⟩]⟩, rs2)
          | .ok c2 =>
            match trialLoopR c o g0 eval fuel (t + 1) (c2 || (c.observer && c.finishedCancels t)) rs2 with
            | .error e => .error e
            | .ok (rest, rs3) =>
              .ok (⟨obsC c (.started t) ++ (r.events ++ (obsC c (.finished t) ++ rest.events)), ⟨t, r.gens⟩ :: rest.trials, rest.err,
                    ⟨some p, true, r.log⟩ :: rest.log⟩, rs3)

structure RealOut (W : Type) where
  events : List Event
  result : Result
  /-- ghost: one entry per trial that was begun, in order -/
  log : List (TrialLog W)

/-- `Experiment.Execute` on a fresh experiment, with the real `NewPopulation` and `NextEpoch` -/
def executeReal (c : Ctl) (o : EpochOpts W) (g0 : Genome W) (eval : Nat → Nat → Pop W → EvalResult W) : Rand (RealOut W) := fun rs =>
  if !c.hasOptions then .ok (⟨[], ⟨[], some .noOptions⟩, []⟩, rs)
  else
    match trialLoopR c o g0 eval c.runs 0 c.preCancelled rs with
    | .error e => .error e
    | .ok (r, rs') => .ok (⟨r.events, ⟨r.trials, r.err⟩, r.log⟩, rs')

/-- the script a run followed: the control part, and the answers of spawn / evaluator / turnover read off the log
    (positions the run never reached get the defaults: spawn succeeds, unsolved, the turnover succeeds) -/
def inducedScript (c : Ctl) (log : List (TrialLog W)) : Script :=
  { hasOptions := c.hasOptions, runs := c.runs, maxGen := c.maxGen, observer := c.observer, execOk := c.execOk,
    preCancelled := c.preCancelled,
    spawnOk := fun t => match log[t]? with
      | some tl => tl.spawnOk
      | none => true,
    evalRes := fun t g => match log[t]? with
      | some tl => (match tl.gens[g]? with
        | some gl => gl.outcome
        | none => .unsolved)
      | none => .unsolved,
    evalCancels := c.evalCancels,
    epochFails := fun t g => match log[t]? with
      | some tl => (match tl.gens[g]? with
        | some gl => gl.epochFailed
        | none => false)
      | none => false,
    startedCancels := c.startedCancels, evaluatedCancels := c.evaluatedCancels, finishedCancels := c.finishedCancels }

/-- an evaluator that only assigns fitness values: organism `x` of generation `g` of trial `t` gets `fit t g x`,
    the run is solved when `solved` says so on the evaluated population -/
def fitnessEval (fit : Nat → Nat → Org W → W) (solved : Nat → Nat → Pop W → Bool) (t g : Nat) (p : Pop W) : EvalResult W :=
  let q : Pop W := { p with species := p.species.map (fun s => { s with orgs := s.orgs.map (fun x => { x with fitness := fit t g x }) }) }
  ⟨q, if solved t g q then .solved else .unsolved⟩

end GoNeat.Experiment
