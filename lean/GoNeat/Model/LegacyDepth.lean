/-
  Frozen copy of `NNode.Depth` as it was before repair d4f2c1c ("fix: NNode.Depth clears its visited mark on the
  depth-cap error exit"): when a callee reported the depth-cap error the node returned WITHOUT resetting its own
  `visited` flag.  Kept only for the machine-checked counterexample `C14.marks_legacy_counterexample`; nothing else
  may import this file.
-/
import GoNeat.Model.Depth

namespace GoNeat.Depth.Legacy
open GoNeat.Depth

variable {W : Type}

def depth (net : Net W) (cap : Int) : Nat → List Bool → Nat → Nat → DRes
  | 0, vis, _, d => ⟨d, .fuel, vis⟩
  | f + 1, vis, i, d =>
    if overCap cap d then ⟨cap.toNat, .exceeded, vis⟩
    else
      match net.nodes[i]? with
      | none => ⟨d, .ok, vis⟩
      | some nd =>
        if nd.isSensor then ⟨d, .ok, vis⟩
        else
          let r := loop (fun v j => depth net cap f v j (d + 1)) (nd.incoming.map (·.src)) d (vis.set i true)
          if r.err ≠ .ok then r                      -- old error exit: `return curDepth, err`, mark of `i` stays
          else ⟨r.d, r.err, r.vis.set i false⟩

def outLoop (net : Net W) (cap : Int) : List Nat → Nat → List Bool → DRes
  | [], mx, vis => ⟨mx, .ok, vis⟩
  | o :: os, mx, vis =>
    let r := depth net cap (fuelOf net) vis o 0
    if r.err ≠ .ok then r
    else outLoop net cap os (if r.d > mx then r.d else mx) r.vis

def maxDepthCap (net : Net W) (cap : Int) (vis : List Bool) : TopRes :=
  if net.ctrl.length > 0 then ⟨-1, .modular, vis⟩
  else if noHiddenShortcut net then ⟨1, .ok, vis⟩
  else
    let r := outLoop net cap net.outputs 0 vis
    ⟨(r.d : Int), r.err, r.vis⟩

end GoNeat.Depth.Legacy
