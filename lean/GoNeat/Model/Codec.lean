/-
  FIELD MAPS of the encodings that go through third-party codecs (C15):

  * YAML genome (genome_writer.go:142-271, genome_reader.go:215-444): the `map[string]interface{}` tree the writer
    hands to yaml.v3 and the tree the reader takes apart (`Val`);
  * gob experiment (experiment.go:342-399, trial.go:157-191, generation.go:90-252): the SEQUENCE of values handed to
    `gob.Encoder.Encode` and taken from `gob.Decoder.Decode` (`GV`);
  * JSON fast-solver model (fast_network_model_io.go): the object `encoding/json` writes from / reads into
    `fastModularNetworkSolverData` (`Val`).

  yaml.v3 (+ spf13/cast), encoding/gob and encoding/json are TRUSTED to give back the value tree / value sequence
  they were handed (for float64: the same bits; yaml may present an integral float as an int, which the `cast`
  conversions of the reader turn back).  What is modelled and proved is everything the goNEAT code does around
  them: which fields are put under which key / at which position, which are read back from where, lookups,
  defaults, error exits.  Core Lean only.
-/
import GoNeat.Model.PlainIO
import GoNeat.Model.FastSolver
import GoNeat.Model.CodecTables

namespace GoNeat.Codec
open GoNeat.PlainIO (Err Codec Line traitIdOf traitRef numTraitParams)

/-- a decoded YAML / JSON value tree -/
inductive Val (F : Type) where
  | int (i : Int)
  | flt (x : F)
  | bool (b : Bool)
  | str (s : String)
  | list (l : List (Val F))
  | map (kvs : List (String × Val F))

variable {F : Type}

/-- `m[key]` -/
def get (kvs : List (String × Val F)) (k : String) : Option (Val F) :=
  match kvs.find? (·.1 == k) with
  | none => none
  | some kv => some kv.2

/-! ## YAML genome -/

/-- `network.NeuronTypeName` -/
def kindName (k : Nat) : String :=
  if k = 0 then "HIDN" else if k = 1 then "INPT" else if k = 2 then "OUTP" else if k = 3 then "BIAS"
  else "UNKNOWN NEURON TYPE"

/-- `network.NeuronTypeByName` -/
def kindOfName (s : String) : Option Nat :=
  if s = "HIDN" then some 0 else if s = "INPT" then some 1 else if s = "OUTP" then some 2
  else if s = "BIAS" then some 3 else none

/-- float constants the YAML reader uses: `0` (a fresh trait's parameters) and `1.0` (module link weight); and
    `yf`, what yaml.v3 + `cast.ToFloat64E` give back for a float64 handed to the encoder: the same value, EXCEPT
    negative zero, which is written `-0`, resolved as the integer 0 and converted to `+0.0` (measured on the real
    code; the theorems ask `yf x = x` of every float of the genome) -/
structure Consts (F : Type) where
  zero : F
  one : F
  yf : F → F := id

def encTrait (t : Trait F) : Val F := .map [("id", .int t.id), ("params", .list (t.params.map .flt))]

def encNode (C : Codec F) (n : Node) : Val F :=
  .map [("id", .int n.id), ("trait_id", .int (traitIdOf n.trait)), ("type", .str (kindName n.kind)),
        ("activation", .str ((C.actName n.act).getD ""))]

def encGene (g : Gene F) : Val F :=
  .map [("trait_id", .int (traitIdOf g.trait)), ("src_id", .int g.src), ("tgt_id", .int g.dst),
        ("innov_num", .int g.inn), ("weight", .flt g.w), ("mut_num", .flt g.mnum),
        ("recurrent", .bool g.recur), ("enabled", .bool g.en)]

/-- `encodeModuleLink(id, order)`: the link weight, trait and flags are NOT written -/
def encWires : Nat → List (Wire F) → List (Val F)
  | _, [] => []
  | i, w :: ws => .map [("id", .int w.node), ("order", .int i)] :: encWires (i + 1) ws

def encModule (C : Codec F) (m : Module F) : Val F :=
  .map [("id", .int m.ctrl.id), ("trait_id", .int (traitIdOf m.ctrl.trait)), ("innov_num", .int m.inn),
        ("mut_num", .flt m.mnum), ("enabled", .bool m.en), ("activation", .str ((C.actName m.ctrl.act).getD "")),
        ("inputs", .list (encWires 0 m.ins)), ("outputs", .list (encWires 0 m.outs))]

/-- the tree `yamlGenomeWriter.WriteGenome` hands to the YAML encoder -/
def encGenome (C : Codec F) (g : Genome F) : Val F :=
  .map [("genome", .map ([("id", .int g.id), ("traits", .list (g.traits.map encTrait)),
      ("nodes", .list (g.nodes.map (encNode C))), ("genes", .list (g.genes.map encGene))] ++
      (if g.modules.isEmpty then [] else [("modules", .list (g.modules.map (encModule C)))])))]

/-- `ActivationNameFromType` fails for an unregistered type: the writer returns that error -/
def yamlWritable (C : Codec F) (g : Genome F) : Bool :=
  (g.nodes.all fun n => (C.actName n.act).isSome) && (g.modules.all fun m => (C.actName m.ctrl.act).isSome)

/-- a list of floats; `f` = what the codec layer does to each (`Consts.yf` for YAML, nothing for JSON) -/
def decFloats (f : F → F) : List (Val F) → Except Err (List F)
  | [] => .ok []
  | .flt x :: r =>
    match decFloats f r with
    | .error e => .error e
    | .ok xs => .ok (f x :: xs)
  | _ :: _ => .error .badFloat

/-- `readTrait`: a fresh trait has eight zero parameters; `nt.Params[i] = p` panics beyond the eighth -/
def decTrait (K : Consts F) (v : Val F) : Except Err (Trait F) :=
  match v with
  | .map kvs =>
    match get kvs "id", get kvs "params" with
    | some (.int id), some (.list ps) =>
      match decFloats K.yf ps with
      | .error e => .error e
      | .ok xs =>
        if xs.length > numTraitParams then .error .panic
        else .ok { id := id, params := xs ++ List.replicate (numTraitParams - xs.length) K.zero }
    | _, _ => .error .panic
  | _ => .error .panic

def decTraits (K : Consts F) : List (Trait F) → List (Val F) → Except Err (List (Trait F))
  | acc, [] => .ok acc
  | acc, v :: vs =>
    match decTrait K v with
    | .error e => .error e
    | .ok t =>
      if (traitWithId t.id acc).isSome then .error (.dupTrait t.id) else decTraits K (acc ++ [t]) vs

/-- `readNNode` -/
def decNode (C : Codec F) (traits : List (Trait F)) (v : Val F) : Except Err Node :=
  match v with
  | .map kvs =>
    match get kvs "id", get kvs "trait_id", get kvs "type", get kvs "activation" with
    | some (.int id), some (.int tid), some (.str ty), some (.str an) =>
      match kindOfName ty with
      | none => .error (.unknownName ty)
      | some k =>
        match C.actOfName an with
        | none => .error (.unknownName an)
        | some a => .ok { id := id, kind := k, act := a, trait := traitRef traits tid }
    | _, _, _, _ => .error .panic
  | _ => .error .panic

def decNodes (C : Codec F) (traits : List (Trait F)) : List Node → List (Val F) → Except Err (List Node)
  | acc, [] => .ok acc
  | acc, v :: vs =>
    match decNode C traits v with
    | .error e => .error e
    | .ok n => if acc.any (·.id == n.id) then .error (.dupNode n.id) else decNodes C traits (acc ++ [n]) vs

/-- `readGene` (a missing endpoint would be a nil pointer: see Model/PlainIO.lean) -/
def decGene (K : Consts F) (traits : List (Trait F)) (nodes : List Node) (v : Val F) : Except Err (Gene F) :=
  match v with
  | .map kvs =>
    match get kvs "trait_id", get kvs "src_id", get kvs "tgt_id", get kvs "innov_num" with
    | some (.int tid), some (.int src), some (.int dst), some (.int inn) =>
      match get kvs "weight", get kvs "mut_num", get kvs "recurrent", get kvs "enabled" with
      | some (.flt w), some (.flt mnum), some (.bool recur), some (.bool en) =>
        if nodes.any (·.id == src) && nodes.any (·.id == dst) then
          .ok { inn := inn, src := src, dst := dst, recur := recur, w := K.yf w, mnum := K.yf mnum, en := en,
                trait := traitRef traits tid }
        else .error .nilEndpoint
      | _, _, _, _ => .error .panic
    | _, _, _, _ => .error .panic
  | _ => .error .panic

def decGenes (K : Consts F) (traits : List (Trait F)) (nodes : List Node) : List (Val F) → Except Err (List (Gene F))
  | [] => .ok []
  | v :: vs =>
    match decGene K traits nodes v with
    | .error e => .error e
    | .ok g =>
      match decGenes K traits nodes vs with
      | .error e => .error e
      | .ok gs => .ok (g :: gs)

/-- the link loops of `readMIMOControlGene`: `NodeWithId(id, nodes)` must find the node (any id, also 0: repaired code,
    the pre-repair helper treated id 0 as absent - `Model/LegacyCodec.lean`); the link is
    `NewLink(1.0, …, false)` whatever was written -/
def decWires (K : Consts F) (nodes : List Node) : List (Val F) → Except Err (List (Wire F))
  | [] => .ok []
  | .map kvs :: vs =>
    match get kvs "id" with
    | some (.int id) =>
      if nodes.any (·.id == id) then
        match decWires K nodes vs with
        | .error e => .error e
        | .ok ws => .ok ({ node := id, w := K.one, recur := false, trait := none } :: ws)
      else .error (.noModuleNode id)
    | _ => .error .panic
  | _ :: _ => .error .panic

/-- `readMIMOControlGene`: the control node is always a hidden neuron -/
def decModule (C : Codec F) (K : Consts F) (traits : List (Trait F)) (nodes : List Node) (v : Val F) :
    Except Err (Module F) :=
  match v with
  | .map kvs =>
    match get kvs "id", get kvs "activation", get kvs "trait_id", get kvs "innov_num" with
    | some (.int id), some (.str an), some (.int tid), some (.int inn) =>
      match C.actOfName an with
      | none => .error (.unknownName an)
      | some a =>
        match get kvs "mut_num", get kvs "enabled", get kvs "inputs", get kvs "outputs" with
        | some (.flt mnum), some (.bool en), some (.list ins), some (.list outs) =>
          match decWires K nodes ins with
          | .error e => .error e
          | .ok wi =>
            match decWires K nodes outs with
            | .error e => .error e
            | .ok wo =>
              .ok { inn := inn, mnum := K.yf mnum, en := en,
                    ctrl := { id := id, kind := Kind.hidden, act := a, trait := traitRef traits tid },
                    ins := wi, outs := wo }
        | _, _, _, _ => .error .panic
    | _, _, _, _ => .error .panic
  | _ => .error .panic

def decModules (C : Codec F) (K : Consts F) (traits : List (Trait F)) (nodes : List Node) :
    List (Val F) → Except Err (List (Module F))
  | [] => .ok []
  | v :: vs =>
    match decModule C K traits nodes v with
    | .error e => .error e
    | .ok m =>
      if nodes.any (·.id == m.ctrl.id) then .error (.dupControlNode m.ctrl.id)
      else
        match decModules C K traits nodes vs with
        | .error e => .error e
        | .ok ms => .ok (m :: ms)

/-- `yamlGenomeReader.Read` on the decoded tree -/
def decGenome (C : Codec F) (K : Consts F) (v : Val F) : Except Err (Genome F) :=
  match v with
  | .map top =>
    match get top "genome" with
    | some (.map gm) =>
      match get gm "id", get gm "traits", get gm "nodes", get gm "genes" with
      | some (.int id), some (.list ts), some (.list ns), some (.list gs) =>
        match decTraits K [] ts with
        | .error e => .error e
        | .ok traits =>
          match decNodes C traits [] ns with
          | .error e => .error e
          | .ok nodes =>
            match decGenes K traits nodes gs with
            | .error e => .error e
            | .ok genes =>
              match get gm "modules" with
              | none => .ok { id := id, traits := traits, nodes := nodes, genes := genes, modules := [] }
              | some (.list ms) =>
                match decModules C K traits nodes ms with
                | .error e => .error e
                | .ok mods => .ok { id := id, traits := traits, nodes := nodes, genes := genes, modules := mods }
              | some _ => .error .panic
      | _, _, _, _ => .error .panic
    | _ => .error .panic
  | _ => .error .panic

/-! ### what the YAML reader needs (`WFyaml`) -/

def ynodeOK (C : Codec F) (traits : List (Trait F)) (n : Node) : Bool :=
  decide (n.kind < 4) && PlainIO.refOK traits n.trait &&
    (match C.actName n.act with
     | none => false
     | some nm => C.actOfName nm == some n.act)

/-- a module wire as the YAML reader rebuilds it: endpoint a listed node, weight `1.0`,
    not recurrent, no trait -/
def wireOK [DecidableEq F] (K : Consts F) (nodes : List Node) (w : Wire F) : Bool :=
  nodes.any (·.id == w.node) && decide (w.w = K.one) && !w.recur && w.trait.isNone

def moduleOK [DecidableEq F] (C : Codec F) (K : Consts F) (traits : List (Trait F)) (nodes : List Node) (m : Module F) : Bool :=
  m.ctrl.kind == Kind.hidden && PlainIO.refOK traits m.ctrl.trait &&
    (match C.actName m.ctrl.act with
     | none => false
     | some nm => C.actOfName nm == some m.ctrl.act) &&
    !nodes.any (·.id == m.ctrl.id) && m.ins.all (wireOK K nodes) && m.outs.all (wireOK K nodes)

/-- the float survives the YAML layer unchanged (everything but negative zero) -/
def yamlStable [DecidableEq F] (K : Consts F) (x : F) : Bool := decide (K.yf x = x)

def WFyaml [DecidableEq F] (C : Codec F) (K : Consts F) (g : Genome F) : Bool :=
  g.traits.all (fun t => t.params.all (yamlStable K)) &&
  g.genes.all (fun x => yamlStable K x.w && yamlStable K x.mnum) &&
  g.modules.all (fun m => yamlStable K m.mnum) &&
  g.traits.all (fun t => t.params.length == numTraitParams && t.id != 0) &&
  decide (g.traits.map (·.id)).Nodup &&
  decide (g.nodes.map (·.id)).Nodup &&
  g.nodes.all (ynodeOK C g.traits) &&
  g.genes.all (PlainIO.geneOK g.traits g.nodes) &&
  g.modules.all (moduleOK C K g.traits g.nodes)

/-! ## gob: saved experiment -/

/-- one value handed to / taken from gob -/
inductive GV (F : Type) where
  | int (i : Int)
  | flt (x : F)
  | bool (b : Bool)
  | str (s : String)
  /-- `Floats` -/
  | floats (l : List F)
  /-- `time.Time` as gob transports it: the wall-clock instant (monotonic reading dropped) -/
  | time (t : Int)
  /-- `time.Duration` -/
  | dur (d : Int)
  /-- `[]byte`: the plain text of a genome, as token lines -/
  | bytes (ls : List Line)

/-- the part of `genetics.Organism` that `encodeOrganism` saves -/
structure Org (F : Type) where
  fitness : F
  isWinner : Bool
  generation : Int
  expectedOffspring : F
  error : F
  genotype : Option (Genome F)

structure Generation (F : Type) where
  id : Int
  executed : Int
  solved : Bool
  fitness : List F
  age : List F
  complexity : List F
  diversity : Int
  winnerEvals : Int
  winnerNodes : Int
  winnerGenes : Int
  duration : Int
  trialId : Int
  champion : Option (Org F)

/-- what `Trial.Encode` saves of a trial (`Duration` and the cached `WinnerGeneration` are not saved) -/
structure Trial (F : Type) where
  id : Int
  gens : List (Generation F)

/-- what `Experiment.Encode` saves (`RandSeed`, `MaxFitnessScore` are not saved) -/
structure Experiment (F : Type) where
  id : Int
  name : String
  trials : List (Trial F)

/-- `encodeOrganism`: without genotype the id and the bytes are simply not sent -/
def encOrg (C : Codec F) (o : Org F) : List (GV F) :=
  [.flt o.fitness, .bool o.isWinner, .int o.generation, .flt o.expectedOffspring, .flt o.error] ++
    (match o.genotype with
     | none => []
     | some g => [.int g.id, .bytes (PlainIO.render C g)])

/-- `Generation.Encode`: without champion the organism block is simply not sent -/
def encGen (C : Codec F) (g : Generation F) : List (GV F) :=
  [.int g.id, .time g.executed, .bool g.solved, .floats g.fitness, .floats g.age, .floats g.complexity,
   .int g.diversity, .int g.winnerEvals, .int g.winnerNodes, .int g.winnerGenes, .dur g.duration, .int g.trialId] ++
    (match g.champion with
     | none => []
     | some o => encOrg C o)

def encGens (C : Codec F) : List (Generation F) → List (GV F)
  | [] => []
  | g :: gs => encGen C g ++ encGens C gs

def encTrial (C : Codec F) (t : Trial F) : List (GV F) :=
  [.int t.id, .int t.gens.length] ++ encGens C t.gens

def encTrials (C : Codec F) : List (Trial F) → List (GV F)
  | [] => []
  | t :: ts => encTrial C t ++ encTrials C ts

def encExp (C : Codec F) (e : Experiment F) : List (GV F) :=
  [.int e.id, .str e.name, .int e.trials.length] ++ encTrials C e.trials

/-- `decodeOrganism`: ALWAYS expects the genome id and bytes (`.eof`: the stream ended; `.panic` stands for gob's
    type-mismatch error when the next value is of another type) -/
def decOrg (C : Codec F) : List (GV F) → Except Err (Org F × List (GV F))
  | .flt fit :: .bool win :: .int gen :: .flt eo :: .flt er :: .int gid :: .bytes ls :: rest =>
    match PlainIO.readGenome C ls gid with
    | .error e => .error e
    | .ok g => .ok ({ fitness := fit, isWinner := win, generation := gen, expectedOffspring := eo, error := er,
                      genotype := some g }, rest)
  | [] => .error .eof
  | [_] => .error .eof
  | [_, _] => .error .eof
  | [_, _, _] => .error .eof
  | [_, _, _, _] => .error .eof
  | [_, _, _, _, _] => .error .eof
  | [_, _, _, _, _, _] => .error .eof
  | _ => .error .panic

/-- `Generation.Decode`: ALWAYS decodes an organism block -/
def decGen (C : Codec F) : List (GV F) → Except Err (Generation F × List (GV F))
  | .int id :: .time ex :: .bool sv :: .floats fi :: .floats ag :: .floats cx :: .int dv :: .int we :: .int wn ::
      .int wg :: .dur du :: .int ti :: rest =>
    match decOrg C rest with
    | .error e => .error e
    | .ok (o, rest') =>
      .ok ({ id := id, executed := ex, solved := sv, fitness := fi, age := ag, complexity := cx, diversity := dv,
             winnerEvals := we, winnerNodes := wn, winnerGenes := wg, duration := du, trialId := ti,
             champion := some o }, rest')
  | _ => .error .eof

def decGens (C : Codec F) : Nat → List (GV F) → Except Err (List (Generation F) × List (GV F))
  | 0, s => .ok ([], s)
  | n + 1, s =>
    match decGen C s with
    | .error e => .error e
    | .ok (g, s') =>
      match decGens C n s' with
      | .error e => .error e
      | .ok (gs, s'') => .ok (g :: gs, s'')

/-- `Trial.Decode` (`make([]Generation, n)` panics for a negative count) -/
def decTrial (C : Codec F) : List (GV F) → Except Err (Trial F × List (GV F))
  | .int id :: .int n :: rest =>
    if n < 0 then .error .panic
    else
      match decGens C n.toNat rest with
      | .error e => .error e
      | .ok (gs, rest') => .ok ({ id := id, gens := gs }, rest')
  | _ => .error .eof

def decTrials (C : Codec F) : Nat → List (GV F) → Except Err (List (Trial F) × List (GV F))
  | 0, s => .ok ([], s)
  | n + 1, s =>
    match decTrial C s with
    | .error e => .error e
    | .ok (t, s') =>
      match decTrials C n s' with
      | .error e => .error e
      | .ok (ts, s'') => .ok (t :: ts, s'')

/-- `Experiment.Decode` -/
def decExp (C : Codec F) : List (GV F) → Except Err (Experiment F × List (GV F))
  | .int id :: .str nm :: .int n :: rest =>
    if n < 0 then .error .panic
    else
      match decTrials C n.toNat rest with
      | .error e => .error e
      | .ok (ts, rest') => .ok ({ id := id, name := nm, trials := ts }, rest')
  | _ => .error .eof

/-- every generation has a champion with a genotype the plain format gives back -/
def WFgen (C : Codec F) (g : Generation F) : Bool :=
  match g.champion with
  | none => false
  | some o =>
    match o.genotype with
    | none => false
    | some gn => PlainIO.WFio C gn

def WFexp (C : Codec F) (e : Experiment F) : Bool := e.trials.all fun t => t.gens.all (WFgen C)

/-- the value sequences the model above implements, in the vocabulary of the regenerated tables -/
def experimentShape : List CodecTables.Step :=
  [.val "Id" "int", .val "Name" "string", .val "len(Trials)" "int", .each "Trials" "Trial"]
def trialShape : List CodecTables.Step :=
  [.val "Id" "int", .val "len(Generations)" "int", .each "Generations" "Generation"]
def generationShape : List CodecTables.Step :=
  [.val "Id" "int", .val "Executed" "time.Time", .val "Solved" "bool", .val "Fitness" "Floats", .val "Age" "Floats",
   .val "Complexity" "Floats", .val "Diversity" "int", .val "WinnerEvals" "int", .val "WinnerNodes" "int",
   .val "WinnerGenes" "int", .val "Duration" "time.Duration", .val "TrialId" "int", .sub "Champion" "Organism"]
def organismShape : List CodecTables.Step :=
  [.val "Fitness" "float64", .val "IsWinner" "bool", .val "Generation" "int", .val "ExpectedOffspring" "float64",
   .val "Error" "float64", .val "Genotype.Id" "int", .genome "Genotype"]
/-- `PlainIO.orgHeader` followed by the genome lines -/
def wireShape : List CodecTables.Step :=
  [.val "Fitness" "float64", .val "Generation" "int", .val "highestFitness" "float64",
   .val "isPopulationChampionChild" "bool", .val "Genotype.Id" "int", .genome "Genotype"]

/-! ## JSON: fast-solver model file -/

structure LinkIO (F : Type) where
  src : Int
  tgt : Int
  weight : F
  signal : F

structure ModIO where
  act : Nat
  ins : List Int
  outs : List Int

/-- the fields of `FastModularNetworkSolver` that `newFastModularNetworkSolverData` copies -/
structure FastModel (F : Type) where
  id : Int
  name : String
  nInput : Int
  nSensor : Int
  nOutput : Int
  nBias : Int
  nTotal : Int
  acts : List Nat
  biasList : List F
  conns : List (LinkIO F)
  modules : List ModIO

def encLink (l : LinkIO F) : Val F :=
  .map [("source_index", .int l.src), ("target_index", .int l.tgt), ("weight", .flt l.weight), ("signal", .flt l.signal)]

def encMod (C : Codec F) (m : ModIO) : Val F :=
  .map [("activation_type", .str ((C.actName m.act).getD "")), ("input_indexes", .list (m.ins.map .int)),
        ("output_indexes", .list (m.outs.map .int))]

/-- the object `WriteModel` encodes (`modules` carries `omitempty`) -/
def encModel (C : Codec F) (m : FastModel F) : Val F :=
  .map ([("id", .int m.id), ("name", .str m.name), ("input_neuron_count", .int m.nInput),
         ("sensor_neuron_count", .int m.nSensor), ("output_neuron_count", .int m.nOutput),
         ("bias_neuron_count", .int m.nBias), ("total_neuron_count", .int m.nTotal),
         ("activation_functions", .list (m.acts.map fun a => .str ((C.actName a).getD ""))),
         ("bias_list", .list (m.biasList.map .flt)), ("connections", .list (m.conns.map encLink))] ++
        (if m.modules.isEmpty then [] else [("modules", .list (m.modules.map (encMod C)))]))

/-- `WriteModel` returns no error: `MarshalText` of `NodeActivator` fails for an unregistered type, and
    `encoding/json` refuses a float64 that is not finite (`fin`) -/
def modelWritable (C : Codec F) (fin : F → Bool) (m : FastModel F) : Bool :=
  (m.acts.all fun a => (C.actName a).isSome) && (m.modules.all fun md => (C.actName md.act).isSome) &&
  m.biasList.all fin && m.conns.all fun c => fin c.weight && fin c.signal

/-- a missing key leaves the Go zero value -/
def getInt (kvs : List (String × Val F)) (k : String) : Except Err Int :=
  match get kvs k with
  | none => .ok 0
  | some (.int i) => .ok i
  | some _ => .error .badInt

def getStr (kvs : List (String × Val F)) (k : String) : Except Err String :=
  match get kvs k with
  | none => .ok ""
  | some (.str s) => .ok s
  | some _ => .error .panic

def getList (kvs : List (String × Val F)) (k : String) : Except Err (List (Val F)) :=
  match get kvs k with
  | none => .ok []
  | some (.list l) => .ok l
  | some _ => .error .panic

def decInts : List (Val F) → Except Err (List Int)
  | [] => .ok []
  | .int i :: r =>
    match decInts r with
    | .error e => .error e
    | .ok xs => .ok (i :: xs)
  | _ :: _ => .error .badInt

/-- `NodeActivator.UnmarshalText` per element -/
def decActs (C : Codec F) : List (Val F) → Except Err (List Nat)
  | [] => .ok []
  | .str s :: r =>
    match C.actOfName s with
    | none => .error (.unknownName s)
    | some a =>
      match decActs C r with
      | .error e => .error e
      | .ok xs => .ok (a :: xs)
  | _ :: _ => .error .panic

def decLinks : List (Val F) → Except Err (List (LinkIO F))
  | [] => .ok []
  | .map kvs :: r =>
    match get kvs "source_index", get kvs "target_index", get kvs "weight", get kvs "signal" with
    | some (.int s), some (.int t), some (.flt w), some (.flt sg) =>
      match decLinks r with
      | .error e => .error e
      | .ok ls => .ok ({ src := s, tgt := t, weight := w, signal := sg } :: ls)
    | _, _, _, _ => .error .panic
  | _ :: _ => .error .panic

def decMods (C : Codec F) : List (Val F) → Except Err (List ModIO)
  | [] => .ok []
  | .map kvs :: r =>
    match get kvs "activation_type", get kvs "input_indexes", get kvs "output_indexes" with
    | some (.str s), some (.list ins), some (.list outs) =>
      match C.actOfName s, decInts ins, decInts outs with
      | some a, .ok i, .ok o =>
        match decMods C r with
        | .error e => .error e
        | .ok ms => .ok ({ act := a, ins := i, outs := o } :: ms)
      | none, _, _ => .error (.unknownName s)
      | _, _, _ => .error .badInt
    | _, _, _ => .error .panic
  | _ :: _ => .error .panic

/-- `ReadFMNSModel`: the decoded holder goes through `NewFastModularNetworkSolver`, which RECOMPUTES the sensor
    count as bias + input (the stored `sensor_neuron_count` is not used) -/
def decModel (C : Codec F) (v : Val F) : Except Err (FastModel F) :=
  match v with
  | .map kvs =>
    match getInt kvs "id", getStr kvs "name", getInt kvs "input_neuron_count", getInt kvs "output_neuron_count" with
    | .ok id, .ok nm, .ok ni, .ok no =>
      match getInt kvs "bias_neuron_count", getInt kvs "total_neuron_count" with
      | .ok nb, .ok nt =>
        match getList kvs "activation_functions", getList kvs "bias_list", getList kvs "connections", getList kvs "modules" with
        | .ok av, .ok bv, .ok cv, .ok mv =>
          match decActs C av, decFloats (fun x => x) bv, decLinks cv, decMods C mv with
          | .ok acts, .ok bl, .ok cs, .ok ms =>
            .ok { id := id, name := nm, nInput := ni, nSensor := nb + ni, nOutput := no, nBias := nb, nTotal := nt,
                  acts := acts, biasList := bl, conns := cs, modules := ms }
          | _, _, _, _ => .error .panic
        | _, _, _, _ => .error .panic
      | _, _ => .error .badInt
    | _, _, _, _ => .error .badInt
  | _ => .error .panic

def actOK (C : Codec F) (a : Nat) : Bool :=
  match C.actName a with
  | none => false
  | some nm => C.actOfName nm == some a

/-- sensor count = bias + input (established by the constructor), every activation type registered -/
def WFmodel (C : Codec F) (m : FastModel F) : Bool :=
  decide (m.nSensor = m.nBias + m.nInput) && m.acts.all (actOK C) && m.modules.all (fun md => actOK C md.act)

/-- the immutable solver description of C12 (`Fast.FastNet`) carried by a model file (modules are outside C12's model) -/
def FastModel.toFastNet (m : FastModel F) : Fast.FastNet F :=
  { nBias := m.nBias.toNat, nInput := m.nInput.toNat, nOutput := m.nOutput.toNat, nTotal := m.nTotal.toNat,
    acts := m.acts, biasList := m.biasList,
    conns := m.conns.map fun l => { src := l.src.toNat, dst := l.tgt.toNat, w := l.weight } }

end GoNeat.Codec
