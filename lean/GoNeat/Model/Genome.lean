/-
  Genome data model, ordered insertion, id lookups and duplication
  (neat/genetics/genome.go, gene.go, common.go; neat/trait.go; neat/network/nnode.go).

  Heap abstraction: Go holds pointers to node and trait objects; the model names them by id.
  That every pointer of a genome is one of the genome's *own* objects is observed on the
  implementation by the ownership bits of the harness dump and demanded by `WF`.
-/
import GoNeat.Model.Rand

namespace GoNeat

/-- `network.NodeNeuronType` codes -/
abbrev Kind := Nat
def Kind.hidden : Kind := 0
def Kind.input : Kind := 1
def Kind.output : Kind := 2
def Kind.bias : Kind := 3

structure Trait (W : Type) where
  id : Int
  params : List W
deriving Repr

structure Node where
  id : Int
  kind : Kind
  /-- activation type code -/
  act : Nat
  /-- id of the trait object pointed to; `none` = nil pointer -/
  trait : Option Int
deriving Repr, DecidableEq

def Node.isSensor (n : Node) : Bool := n.kind == Kind.input || n.kind == Kind.bias

structure Gene (W : Type) where
  inn : Int
  src : Int
  dst : Int
  recur : Bool
  w : W
  mnum : W
  en : Bool
  trait : Option Int
deriving Repr

/-- one wire of a MIMO control node (endpoint id at the genome side, weight) -/
structure Wire (W : Type) where
  node : Int
  w : W
  recur : Bool
  trait : Option Int
deriving Repr

/-- `MIMOControlGene` with its control node -/
structure Module (W : Type) where
  inn : Int
  mnum : W
  en : Bool
  ctrl : Node
  ins : List (Wire W)
  outs : List (Wire W)
deriving Repr

structure Genome (W : Type) where
  id : Int
  traits : List (Trait W)
  nodes : List Node
  genes : List (Gene W)
  modules : List (Module W) := []
deriving Repr

variable {W : Type}

/-- `Link.IsEqualGenetically` -/
def Gene.sameLink (a b : Gene W) : Bool := a.src == b.src && a.dst == b.dst && a.recur == b.recur

/-! ### ordered insertion (`geneInsert`, `nodeInsert`) — transliteration of the Go code -/

/-- the backward scan `for i := index-1; i >= 0; i--` over the reversed prefix; returns the split index.
    `revPrefix` lists keys `[k_{i}, k_{i-1}, …, k_0]`, `i` is the index of its head. -/
def scanBack (key : Int) : List Int → Nat → Nat → Nat
  | [], _, dflt => dflt
  | k :: ks, i, dflt =>
    if key = k then i
    else if key > k then i + 1
    else scanBack key ks (i - 1) dflt

/-- split index chosen by `geneInsert` / `nodeInsert` for a list of keys and a new key -/
def insertIndex (keys : List Int) (key : Int) : Nat :=
  match keys.getLast? with
  | none => 0
  | some last =>
    if key ≥ last then keys.length
    else
      match keys.head? with
      | none => 0
      | some first =>
        if key ≤ first then 0
        else scanBack key keys.reverse (keys.length - 1) keys.length

def insertAt {α} (l : List α) (i : Nat) (a : α) : List α := l.take i ++ a :: l.drop i

/-- `geneInsert(genes, g)` -/
def geneInsert (genes : List (Gene W)) (g : Gene W) : List (Gene W) :=
  insertAt genes (insertIndex (genes.map (·.inn)) g.inn) g

/-- `nodeInsert(nodes, n)` -/
def nodeInsert (nodes : List Node) (n : Node) : List Node :=
  insertAt nodes (insertIndex (nodes.map (·.id)) n.id) n

/-! ### id lookups -/

/-- `TraitWithId(id, traits)` including the `id ≠ 0` quirk; returns the first trait with that id -/
def traitWithId (id : Int) (traits : List (Trait W)) : Option (Trait W) :=
  if id = 0 then none else traits.find? (·.id == id)

/-- the trait pointer a copy receives: nil stays nil, otherwise `TraitWithId` in the new trait list -/
def dupTraitRef (traits : List (Trait W)) (t : Option Int) : Option Int :=
  match t with
  | none => none
  | some id => (traitWithId id traits).map (·.id)

/-- `nodeByIdMap[id]` after filling the map in slice order: the *last* node with that id wins -/
def nodeById (nodes : List Node) (id : Int) : Option Node :=
  nodes.reverse.find? (·.id == id)

def Genome.hasNode (g : Genome W) (id : Int) : Bool := (nodeById g.nodes id).isSome

/-! ### duplication (`Genome.duplicate`) -/

def dupNode (traits : List (Trait W)) (n : Node) : Node :=
  { n with trait := dupTraitRef traits n.trait }

def dupGenes (traits : List (Trait W)) (nodes : List Node) : List (Gene W) → Except Stop (List (Gene W))
  | [] => .ok []
  | g :: gs =>
    if (nodeById nodes g.src).isNone then .error (.error "dup:missingInNode")
    else if (nodeById nodes g.dst).isNone then .error (.error "dup:missingOutNode")
    else
      match dupGenes traits nodes gs with
      | .error e => .error e
      | .ok gs' => .ok ({ g with trait := dupTraitRef traits g.trait } :: gs')

def dupWires (nodes : List Node) (err : String) : List (Wire W) → Except Stop (List (Wire W))
  | [] => .ok []
  | w :: ws =>
    if (nodeById nodes w.node).isNone then .error (.error err)
    else
      match dupWires nodes err ws with
      | .error e => .error e
      | .ok ws' => .ok (w :: ws')

def dupModules (traits : List (Trait W)) (nodes : List Node) : List (Module W) → Except Stop (List (Module W))
  | [] => .ok []
  | m :: ms =>
    match dupWires nodes "dup:missingModuleIn" m.ins with
    | .error e => .error e
    | .ok ins =>
      match dupWires nodes "dup:missingModuleOut" m.outs with
      | .error e => .error e
      | .ok outs =>
        match dupModules traits nodes ms with
        | .error e => .error e
        | .ok ms' => .ok ({ m with ctrl := dupNode traits m.ctrl, ins := ins, outs := outs } :: ms')

/-- `Genome.duplicate(newId)` -/
def Genome.duplicate (g : Genome W) (newId : Int) : Except Stop (Genome W) :=
  let traits := g.traits
  let nodes := g.nodes.map (dupNode traits)
  match dupGenes traits nodes g.genes with
  | .error e => .error e
  | .ok genes =>
    match dupModules traits nodes g.modules with
    | .error e => .error e
    | .ok mods => .ok { id := newId, traits := traits, nodes := nodes, genes := genes, modules := mods }

/-! ### small accessors used by several operators -/

/-- the running maximum `for _, x := range xs { if x > acc { acc = x } }` -/
def maxFrom (keys : List Int) (init : Int) : Int := keys.foldl (fun acc k => if k > acc then k else acc) init

/-- `getLastNodeId` (as repaired by the `fix:` commit 48b1f99): starts from the last listed node, then takes the
    maximum over all nodes and over the control nodes of all modules -/
def Genome.lastNodeId (g : Genome W) : Except Stop Int :=
  match g.nodes.getLast? with
  | none => .error (.error "noNodes")
  | some n => .ok (maxFrom (g.modules.map (·.ctrl.id)) (maxFrom (g.nodes.map (·.id)) n.id))

/-- `getNextGeneInnovNum` (as repaired by 48b1f99): starts from the last listed gene, then takes the maximum over all
    genes and over all control genes; plus one -/
def Genome.nextGeneInnov (g : Genome W) : Except Stop Int :=
  match g.genes.getLast? with
  | none => .error (.error "noGenes")
  | some last => .ok (maxFrom (g.modules.map (·.inn)) (maxFrom (g.genes.map (·.inn)) last.inn) + 1)

/-- `haveGene` -/
def Genome.haveGene (g : Genome W) (gene : Gene W) : Bool :=
  match g.nextGeneInnov with
  | .error _ => if gene.inn ≥ -1 then false else g.genes.any (·.sameLink gene)
  | .ok nxt => if gene.inn ≥ nxt then false else g.genes.any (·.sameLink gene)

end GoNeat
