/-
  Call histories of a standard `Network` that also contain DEPTH QUERIES (`Network.MaxActivationDepthWithCap(cap)`,
  `Network.MaxActivationDepth()` = cap 0) between the `Solver` interface calls (C13: "any history").

  The depth query is the C14 model (Model/Depth.lean: `maxDepthCap`, every cap, both exits of `NNode.Depth`) run on
  the `visited` marks OF THE SOLVER STATE (`NState.visited`, the marks `Network.RecursiveSteps` reads and
  `NNode.Flushback` clears); the marks it leaves behind are written back into the state, so a query that forgot a
  mark would be seen by every later call.  Props/C13Depth.lean proves that it never does.
-/
import GoNeat.Model.Solver
import GoNeat.Model.Depth

namespace GoNeat.SolverD
open GoNeat.Solver

variable {W : Type}

/-- one call of a history: a `Solver` interface call or a depth query with a cap (`cap ≤ 0` = no cap) -/
inductive OpD (W : Type) where
  | call (op : Op W)
  | depth (cap : Int)
deriving Repr

/-- what a caller sees of one call: as `Solver.Obs`, plus the answer `(depth, error)` of a depth query -/
structure ObsD (W : Type) where
  res : Bool
  err : Option Err
  outs : List W
  depth : Option (Int × Depth.DErr)
deriving Repr

section
variable [Scalar W]

/-- `Network.MaxActivationDepthWithCap(cap)` on the solver state: runs on the state's marks, the marks left behind go
    back into the state -/
def depthQuery (net : Net W) (cap : Int) (s : St W) : St W × Depth.TopRes :=
  let r := Depth.maxDepthCap net cap (s.map (·.visited))
  (setVisited s r.vis, r)

/-- new state and observation of one call -/
def stepD (net : Net W) (σ : Nat → W → Option W) (s : St W) : OpD W → St W × ObsD W
  | .call op =>
    let r := step net σ s op
    (r.1, { res := r.2.1, err := r.2.2, outs := readOutputs net r.1, depth := none })
  | .depth cap =>
    let r := depthQuery net cap s
    (r.1, { res := r.2.err == .ok, err := none, outs := readOutputs net r.1, depth := some (r.2.depth, r.2.err) })

/-- run a history; final state and the observation after every call -/
def runD (net : Net W) (σ : Nat → W → Option W) : List (OpD W) → St W → St W × List (ObsD W)
  | [], s => (s, [])
  | op :: ops, s =>
    let r := stepD net σ s op
    let t := runD net σ ops r.1
    (t.1, r.2 :: t.2)

/-- the history with the depth queries taken out -/
def erase : List (OpD W) → List (Op W)
  | [] => []
  | .call op :: l => op :: erase l
  | .depth _ :: l => erase l

/-- the observations of the `Solver` interface calls of a history -/
def callObs : List (OpD W) → List (ObsD W) → List (Obs W)
  | .call _ :: l, o :: os => { res := o.res, err := o.err, outs := o.outs } :: callObs l os
  | .depth _ :: l, _ :: os => callObs l os
  | _, _ => []

end
end GoNeat.SolverD
