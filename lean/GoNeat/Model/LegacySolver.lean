/-
  Frozen copy of the fast solver's recursive activation as it was before repair 203d9f0
  ("fix: recursive fast-solver activation adds the bias input"): `recursiveActivateNode` never added
  `biasList[currentNode]`.  Kept only for the machine-checked counterexample `C12.recursive_legacy_counterexample`.
-/
import GoNeat.Model.FastSolver

namespace GoNeat.Fast.Legacy
open GoNeat.Solver (Err)

variable {W : Type} [Scalar W]

/-- tail of the old `recursiveActivateNode`: no bias term -/
def recFinish (fn : FastNet W) (σ : Nat → W → Option W) (cur : Nat) (s2 : FState W) : Res W :=
  let sig := getW s2.processing cur
  let s3 := { s2 with activated := s2.activated.set cur true, inAct := s2.inAct.set cur false }
  match σ (fn.acts.getD cur 0) sig with
  | none => ({ s3 with signals := s3.signals.set cur negInf }, false, some .unknownAct)
  | some v => ({ s3 with signals := s3.signals.set cur v }, true, none)

def recNode (fn : FastNet W) (σ : Nat → W → Option W) : Nat → Nat → FState W → Res W
  | 0, _, s => (s, false, some .fuel)
  | fuel + 1, cur, s =>
    if getB s.activated cur then ({ s with inAct := s.inAct.set cur false }, true, none)
    else
      match recAdj fn (recNode fn σ fuel) cur (revAdj fn cur) (recStart s cur) with
      | (s2, some e) => (s2, false, some e)
      | (s2, none) => recFinish fn σ cur s2

def recOutputs (fn : FastNet W) (σ : Nat → W → Option W) : List Nat → Bool → FState W → Res W
  | [], res, s => (s, res, none)
  | o :: os, _, s =>
    match recNode fn σ (fn.nTotal + 1) o s with
    | (s', _, some e) => (s', false, some e)
    | (s', false, none) => (s', false, some .recFailed)
    | (s', true, none) => recOutputs fn σ os true s'

def recursiveSteps (fn : FastNet W) (σ : Nat → W → Option W) (s : FState W) : Res W :=
  recOutputs fn σ ((List.range fn.nOutput).map (· + fn.nSensor)) false (recInit fn s)

end GoNeat.Fast.Legacy
