/-
  The error exits of `Genome.Genesis` (neat/genetics/genome.go), non-modular part: "network built without
  GENES", "network without OUTPUTS", and the nil dereference when an enabled gene's endpoint is not one of
  the genome's nodes (its `PhenotypeAnalogue` was never set).  Only the error conditions are modelled here
  (C01: "every such genome can be expressed as a network without error"); the network itself is C11.
-/
import GoNeat.Model.Genome

namespace GoNeat
variable {W : Type}

/-- `none` = Genesis returns a network; `some cls` = the error class of the harness dump -/
def genesisErr (g : Genome W) : Option String :=
  if g.genes.isEmpty then some "genesis:noGenes"
  else if !g.nodes.any (·.kind == Kind.output) then some "genesis:noOutputs"
  else if g.genes.any (fun x => x.en && !(g.hasNode x.src && g.hasNode x.dst)) then some "panic:nil"
  else none

end GoNeat
