/-
  Frozen copy of the link loop of `readMIMOControlGene` as it behaved BEFORE the `fix:` commit that made
  `genetics.NodeWithId` find a node whose id is 0 (the helper started with `if nodeId != 0 && nodes != nil`, so a module
  wired to node 0 was written by the YAML writer but refused by the reader).  It exists only to host the
  machine-checked counterexample `C15.yaml_module_node_zero_counterexample` (Props/C15.lean); nothing else may import it.
-/
import GoNeat.Model.Codec

namespace GoNeat.Codec.Legacy
open GoNeat GoNeat.Codec
open GoNeat.PlainIO (Err)
variable {F : Type}

/-- pre-fix `decWires`: `NodeWithId(0, nodes)` answers nil -/
def decWires (K : Consts F) (nodes : List Node) : List (Val F) → Except Err (List (Wire F))
  | [] => .ok []
  | .map kvs :: vs =>
    match get kvs "id" with
    | some (.int id) =>
      if id != 0 && nodes.any (·.id == id) then
        match decWires K nodes vs with
        | .error e => .error e
        | .ok ws => .ok ({ node := id, w := K.one, recur := false, trait := none } :: ws)
      else .error (.noModuleNode id)
    | _ => .error .panic
  | _ :: _ => .error .panic

end GoNeat.Codec.Legacy
