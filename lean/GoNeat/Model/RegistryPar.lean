/-
  C16(b): the innovation registry of `Population` under concurrent use (DESIGN §3 C16, Appendix C).

  Shared state = the three things the reproduction goroutines share: the innovation records
  (`Population.innovations`, read as a whole under the mutex by `Innovations()`, appended under the mutex by
  `StoreInnovation`) and the two counters (`nextInnovNum`, `nextNodeId`; `atomic.Add*`, which returns the NEW
  value).  A thread (one species' goroutine) executes a list of requests; each request is a sequence of
  *micro-steps*, each touching the shared state at most once — exactly the granularity at which the real
  operations are atomic:

      add-link  l :  snapshot records (reuse a matching record and finish | no match) · fetch-add nextInn · store
      add-node  o :  snapshot records (reuse | no match) · fetch-add nextNode · fetch-add nextInn · fetch-add nextInn · store

  (`mutateAddLink` / `mutateConnectSensors` / `mutateAddNode` in genome_mutate.go: the `for … range
  innovations.Innovations()` search runs on the slice header obtained under the mutex, i.e. on a snapshot.)
  An ARBITRARY scheduler list says which thread performs its next micro-step; any number of threads, any
  number of requests, any schedule length.  Between a thread's snapshot and its store other threads may store
  records for the same link: duplicates with different numbers are possible and allowed.

  Ghost state (not in the implementation): `log` collects every (innovation number, connection) pair a thread
  puts into a gene, `nodeLog` every (node id, role) pair, `issuedInn`/`issuedNode` every value returned by a
  fetch-add.  "An innovation number denotes a single connection" is `Functional log`.

  `linkOf` is the meaning of the innovation numbers of the PARENT generation (it exists by C03 for the input
  population): an add-node request names the gene it splits by its number `old`; the split connection is `linkOf old`.

  CORE LEAN ONLY.
-/
namespace GoNeat.RegPar

structure Link where
  src : Int
  dst : Int
  recur : Bool
deriving DecidableEq, Repr

/-- role of a hidden node created by add-node: it splits the gene `old` -/
structure Role where
  old : Nat
deriving DecidableEq, Repr

inductive Rec where
  /-- `newLinkInnType`: link `l` got number `inn` -/
  | link (l : Link) (inn : Nat)
  /-- `newNodeInnType`: gene `old` between `src` and `dst` was split by node `nid`; `inn1` = src→nid, `inn2` = nid→dst -/
  | node (src dst : Int) (old : Nat) (nid : Nat) (inn1 inn2 : Nat)
deriving DecidableEq, Repr

inductive Req where
  | addLink (l : Link)
  | addNode (old : Nat)
deriving DecidableEq, Repr

/-- where a thread stands inside its current (head) request -/
inductive Pc where
  | idle                                 -- next micro-step: snapshot (+ local search)
  | linkNeedInn                          -- add-link, no matching record seen: next = fetch-add nextInn
  | linkStore (n : Nat)                  -- next = store record
  | nodeNeedNode                         -- add-node, no match: next = fetch-add nextNode
  | nodeNeedInn1 (nid : Nat)
  | nodeNeedInn2 (nid n1 : Nat)
  | nodeStore (nid n1 n2 : Nat)
deriving DecidableEq, Repr

structure Thread where
  todo : List Req
  pc : Pc
deriving DecidableEq, Repr

structure Shared where
  records : List Rec
  nextInn : Nat
  nextNode : Nat
  log : List (Nat × Link)
  nodeLog : List (Nat × Role)
  issuedInn : List Nat
  issuedNode : List Nat
deriving Repr

structure State where
  shared : Shared
  threads : List Thread
deriving Repr

/-- node ids live in the same `Int` space as link endpoints -/
def nodeRef (n : Nat) : Int := Int.ofNat n

/-- the (number, connection) pairs a record stands for; `linkOf` supplies the recurrence flag of the split gene -/
def Rec.bindings (linkOf : Nat → Link) : Rec → List (Nat × Link)
  | .link l inn => [(inn, l)]
  | .node src dst old nid inn1 inn2 =>
      [(inn1, ⟨src, nodeRef nid, (linkOf old).recur⟩), (inn2, ⟨nodeRef nid, dst, false⟩)]

def Rec.nodeBindings : Rec → List (Nat × Role)
  | .link _ _ => []
  | .node _ _ old nid _ _ => [(nid, ⟨old⟩)]

def matchLink (l : Link) : Rec → Bool
  | .link l' _ => l' == l
  | .node .. => false

def matchNode (linkOf : Nat → Link) (old : Nat) : Rec → Bool
  | .link .. => false
  | .node src dst old' _ _ _ => src == (linkOf old).src && dst == (linkOf old).dst && old' == old

/-- one micro-step of thread state `t` on shared state `s` -/
def stepThread (linkOf : Nat → Link) (s : Shared) (t : Thread) : Shared × Thread :=
  match t.todo with
  | [] => (s, t)
  | .addLink l :: rest =>
    match t.pc with
    | .idle =>
      match s.records.find? (matchLink l) with
      | some r => ({ s with log := s.log ++ r.bindings linkOf }, { todo := rest, pc := .idle })
      | none => (s, { t with pc := .linkNeedInn })
    | .linkNeedInn =>
      let n := s.nextInn + 1
      ({ s with nextInn := n, issuedInn := s.issuedInn ++ [n] }, { t with pc := .linkStore n })
    | .linkStore n =>
      ({ s with records := s.records ++ [.link l n], log := s.log ++ [(n, l)] }, { todo := rest, pc := .idle })
    | _ => (s, t)
  | .addNode old :: rest =>
    match t.pc with
    | .idle =>
      match s.records.find? (matchNode linkOf old) with
      | some r => ({ s with log := s.log ++ r.bindings linkOf, nodeLog := s.nodeLog ++ r.nodeBindings },
                   { todo := rest, pc := .idle })
      | none => (s, { t with pc := .nodeNeedNode })
    | .nodeNeedNode =>
      let nid := s.nextNode + 1
      ({ s with nextNode := nid, issuedNode := s.issuedNode ++ [nid] }, { t with pc := .nodeNeedInn1 nid })
    | .nodeNeedInn1 nid =>
      let n := s.nextInn + 1
      ({ s with nextInn := n, issuedInn := s.issuedInn ++ [n] }, { t with pc := .nodeNeedInn2 nid n })
    | .nodeNeedInn2 nid n1 =>
      let n := s.nextInn + 1
      ({ s with nextInn := n, issuedInn := s.issuedInn ++ [n] }, { t with pc := .nodeStore nid n1 n })
    | .nodeStore nid n1 n2 =>
      let r : Rec := .node (linkOf old).src (linkOf old).dst old nid n1 n2
      ({ s with records := s.records ++ [r], log := s.log ++ r.bindings linkOf, nodeLog := s.nodeLog ++ r.nodeBindings },
       { todo := rest, pc := .idle })
    | _ => (s, t)

/-- the scheduler picks thread `i` (a pick of a finished or non-existent thread is a no-op) -/
def step (linkOf : Nat → Link) (st : State) (i : Nat) : State :=
  match st.threads[i]? with
  | none => st
  | some t =>
    let (s', t') := stepThread linkOf st.shared t
    { shared := s', threads := st.threads.set i t' }

def runSched (linkOf : Nat → Link) (st : State) (sched : List Nat) : State := sched.foldl (step linkOf) st

/-- initial state of an epoch: the given shared registry, every thread at the start of its program -/
def initState (s₀ : Shared) (progs : List (List Req)) : State :=
  { shared := s₀, threads := progs.map (fun p => { todo := p, pc := .idle }) }

/-! ### specification predicates -/

/-- each key is bound to one value -/
def Functional {α β : Type} (l : List (α × β)) : Prop :=
  ∀ a b b', (a, b) ∈ l → (a, b') ∈ l → b = b'

/-- the registry the epoch starts from: nothing it mentions is above the counters, its records are mutually
    consistent and node records agree with `linkOf`; the ghost logs start out as the meaning of the parent
    generation's numbers restricted to what the records mention (in the implementation the records are empty
    at the start of every epoch: `finalizeReproduction` clears them) -/
structure RegInv₀ (linkOf : Nat → Link) (s : Shared) : Prop where
  bindings_le : ∀ r ∈ s.records, ∀ b ∈ r.bindings linkOf, b.1 ≤ s.nextInn
  nodes_le : ∀ r ∈ s.records, ∀ b ∈ r.nodeBindings, b.1 ≤ s.nextNode
  functional : Functional (s.records.flatMap (Rec.bindings linkOf))
  nodeFunctional : Functional (s.records.flatMap Rec.nodeBindings)
  nodeRecs : ∀ src dst old nid n1 n2, Rec.node src dst old nid n1 n2 ∈ s.records →
    src = (linkOf old).src ∧ dst = (linkOf old).dst
  log_empty : s.log = [] ∧ s.nodeLog = [] ∧ s.issuedInn = [] ∧ s.issuedNode = []

end GoNeat.RegPar
