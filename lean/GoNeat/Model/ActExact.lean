/-
  The 9 activation functions of neat/math/activations.go that use only + - * / abs, comparisons and the sign
  bit (`exactActivators` in harness common.go), transliterated by hand over `Float`, and
  `NodeActivators.ActivateByType` restricted to them.  Used by the driver for the bit-exact co-simulation of the
  solvers (DESIGN §2.2).  The exp/tanh/sin/pow based activators are not reproduced here (`sigmaExact` is `none`
  on them exactly as on an unregistered type, the harness never uses them in the bit-exact streams).
-/
import GoNeat.Model.Scalar

namespace GoNeat.ActExact

/-- `math.Signbit` -/
def signbit (x : Float) : Bool := x.toBits >>> 63 != 0

/-- approximationSigmoid (code 5) -/
def approximationSigmoid (input : Float) : Float :=
  let four := 4.0
  let one32nd := 0.03125
  if input < -4.0 then 0.0
  else if input < 0.0 then (input + four) * (input + four) * one32nd
  else if input < 4.0 then 1.0 - (input - four) * (input - four) * one32nd
  else 1.0

/-- approximationSteepenedSigmoid (code 6) -/
def approximationSteepenedSigmoid (input : Float) : Float :=
  let one := 1.0
  let oneHalf := 0.5
  if input < -1.0 then 0.0
  else if input < 0.0 then (input + one) * (input + one) * oneHalf
  else if input < 1.0 then 1.0 - (input - one) * (input - one) * oneHalf
  else 1.0

/-- inverseAbsoluteSigmoid (code 7) -/
def inverseAbsoluteSigmoid (input : Float) : Float := 0.5 + (input / (1.0 + Float.abs input)) * 0.5

/-- clippedLinear (code 16) -/
def clippedLinear (input : Float) : Float :=
  if input < -1.0 then -1.0 else if input > 1.0 then 1.0 else input

/-- signFunction (code 18) -/
def signFunction (input : Float) : Float :=
  if input.isNaN || input == 0.0 then 0.0 else if signbit input then -1.0 else 1.0

/-- stepFunction (code 20) -/
def stepFunction (input : Float) : Float := if signbit input then 0.0 else 1.0

/-- activation type codes (`iota + 1` block of activations.go) -/
def codeApprox : Nat := 5
def codeSteepApprox : Nat := 6
def codeInvAbs : Nat := 7
def codeLinear : Nat := 14
def codeLinearAbs : Nat := 15
def codeLinearClipped : Nat := 16
def codeNull : Nat := 17
def codeSign : Nat := 18
def codeStep : Nat := 20

def exactCodes : List Nat := [5, 6, 7, 14, 15, 16, 17, 18, 20]

/-- `ActivateByType` on the arithmetic-only activators; every other code is treated as unregistered -/
def sigmaExact (a : Nat) (x : Float) : Option Float :=
  match a with
  | 5 => some (approximationSigmoid x)
  | 6 => some (approximationSteepenedSigmoid x)
  | 7 => some (inverseAbsoluteSigmoid x)
  | 14 => some x
  | 15 => some (Float.abs x)
  | 16 => some (clippedLinear x)
  | 17 => some 0.0
  | 18 => some (signFunction x)
  | 20 => some (stepFunction x)
  | _ => none

end GoNeat.ActExact
