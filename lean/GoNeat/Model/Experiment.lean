/-
  Model of `Experiment.Execute` (experiment/experiment_execute.go), property C20.

  The *script* is the behaviour of the environment: what the evaluator answers for generation `g` of trial `t`
  (unsolved / solved / error), whether the epoch turnover after it fails, and at which callbacks the caller's
  context gets cancelled (inside the evaluator, inside one of the three observer notifications, or before
  `Execute` is called).  A script is a family of *functions* of `(t, g)`: nothing bounds the number of runs or
  generations.  `execute` returns the sequence of observable events (evaluator calls, completed epoch
  turnovers, observer notifications) and the result (recorded trials, returned error).

  `NewPopulation`, `Verify` and `NextEpoch` are black boxes here: they succeed or fail as the script says.
  The population is a ghost pair (trial it was spawned for, number of completed turnovers), carried by the
  `eval` event so that "fresh spawn per trial" and "turned over once per unsolved generation" are observable.

  Core Lean only; structural recursion on fuel (`runs - t`, `maxGen - g`).
-/
namespace GoNeat.Experiment

/-- answer of `GenerationEvaluate`: returns nil leaving `Solved` false / returns nil having set `Solved` / returns an error -/
inductive EvalOutcome
  | unsolved | solved | fail
  deriving DecidableEq, Repr, Inhabited

/-- error returned by `Execute` -/
inductive Err
  | noOptions                 -- context carries no NEAT options
  | spawnFailed               -- `NewPopulation` / `Verify` returned an error
  | badExecutor               -- unsupported epoch executor type
  | cancelled                 -- `ctx.Err()`
  | evalFailed (t g : Nat)    -- the error value the evaluator returned for generation g of trial t
  | epochFailed               -- the error `NextEpoch` returned
  deriving DecidableEq, Repr, Inhabited

inductive Event
  /-- observer: `TrialRunStarted` of trial `t` -/
  | started (t : Nat)
  /-- evaluator: `GenerationEvaluate` for generation `g` of trial `t`, on the population spawned for trial `popTrial`
      that has been turned over `popEpochs` times -/
  | eval (t g popTrial popEpochs : Nat)
  /-- `NextEpoch(ctx, g, pop)` completed a turnover of the population of trial `t` -/
  | epoch (t g : Nat)
  /-- observer: `EpochEvaluated` for generation `g` of trial `t` -/
  | evaluated (t g : Nat)
  /-- observer: `TrialRunFinished` of trial `t` -/
  | finished (t : Nat)
  deriving DecidableEq, Repr, Inhabited

structure GenRec where
  id : Nat
  trialId : Nat
  solved : Bool
  deriving DecidableEq, Repr, Inhabited

structure TrialRec where
  id : Nat
  gens : List GenRec
  deriving DecidableEq, Repr, Inhabited

structure Result where
  /-- the completed trials, in the order they were stored into `Experiment.Trials` -/
  trials : List TrialRec
  err : Option Err
  deriving DecidableEq, Repr, Inhabited

structure Script where
  /-- `neat.FromContext(ctx)` finds options -/
  hasOptions : Bool := true
  /-- `opts.NumRuns` -/
  runs : Nat
  /-- `opts.NumGenerations` -/
  maxGen : Nat
  /-- a `TrialRunObserver` is passed (non-nil) -/
  observer : Bool
  /-- `opts.EpochExecutorType` is one of the supported types -/
  execOk : Bool := true
  /-- the context is already cancelled when `Execute` is called -/
  preCancelled : Bool := false
  /-- spawning and verifying the population of trial `t` succeeds -/
  spawnOk : Nat → Bool := fun _ => true
  evalRes : Nat → Nat → EvalOutcome
  /-- the context gets cancelled while the evaluator runs generation `g` of trial `t` -/
  evalCancels : Nat → Nat → Bool := fun _ _ => false
  /-- `NextEpoch` after generation `g` of trial `t` returns an error of its own -/
  epochFails : Nat → Nat → Bool := fun _ _ => false
  startedCancels : Nat → Bool := fun _ => false
  evaluatedCancels : Nat → Nat → Bool := fun _ _ => false
  finishedCancels : Nat → Bool := fun _ => false

/-- an observer notification happens only when an observer was passed -/
def obs (s : Script) (e : Event) : List Event := if s.observer then [e] else []

/-- outcome of the generation loop of one trial -/
structure GenOut where
  events : List Event
  gens : List GenRec
  /-- `.ok c`: loop left normally, `c` = context cancelled by now; `.error e`: `Execute` returns `e` -/
  exit : Except Err Bool

/-- generation loop of trial `t`: `fuel = maxGen - g`, `pe` = turnovers the population has gone through,
    `c` = context already cancelled -/
def genLoop (s : Script) (t : Nat) : Nat → Nat → Nat → Bool → GenOut
  | 0, _, _, c => ⟨[], [], .ok c⟩
  | fuel + 1, g, pe, c =>
    -- select { case <-ctx.Done(): return ctx.Err() }
    if c then ⟨[], [], .error .cancelled⟩
    else
      let c1 := s.evalCancels t g
      match s.evalRes t g with
      | .fail => ⟨[.eval t g t pe], [], .error (.evalFailed t g)⟩
      | .solved =>
        -- no turnover; record, notify, break
        ⟨.eval t g t pe :: obs s (.evaluated t g), [⟨g, t, true⟩], .ok (c1 || (s.observer && s.evaluatedCancels t g))⟩
      | .unsolved =>
        -- NextEpoch: speciation of the offspring observes a cancelled context and returns ctx.Err()
        if c1 then ⟨[.eval t g t pe], [], .error .cancelled⟩
        else if s.epochFails t g then ⟨[.eval t g t pe], [], .error .epochFailed⟩
        else
          let r := genLoop s t fuel (g + 1) (pe + 1) (s.observer && s.evaluatedCancels t g)
          ⟨.eval t g t pe :: .epoch t g :: (obs s (.evaluated t g) ++ r.events), ⟨g, t, false⟩ :: r.gens, r.exit⟩

structure RunOut where
  events : List Event
  trials : List TrialRec
  err : Option Err

/-- trial loop: `fuel = runs - t` -/
def trialLoop (s : Script) : Nat → Nat → Bool → RunOut
  | 0, _, _ => ⟨[], [], none⟩
  | fuel + 1, t, c =>
    if !s.spawnOk t then ⟨[], [], some .spawnFailed⟩
    else if !s.execOk then ⟨[], [], some .badExecutor⟩
    else
      let r := genLoop s t s.maxGen 0 0 (c || (s.observer && s.startedCancels t))
      match r.exit with
      | .error e => ⟨obs s (.started t) ++ r.events, [], some e⟩
      | .ok c2 =>
        let rest := trialLoop s fuel (t + 1) (c2 || (s.observer && s.finishedCancels t))
        ⟨obs s (.started t) ++ (r.events ++ (obs s (.finished t) ++ rest.events)), ⟨t, r.gens⟩ :: rest.trials, rest.err⟩

/-- `Experiment.Execute` on a fresh experiment (`Trials == nil`) -/
def execute (s : Script) : List Event × Result :=
  if !s.hasOptions then ([], ⟨[], some .noOptions⟩)
  else
    let r := trialLoop s s.runs 0 s.preCancelled
    (r.events, ⟨r.trials, r.err⟩)

end GoNeat.Experiment
