/-
  `newGenomeRand` (neat/genetics/genome.go) and `NewPopulationRandom` (neat/genetics/population.go).

  Transliteration of the Go code, including the order in which it consumes the global random stream:
    1. `matrixDim = total²` draws `rand.Float64() < linkProb` for the connection matrix,
    2. one `opts.RandomNodeActivationType()` per hidden node (no draw when a single activator is registered),
    3. per created gene `math.RandSign()` then `rand.Float64()`.
  The parameters `in, out, n, maxHidden` are Go `int`s; the model takes naturals (a negative value makes
  `make([]bool, matrixDim)` / the loops meaningless; `NewPopulationRandom` passes `rand.Intn(maxHidden)` for `n`).
  Heap abstraction as everywhere: nodes and traits are named by id.  The endpoint lookup loop of the Go code
  (`for i := 0; i < len(gnome.Nodes) && (inNode == nil || outNode == nil); i++`) is modelled by `find?`; whichever
  object it ends with carries the id searched for.  A failed lookup would leave a nil endpoint in Go, which the
  model cannot represent: it stops with `nilEndpoint`.  This does not happen for any parameters (every row / column that
  passes the guard is `≤ in+n` or `≥ firstOutput`, and those ids are all built) - not proved in Lean; the ops `genomeRand` /
  `populationRandom` would report it as a correspondence failure ("model stops but impl succeeds").  Likewise `cm[count]`
  is always in range (`drawMatrix_length`).  The theorems of Props/C01GenRand.lean, Props/C03GenRand.lean are statements
  about the `ok` results.
-/
import GoNeat.Model.Epoch

namespace GoNeat
open Scalar
variable {W : Type} [Scalar W]

/-- activation type code of `network.NewSensorNode` (`math.NullActivation`) -/
def nullActivation : Nat := 17
/-- `neat.NumTraitParams` -/
def numTraitParams : Nat := 8

/-- `for count := 0; count < matrixDim; count++ { cm[count] = rand.Float64() < linkProb }` -/
def drawMatrix (linkProb : W) : Nat → Rand (List Bool)
  | 0, rs => .ok ([], rs)
  | k + 1, rs =>
    match Rand.float64 (W := W) rs with
    | .error e => .error e
    | .ok (f, rs1) =>
      match drawMatrix linkProb k rs1 with
      | .error e => .error e
      | .ok (cm, rs2) => .ok (lt f linkProb :: cm, rs2)

/-- `for i := 1; i <= in; i++ { NewSensorNode(i, i == in) }` -/
def sensorNodes (nIn : Nat) : List Node :=
  (List.range nIn).map fun (i : Nat) =>
    { id := ((i + 1 : Nat) : Int), kind := if i + 1 = nIn then Kind.bias else Kind.input, act := nullActivation, trait := some 1 }

/-- `for i := in+1; i <= in+n; i++ { NewNNode(i, HiddenNeuron); ActivationType = opts.RandomNodeActivationType() }`:
    `k` nodes left to build, the next one gets id `i` -/
def hiddenNodes (o : MutOpts W) : Nat → Nat → Rand (List Node)
  | 0, _, rs => .ok ([], rs)
  | k + 1, i, rs =>
    match randomNodeActivationType o rs with
    | .error e => .error e
    | .ok (a, rs1) =>
      match hiddenNodes o k (i + 1) rs1 with
      | .error e => .error e
      | .ok (ns, rs2) => .ok ({ id := ((i : Nat) : Int), kind := Kind.hidden, act := a, trait := some 1 } :: ns, rs2)

/-- `for i := firstOutput; i <= totalNodes; i++ { NewNNode(i, OutputNeuron) }` -/
def outputNodes (firstOutput nOut : Nat) : List Node :=
  (List.range nOut).map fun (i : Nat) =>
    { id := ((firstOutput + i : Nat) : Int), kind := Kind.output, act := defaultActivation, trait := some 1 }

/-- the fixed numbers of one `newGenomeRand` call -/
structure RandDims where
  nIn : Nat
  maxNode : Nat
  firstOutput : Nat
  total : Nat
deriving Repr

/-- the guard `col > in && (col <= maxNode || col >= firstOutput) && (row <= maxNode || row >= firstOutput)` -/
def RandDims.inMatrix (d : RandDims) (col row : Nat) : Bool :=
  decide (col > d.nIn) && (decide (col ≤ d.maxNode) || decide (col ≥ d.firstOutput)) &&
    (decide (row ≤ d.maxNode) || decide (row ≥ d.firstOutput))

/-- body of the inner loop for one matrix cell: zero or one gene -/
def cellGene (d : RandDims) (recurrent : Bool) (nodes : List Node) (bit : Bool) (col row count : Nat) :
    Rand (List (Gene W)) := fun rs =>
  if bit && d.inMatrix col row then
    -- `if col > row { flagRecurrent = false } else { flagRecurrent = true; if !recurrent { createGene = false } }`
    let flagRecurrent := !decide (col > row)
    if decide (col > row) || recurrent then
      match nodes.find? (fun n => n.id == (row : Int)), nodes.find? (fun n => n.id == (col : Int)) with
      | some a, some b =>
        match Rand.signedUnit (W := W) rs with
        | .error e => .error e
        | .ok (w, rs1) =>
          .ok ([{ inn := (count : Int), src := a.id, dst := b.id, recur := flagRecurrent, w := w, mnum := w, en := true,
                  trait := some 1 }], rs1)
      | _, _ => .error (.error "nilEndpoint")
    else .ok ([], rs)
  else .ok ([], rs)

/-- `for row := …; row <= totalNodes; row++ { …; count++ }`: `k` rows left; returns the genes and the running `count` -/
def rowLoop (d : RandDims) (recurrent : Bool) (nodes : List Node) (cm : List Bool) (col : Nat) :
    Nat → Nat → Nat → Rand (List (Gene W) × Nat)
  | 0, _, count, rs => .ok (([], count), rs)
  | k + 1, row, count, rs =>
    match cm[count]? with
    | none => .error (.error "panic:index")
    | some bit =>
      match cellGene (W := W) d recurrent nodes bit col row count rs with
      | .error e => .error e
      | .ok (gs, rs1) =>
        match rowLoop d recurrent nodes cm col k (row + 1) (count + 1) rs1 with
        | .error e => .error e
        | .ok ((rest, c), rs2) => .ok ((gs ++ rest, c), rs2)

/-- `for col := …; col <= totalNodes; col++ { for row := 1; … }`: `k` columns left -/
def colLoop (d : RandDims) (recurrent : Bool) (nodes : List Node) (cm : List Bool) :
    Nat → Nat → Nat → Rand (List (Gene W) × Nat)
  | 0, _, count, rs => .ok (([], count), rs)
  | k + 1, col, count, rs =>
    match rowLoop (W := W) d recurrent nodes cm col d.total 1 count rs with
    | .error e => .error e
    | .ok ((gs, c1), rs1) =>
      match colLoop d recurrent nodes cm k (col + 1) c1 rs1 with
      | .error e => .error e
      | .ok ((rest, c2), rs2) => .ok ((gs ++ rest, c2), rs2)

def randDims (nIn nOut n maxHidden : Nat) : RandDims :=
  { nIn := nIn, maxNode := nIn + n, firstOutput := (nIn + nOut + maxHidden) - nOut + 1, total := nIn + nOut + maxHidden }

/-- `newGenomeRand(newId, in, out, n, maxHidden, recurrent, linkProb, opts)` -/
def newGenomeRand (newId : Int) (nIn nOut n maxHidden : Nat) (recurrent : Bool) (linkProb : W) (o : MutOpts W) :
    Rand (Genome W) := fun rs =>
  let d := randDims nIn nOut n maxHidden
  match drawMatrix linkProb (d.total * d.total) rs with
  | .error e => .error e
  | .ok (cm, rs1) =>
    match hiddenNodes o n (nIn + 1) rs1 with
    | .error e => .error e
    | .ok (hid, rs2) =>
      let nodes := sensorNodes nIn ++ hid ++ outputNodes d.firstOutput nOut
      match colLoop (W := W) d recurrent nodes cm d.total 1 0 rs2 with
      | .error e => .error e
      | .ok ((genes, _), rs3) =>
        .ok ({ id := newId, traits := [{ id := 1, params := List.replicate numTraitParams zero }], nodes := nodes,
               genes := genes }, rs3)

/-! ### NewPopulationRandom -/

/-- the organism loop of `NewPopulationRandom`: `k` organisms left, genome id `count`, allocation id `uid` -/
def randomOrgs (o : EpochOpts W) (nIn nOut maxHidden : Nat) (recurrent : Bool) (linkProb : W) :
    Nat → Int → Nat → Rand (List (Org W))
  | 0, _, _, rs => .ok ([], rs)
  | k + 1, count, uid, rs =>
    match Rand.intn maxHidden rs with
    | .error e => .error e
    | .ok (n, rs1) =>
      match newGenomeRand count nIn nOut n maxHidden recurrent linkProb o.mopts rs1 with
      | .error e => .error e
      | .ok (g, rs2) =>
        match randomOrgs o nIn nOut maxHidden recurrent linkProb k (count + 1) (uid + 1) rs2 with
        | .error e => .error e
        | .ok (rest, rs3) => .ok (newOrganism uid g 1 :: rest, rs3)

/-- `NewPopulationRandom(in, out, maxHidden, recurrent, linkProb, opts)`; the counters are
    `nextNodeId = in+out+maxHidden+1`, `nextInnovNum = (in+out+maxHidden)² + 1` (`C03.randomCounters`) -/
def newPopulationRandom (o : EpochOpts W) (nIn nOut maxHidden : Nat) (recurrent : Bool) (linkProb : W) : Rand (Pop W) := fun rs =>
  if o.popSize = 0 then .error (.error "wrongPopSize")
  else
    match randomOrgs o nIn nOut maxHidden recurrent linkProb o.popSize 0 0 rs with
    | .error e => .error e
    | .ok (orgs, rs') =>
      let total : Int := ((nIn + nOut + maxHidden : Nat) : Int)
      let p0 : Pop W := { species := [], organisms := orgs.map (·.uid), lastSpecies := 0, highestFitness := zero,
                          epochsHighestLastChanged := 0,
                          reg := { records := [], nextInn := total * total + 1, nextNode := total + 1 },
                          nextUid := o.popSize }
      match speciate o p0 orgs with
      | .error e => .error e
      | .ok p => .ok (p, rs')

end GoNeat
