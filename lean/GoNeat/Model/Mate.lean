/-
  The three crossover operators (neat/genetics/genome_reproduce.go): `mateMultipoint`,
  `mateMultipointAvg`, `mateSinglePoint`, for non-modular genomes.

  Random draws are taken from the explicit raw stream in exactly the order the Go code takes them
  (including the short-circuit evaluation of `!p1.en || !p2.en && rand.Float64() < 0.75`).
  Genes name their endpoints by id; the node *object* a child node is copied from is the one of the
  parent that contributed the endpoint, looked up in that parent's node list (`nodeById`).
-/
import GoNeat.Model.Genome

namespace GoNeat
open Scalar
variable {W : Type} [Scalar W]

/-- `neat.NewTraitAvrg` -/
def traitAvg (t1 t2 : Trait W) : Except Stop (Trait W) :=
  if t1.params.length ≠ t2.params.length then .error (.error "traitParamsCountMismatch")
  else .ok { id := t1.id, params := List.zipWith avg t1.params t2.params }

/-- `Genome.mateTraits` (called after the trait-count check, so the lists have equal length) -/
def mateTraits : List (Trait W) → List (Trait W) → Except Stop (List (Trait W))
  | [], _ => .ok []
  | _ :: _, [] => .error (.error "panic:index")
  | t1 :: ts1, t2 :: ts2 =>
    match traitAvg t1 t2 with
    | .error e => .error e
    | .ok t =>
      match mateTraits ts1 ts2 with
      | .error e => .error e
      | .ok ts => .ok (t :: ts)

/-- the child trait a copied node/gene points to: `newTraits[t.Id - g.Traits[0].Id]` (index 0 for nil) -/
def childTraitRef (newTraits : List (Trait W)) (t0 : Option Int) (t : Option Int) : Except Stop (Option Int) :=
  let idx : Except Stop Int :=
    match t with
    | none => .ok 0
    | some id =>
      match t0 with
      | none => .error (.error "panic:index")     -- g.Traits[0] with no traits
      | some t0 => .ok (id - t0)
  match idx with
  | .error e => .error e
  | .ok i =>
    if i < 0 then .error (.error "panic:index")
    else
      match newTraits[i.toNat]? with
      | none => .error (.error "panic:index")
      | some t => .ok (some t.id)

/-- state of a crossover walk: child nodes and genes collected so far -/
structure MateAcc (W : Type) where
  nodes : List Node
  genes : List (Gene W)

/-- a gene chosen for the child together with the parent node objects its endpoints are copied from -/
structure Chosen (W : Type) where
  gene : Gene W
  srcN : Option Node
  dstN : Option Node

/-- resolve the endpoint node objects of a parent's gene in that parent -/
def chooseFrom (p : Genome W) (g : Gene W) : Chosen W :=
  { gene := g, srcN := nodeById p.nodes g.src, dstN := nodeById p.nodes g.dst }

/-- add a node copy to the child unless a node with that id is already there -/
def ensureNode (newTraits : List (Trait W)) (t0 : Option Int) (nodes : List Node) (n : Node) : Except Stop (List Node) :=
  if nodes.any (·.id == n.id) then .ok nodes
  else
    match childTraitRef newTraits t0 n.trait with
    | .error e => .error e
    | .ok tr => .ok (nodeInsert nodes { n with trait := tr })

/-- "Now add the chosen gene to the baby": conflict check, endpoint nodes, gene copy -/
def addChosen (newTraits : List (Trait W)) (t0 : Option Int) (acc : MateAcc W) (c : Chosen W) (disable : Bool) :
    Except Stop (MateAcc W) :=
  if acc.genes.any (·.sameLink c.gene) then .ok acc
  else
    match c.srcN, c.dstN with
    | some sn, some dn =>
      match ensureNode newTraits t0 acc.nodes sn with
      | .error e => .error e
      | .ok nodes1 =>
        match ensureNode newTraits t0 nodes1 dn with
        | .error e => .error e
        | .ok nodes2 =>
          match childTraitRef newTraits t0 c.gene.trait with
          | .error e => .error e
          | .ok tr =>
            let g' : Gene W := { c.gene with trait := tr, en := if disable then false else c.gene.en }
            .ok { nodes := nodes2, genes := acc.genes ++ [g'] }
    | _, _ => .error (.error "model:danglingEndpoint")

/-- copies of the second parent's sensors and outputs, inserted in id order -/
def ioNodes (newTraits : List (Trait W)) (t0 : Option Int) : List Node → List Node → Except Stop (List Node)
  | [], acc => .ok acc
  | n :: ns, acc =>
    if n.kind == Kind.input || n.kind == Kind.bias || n.kind == Kind.output then
      match childTraitRef newTraits t0 n.trait with
      | .error e => .error e
      | .ok tr => ioNodes newTraits t0 ns (nodeInsert acc { n with trait := tr })
    else ioNodes newTraits t0 ns acc

/-- `p1better` -/
def p1Better (f1 f2 : W) (n1 n2 : Nat) : Bool := gt f1 f2 || (eq f1 f2 && n1 < n2)

/-- the enabled-flag rule on matching genes: `!p1.en || !p2.en && rand.Float64() < 0.75` -/
def disableDraw (e1 e2 : Bool) : Rand Bool := fun rs =>
  if !e1 then .ok (true, rs)
  else if !e2 then
    match Rand.float64 (W := W) rs with
    | .error e => .error e
    | .ok (f, rs') => .ok (lt f (ofDec 75 2), rs')
  else .ok (false, rs)

/-! ### mateMultipoint -/

def multipointWalk (p1 p2 : Genome W) (newTraits : List (Trait W)) (t0 : Option Int) (better : Bool) :
    List (Gene W) → List (Gene W) → MateAcc W → Rand (MateAcc W)
  | [], [], acc, rs => .ok (acc, rs)
  | [], y :: ys, acc, rs =>
    if better then multipointWalk p1 p2 newTraits t0 better [] ys acc rs
    else
      match addChosen newTraits t0 acc (chooseFrom p2 y) false with
      | .error e => .error e
      | .ok acc' => multipointWalk p1 p2 newTraits t0 better [] ys acc' rs
  | x :: xs, [], acc, rs =>
    if !better then multipointWalk p1 p2 newTraits t0 better xs [] acc rs
    else
      match addChosen newTraits t0 acc (chooseFrom p1 x) false with
      | .error e => .error e
      | .ok acc' => multipointWalk p1 p2 newTraits t0 better xs [] acc' rs
  | x :: xs, y :: ys, acc, rs =>
    if x.inn = y.inn then
      match Rand.float64 (W := W) rs with
      | .error e => .error e
      | .ok (f, rs1) =>
        let c := if lt f (ofDec 5 1) then chooseFrom p1 x else chooseFrom p2 y
        match disableDraw (W := W) x.en y.en rs1 with
        | .error e => .error e
        | .ok (dis, rs2) =>
          match addChosen newTraits t0 acc c dis with
          | .error e => .error e
          | .ok acc' => multipointWalk p1 p2 newTraits t0 better xs ys acc' rs2
    else if x.inn < y.inn then
      if !better then multipointWalk p1 p2 newTraits t0 better xs (y :: ys) acc rs
      else
        match addChosen newTraits t0 acc (chooseFrom p1 x) false with
        | .error e => .error e
        | .ok acc' => multipointWalk p1 p2 newTraits t0 better xs (y :: ys) acc' rs
    else
      if better then multipointWalk p1 p2 newTraits t0 better (x :: xs) ys acc rs
      else
        match addChosen newTraits t0 acc (chooseFrom p2 y) false with
        | .error e => .error e
        | .ok acc' => multipointWalk p1 p2 newTraits t0 better (x :: xs) ys acc' rs
termination_by l1 l2 => l1.length + l2.length

/-- common prologue of the three operators: trait-count check, averaged traits, IO nodes of the second parent -/
def matePrologue (g og : Genome W) : Except Stop (List (Trait W) × Option Int × List Node) :=
  if !g.modules.isEmpty || !og.modules.isEmpty then .error (.error "model:modular")
  else if g.traits.length ≠ og.traits.length then .error (.error "traitCountMismatch")
  else
    match mateTraits g.traits og.traits with
    | .error e => .error e
    | .ok newTraits =>
      let t0 := g.traits.head?.map (·.id)
      match ioNodes newTraits t0 og.nodes [] with
      | .error e => .error e
      | .ok nodes => .ok (newTraits, t0, nodes)

/-- `Genome.mateMultipoint` -/
def mateMultipoint (g og : Genome W) (genomeId : Int) (f1 f2 : W) : Rand (Genome W) := fun rs =>
  match matePrologue g og with
  | .error e => .error e
  | .ok (newTraits, t0, nodes) =>
    let better := p1Better f1 f2 g.genes.length og.genes.length
    match multipointWalk g og newTraits t0 better g.genes og.genes { nodes := nodes, genes := [] } rs with
    | .error e => .error e
    | .ok (acc, rs') => .ok ({ id := genomeId, traits := newTraits, nodes := acc.nodes, genes := acc.genes }, rs')

/-! ### averaging of two matching genes (`avgGene`) -/

/-- fills `avgGene` from two matching genes: draws for trait, in-node, out-node, recurrence flag, then the
    enabled rule.  Returns the chosen gene with the parent node objects of its endpoints. -/
def avgChosen (p1 p2 : Genome W) (x y : Gene W) : Rand (Chosen W) := fun rs =>
  match Rand.float64 (W := W) rs with
  | .error e => .error e
  | .ok (fT, rs1) =>
    match Rand.float64 (W := W) rs1 with
    | .error e => .error e
    | .ok (fI, rs2) =>
      match Rand.float64 (W := W) rs2 with
      | .error e => .error e
      | .ok (fO, rs3) =>
        match Rand.float64 (W := W) rs3 with
        | .error e => .error e
        | .ok (fR, rs4) =>
          match disableDraw (W := W) x.en y.en rs4 with
          | .error e => .error e
          | .ok (dis, rs5) =>
            let half : W := ofDec 5 1
            let tr := if gt fT half then x.trait else y.trait
            let srcFrom1 := gt fI half
            let dstFrom1 := gt fO half
            let g' : Gene W :=
              { inn := x.inn,
                src := if srcFrom1 then x.src else y.src,
                dst := if dstFrom1 then x.dst else y.dst,
                recur := if gt fR half then x.recur else y.recur,
                w := avg x.w y.w,
                mnum := avg x.mnum y.mnum,
                en := !dis,
                trait := tr }
            .ok ({ gene := g',
                   srcN := if srcFrom1 then nodeById p1.nodes x.src else nodeById p2.nodes y.src,
                   dstN := if dstFrom1 then nodeById p1.nodes x.dst else nodeById p2.nodes y.dst }, rs5)

/-! ### mateMultipointAvg -/

def multipointAvgWalk (p1 p2 : Genome W) (newTraits : List (Trait W)) (t0 : Option Int) (better : Bool) :
    List (Gene W) → List (Gene W) → MateAcc W → Rand (MateAcc W)
  | [], [], acc, rs => .ok (acc, rs)
  | [], y :: ys, acc, rs =>
    if better then multipointAvgWalk p1 p2 newTraits t0 better [] ys acc rs
    else
      match addChosen newTraits t0 acc (chooseFrom p2 y) false with
      | .error e => .error e
      | .ok acc' => multipointAvgWalk p1 p2 newTraits t0 better [] ys acc' rs
  | x :: xs, [], acc, rs =>
    if !better then multipointAvgWalk p1 p2 newTraits t0 better xs [] acc rs
    else
      match addChosen newTraits t0 acc (chooseFrom p1 x) false with
      | .error e => .error e
      | .ok acc' => multipointAvgWalk p1 p2 newTraits t0 better xs [] acc' rs
  | x :: xs, y :: ys, acc, rs =>
    if x.inn = y.inn then
      match avgChosen p1 p2 x y rs with
      | .error e => .error e
      | .ok (c, rs1) =>
        match addChosen newTraits t0 acc c false with
        | .error e => .error e
        | .ok acc' => multipointAvgWalk p1 p2 newTraits t0 better xs ys acc' rs1
    else if x.inn < y.inn then
      if !better then multipointAvgWalk p1 p2 newTraits t0 better xs (y :: ys) acc rs
      else
        match addChosen newTraits t0 acc (chooseFrom p1 x) false with
        | .error e => .error e
        | .ok acc' => multipointAvgWalk p1 p2 newTraits t0 better xs (y :: ys) acc' rs
    else
      if better then multipointAvgWalk p1 p2 newTraits t0 better (x :: xs) ys acc rs
      else
        match addChosen newTraits t0 acc (chooseFrom p2 y) false with
        | .error e => .error e
        | .ok acc' => multipointAvgWalk p1 p2 newTraits t0 better (x :: xs) ys acc' rs
termination_by l1 l2 => l1.length + l2.length

/-- `Genome.mateMultipointAvg` -/
def mateMultipointAvg (g og : Genome W) (genomeId : Int) (f1 f2 : W) : Rand (Genome W) := fun rs =>
  match matePrologue g og with
  | .error e => .error e
  | .ok (newTraits, t0, nodes) =>
    let better := p1Better f1 f2 g.genes.length og.genes.length
    match multipointAvgWalk g og newTraits t0 better g.genes og.genes { nodes := nodes, genes := [] } rs with
    | .error e => .error e
    | .ok (acc, rs') => .ok ({ id := genomeId, traits := newTraits, nodes := acc.nodes, genes := acc.genes }, rs')

/-! ### mateSinglePoint -/

/-- the single-point walk. `q1` owns `l1` (the genome with fewer genes), `q2` owns `l2`.
    `last` is the `chosenGene` variable of the Go loop, which survives iterations (`none` = nil):
    the loop runs while the longer list is not exhausted and breaks when `chosenGene` is still nil. -/
def singlePointWalk (q1 q2 : Genome W) (newTraits : List (Trait W)) (t0 : Option Int) (crossPoint : Nat) :
    List (Gene W) → List (Gene W) → Nat → Option (Chosen W) → MateAcc W → Rand (MateAcc W)
  | _, [], _, _, acc, rs => .ok (acc, rs)      -- i2 == stopper
  | [], y :: ys, gc, _, acc, rs =>             -- i1 == p1stop
    let c := chooseFrom q2 y
    match addChosen newTraits t0 acc c false with
    | .error e => .error e
    | .ok acc' => singlePointWalk q1 q2 newTraits t0 crossPoint [] ys gc (some c) acc' rs
  | x :: xs, y :: ys, gc, last, acc, rs =>
    if x.inn = y.inn then
      if gc < crossPoint then
        let c := chooseFrom q1 x
        match addChosen newTraits t0 acc c false with
        | .error e => .error e
        | .ok acc' => singlePointWalk q1 q2 newTraits t0 crossPoint xs ys (gc + 1) (some c) acc' rs
      else if gc > crossPoint then
        let c := chooseFrom q2 y
        match addChosen newTraits t0 acc c false with
        | .error e => .error e
        | .ok acc' => singlePointWalk q1 q2 newTraits t0 crossPoint xs ys (gc + 1) (some c) acc' rs
      else
        match avgChosen q1 q2 x y rs with
        | .error e => .error e
        | .ok (c, rs1) =>
          match addChosen newTraits t0 acc c false with
          | .error e => .error e
          | .ok acc' => singlePointWalk q1 q2 newTraits t0 crossPoint xs ys (gc + 1) (some c) acc' rs1
    else if x.inn < y.inn then
      if gc < crossPoint then
        let c := chooseFrom q1 x
        match addChosen newTraits t0 acc c false with
        | .error e => .error e
        | .ok acc' => singlePointWalk q1 q2 newTraits t0 crossPoint xs (y :: ys) (gc + 1) (some c) acc' rs
      else
        let c := chooseFrom q2 y
        match addChosen newTraits t0 acc c false with
        | .error e => .error e
        | .ok acc' => singlePointWalk q1 q2 newTraits t0 crossPoint (x :: xs) ys gc (some c) acc' rs
    else
      -- p2innov < p1innov: skip this gene of the longer genome; `chosenGene` keeps its previous value
      match last with
      | none => .ok (acc, rs)                  -- `if chosenGene == nil { break }`
      | some _ => singlePointWalk q1 q2 newTraits t0 crossPoint (x :: xs) ys gc last acc rs
termination_by l1 l2 => l1.length + l2.length

/-- `Genome.mateSinglePoint` -/
def mateSinglePoint (g og : Genome W) (genomeId : Int) : Rand (Genome W) := fun rs =>
  match matePrologue g og with
  | .error e => .error e
  | .ok (newTraits, t0, nodes) =>
    let firstShorter := g.genes.length < og.genes.length
    let q1 := if firstShorter then g else og
    let q2 := if firstShorter then og else g
    match Rand.intn q1.genes.length rs with
    | .error e => .error e
    | .ok (crossPoint, rs1) =>
      match singlePointWalk q1 q2 newTraits t0 crossPoint q1.genes q2.genes 0 none { nodes := nodes, genes := [] } rs1 with
      | .error e => .error e
      | .ok (acc, rs') => .ok ({ id := genomeId, traits := newTraits, nodes := acc.nodes, genes := acc.genes }, rs')

end GoNeat
