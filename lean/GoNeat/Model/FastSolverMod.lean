/-
  Fast network solver WITH modules (`FastControlNode`): neat/network/fast_network.go (`forwardStep` module loop,
  `RecursiveSteps` module guard, `Relax`, `Flush` (= `Fast.flush`, after repair 1a387d5), `NodeCount`, `LinkCount`) and the translation of control nodes
  in `Network.FastNetworkSolver()` (neat/network/network.go).

  * `FastModNet` = a `FastNet` (Model/FastSolver.lean) plus the module list; the mutable state is the same `FState`
    (modules have no state of their own).
  * module loop of `forwardStep`: inputs are read from `neuronSignalsBeingProcessed` AFTER the activation loop, the
    outputs are written back into `neuronSignalsBeingProcessed`; there is NO length check (unlike `ActivateModule`):
    more output indexes than returned values is a Go run-time panic (index out of range) after the values that do
    exist were stored - error class `panic`, partial mutation kept.  Module indexes outside the arrays are
    totalised (`getW` / `set`), as for connections in Model/FastSolver.lean; the translation never produces them.
  * `RecursiveSteps` refuses a solver with modules before touching anything.
  For `modules = []` everything coincides with Model/FastSolver.lean (Proofs/FastModFlush.lean, `*_refine`).
-/
import GoNeat.Model.FastSolver
import GoNeat.Model.SolverMod

namespace GoNeat.FastMod
open GoNeat.Solver (Err)
open GoNeat.Fast

variable {W : Type}

/-- `FastControlNode` -/
structure FMod where
  act : Nat
  ins : List Nat
  outs : List Nat
deriving Repr, DecidableEq

structure FastModNet (W : Type) where
  base : FastNet W
  modules : List FMod
deriving Repr

section
variable [Scalar W]

def init (fm : FastModNet W) : FState W := Fast.init fm.base

/-- `for i, outIndex := range module.OutputIndexes { processing[outIndex] = outputs[i] }` -/
def modOuts : List Nat → List W → List W → List W × Option Err
  | [], _, p => (p, none)
  | _ :: _, [], p => (p, some .panic)
  | o :: os, v :: vs, p => modOuts os vs (p.set o v)

/-- the module loop of `forwardStep` -/
def modLoop (μ : Nat → List W → Option (List W)) : List FMod → List W → List W × Option Err
  | [], p => (p, none)
  | m :: ms, p =>
    match μ m.act (m.ins.map (getW p)) with
    | none => (p, some .unknownModAct)
    | some outs =>
      match modOuts m.outs outs p with
      | (p', some e) => (p', some e)
      | (p', none) => modLoop μ ms p'

/-- `FastModularNetworkSolver.forwardStep` -/
def forwardStep (fm : FastModNet W) (σ : Nat → W → Option W) (μ : Nat → List W → Option (List W)) (delta : W)
    (s : FState W) : Res W :=
  let fn := fm.base
  let p1 := connLoop s.signals fn.conns s.processing
  match actLoop fn σ (neuronIdx fn) p1 with
  | (p2, some e) => ({ s with processing := p2 }, false, some e)
  | (p2, none) =>
    match modLoop μ fm.modules p2 with
    | (p3, some e) => ({ s with processing := p3 }, false, some e)
    | (p3, none) =>
      let m := moveLoop delta (!(Scalar.le delta Scalar.zero)) (neuronIdx fn) s.signals p3 true
      ({ s with signals := m.1, processing := m.2.1 }, m.2.2, none)

def fwdLoop (fm : FastModNet W) (σ : Nat → W → Option W) (μ : Nat → List W → Option (List W)) :
    Nat → Bool → FState W → Res W
  | 0, res, s => (s, res, none)
  | k + 1, _, s =>
    match forwardStep fm σ μ Scalar.zero s with
    | (s', _, some e) => (s', false, some e)
    | (s', r, none) => fwdLoop fm σ μ k r s'

/-- `ForwardSteps` -/
def forwardSteps (fm : FastModNet W) (σ : Nat → W → Option W) (μ : Nat → List W → Option (List W)) (steps : Int)
    (s : FState W) : Res W :=
  fwdLoop fm σ μ steps.toNat false s

def relaxLoop (fm : FastModNet W) (σ : Nat → W → Option W) (μ : Nat → List W → Option (List W)) (delta : W) :
    Nat → Bool → FState W → Res W
  | 0, res, s => (s, res, none)
  | k + 1, _, s =>
    match forwardStep fm σ μ delta s with
    | (s', _, some e) => (s', false, some e)
    | (s', true, none) => (s', true, none)
    | (s', false, none) => relaxLoop fm σ μ delta k false s'

/-- `Relax` -/
def relax (fm : FastModNet W) (σ : Nat → W → Option W) (μ : Nat → List W → Option (List W)) (maxSteps : Int)
    (delta : W) (s : FState W) : Res W :=
  relaxLoop fm σ μ delta maxSteps.toNat false s

/-- `RecursiveSteps`: `if len(s.modules) > 0 { return false, error }` first -/
def recursiveSteps (fm : FastModNet W) (σ : Nat → W → Option W) (s : FState W) : Res W :=
  if fm.modules.length > 0 then (s, false, some .recModules) else Fast.recursiveSteps fm.base σ s

def step (fm : FastModNet W) (σ : Nat → W → Option W) (μ : Nat → List W → Option (List W)) (s : FState W) :
    Op W → Res W
  | .load xs => let r := loadSensors fm.base xs s; (r.1, r.2.isNone, r.2)
  | .forward n => forwardSteps fm σ μ n s
  | .recursive => recursiveSteps fm σ s
  | .relax n d => relax fm σ μ n d s
  | .flush => flush fm.base s

def run (fm : FastModNet W) (σ : Nat → W → Option W) (μ : Nat → List W → Option (List W)) :
    List (Op W) → FState W → FState W × List (Solver.Obs W)
  | [], s => (s, [])
  | op :: ops, s =>
    let r := step fm σ μ s op
    let t := run fm σ μ ops r.1
    (t.1, obsOf fm.base r :: t.2)

/-! ### counts -/

/-- `FastModularNetworkSolver.NodeCount` -/
def nodeCount (fm : FastModNet W) : Nat := fm.base.nTotal + fm.modules.length

/-- `FastModularNetworkSolver.LinkCount` (`b != 0` on the bias list is `!(b == 0)` of the scalar type) -/
def linkCount (fm : FastModNet W) : Nat :=
  let c := fm.base.conns.length
  let c := if fm.base.nBias > 0 then c + (fm.base.biasList.filter fun b => !Scalar.eq b Scalar.zero).length else c
  fm.modules.foldl (fun acc m => acc + (m.ins.length + m.outs.length)) c

/-! ### translation `Network.FastNetworkSolver()` with control nodes -/

/-- index list of one side of a control node: `neuronLookup[in.InNode.Id]` / `neuronLookup[out.OutNode.Id]` -/
def ctrlIdx (net : Net W) (lk : List (Int × Nat)) (incoming : Bool) : List (NLink W) → Except Err (List Nat)
  | [] => .ok []
  | l :: ls =>
    match (net.nodes ++ net.ctrl)[if incoming then l.src else l.dst]? with
    | none => .error .panic
    | some nd =>
      match lookupId lk nd.id with
      | none => .error .lookup
      | some k =>
        match ctrlIdx net lk incoming ls with
        | .error e => .error e
        | .ok ks => .ok (k :: ks)

def ctrlMods (net : Net W) (lk : List (Int × Nat)) : List (NNodeS W) → Except Err (List FMod)
  | [] => .ok []
  | cn :: rest =>
    match ctrlIdx net lk true cn.incoming with
    | .error e => .error e
    | .ok ins =>
      match ctrlIdx net lk false cn.outgoing with
      | .error e => .error e
      | .ok outs =>
        match ctrlMods net lk rest with
        | .error e => .error e
        | .ok ms => .ok ({ act := cn.act, ins := ins, outs := outs } :: ms)

/-- `Network.FastNetworkSolver()`: the body of `Fast.ofNet` (sources of links are looked up in `allNodesMIMO`, so a
    neuron fed by a control node makes the lookup fail as in Go) followed by the control-node loop -/
def ofNet (net : Net W) : Except Err (FastModNet W) :=
  let biasL := idxOfKind net Kind.bias
  let inL := idxOfKind net Kind.input
  let hidL := idxOfKind net Kind.hidden
  let order := biasL ++ inL ++ net.outputs ++ hidL
  let total := net.nodes.length
  if order.length > total then .error .panic
  else if net.outputs.any (fun o => o ≥ total) then .error .panic
  else
    let nodeAt := fun i => net.nodes[i]?
    let acts0 := order.map fun i => (nodeAt i).map (·.act) |>.getD 0
    let acts := acts0 ++ List.replicate (total - order.length) 0
    let lk : List (Int × Nat) := (List.range order.length).map fun k =>
      ((nodeAt (order.getD k 0)).map (·.id) |>.getD 0, k)
    let fl := SolverMod.flat net
    match procIncoming fl lk inL (List.replicate total Scalar.zero) [] with
    | .error e => .error e
    | .ok (b1, c1) =>
      match procIncoming fl lk hidL b1 c1 with
      | .error e => .error e
      | .ok (b2, c2) =>
        match procIncoming fl lk net.outputs b2 c2 with
        | .error e => .error e
        | .ok (b3, c3) =>
          match ctrlMods net lk net.ctrl with
          | .error e => .error e
          | .ok ms =>
            .ok { base := { nBias := biasL.length, nInput := inL.length, nOutput := net.outputs.length,
                            nTotal := total, acts := acts, biasList := b3, conns := c3 },
                  modules := ms }

end
end GoNeat.FastMod
