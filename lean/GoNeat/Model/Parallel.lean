/-
  C16(a): a small model of multi-threaded executions for the data-race argument (DESIGN §3 C16, Appendix C).

  A *trace* is one sequentially consistent interleaving of the events of all threads (list position = global
  time); quantifying over all valid traces quantifies over every schedule, any number of threads, any length.
  The Go memory model enters only as the happens-before relation below (program order ∪ unlock→later lock of
  the same mutex ∪ go-statement→start of the goroutine ∪ end of the goroutine→join), transitively closed, and as
  its definition of a data race (two accesses of one location by different goroutines, at least one a write,
  not both atomic, unordered by happens-before).  `sync.WaitGroup.Wait`/channel receive after `close` are
  modelled as `join`; `go f()` as `fork`.  Edges contributed by atomics are deliberately *omitted*: fewer
  happens-before edges mean more races, so the theorem is only stronger.

  CORE LEAN ONLY (no Mathlib import).
-/
namespace GoNeat.Par

abbrev Tid := Nat

/-- the main goroutine (the one that runs `NextEpoch`) -/
def mainTid : Tid := 0

inductive Op (L M : Type) where
  | acq (m : M)            -- sync.Mutex.Lock returns
  | rel (m : M)            -- sync.Mutex.Unlock
  | rd (l : L)             -- plain read
  | wr (l : L)             -- plain write
  | atomic (l : L)         -- sync/atomic read-modify-write (AddInt32/AddInt64)
  | fork (child : Tid)     -- `go` statement creating thread `child`
  | join (child : Tid)     -- the executing thread has waited for the end of `child`
deriving DecidableEq, Repr

structure Event (L M : Type) where
  tid : Tid
  op : Op L M
deriving DecidableEq, Repr

abbrev Trace (L M : Type) := List (Event L M)

variable {L M : Type}

def Op.loc? : Op L M → Option L
  | .rd l | .wr l | .atomic l => some l
  | _ => none

def Op.isWrite : Op L M → Bool
  | .wr _ | .atomic _ => true
  | _ => false

def Op.isAtomic : Op L M → Bool
  | .atomic _ => true
  | _ => false

section
variable [DecidableEq M]

def holderStep (m : M) (h : Option Tid) (e : Event L M) : Option Tid :=
  match e.op with
  | .acq m' => if m' = m then some e.tid else h
  | .rel m' => if m' = m then none else h
  | _ => h

/-- who holds mutex `m` after the events of `tr` (scanning from the empty state) -/
def holder (m : M) (tr : Trace L M) : Option Tid := tr.foldl (holderStep m) none

/-- trace validity: what every execution of a Go program satisfies, whatever the scheduler does -/
structure Valid (tr : Trace L M) : Prop where
  /-- mutual exclusion: `Lock` returns only when the mutex is free -/
  acq_free : ∀ (k : Nat) (t : Tid) (m : M), tr[k]? = some (⟨t, .acq m⟩ : Event L M) → holder m (tr.take k) = none
  /-- only the holder unlocks -/
  rel_held : ∀ (k : Nat) (t : Tid) (m : M), tr[k]? = some (⟨t, .rel m⟩ : Event L M) → holder m (tr.take k) = some t
  /-- fork-before-run: a thread other than main has no event before a `go` statement that creates it -/
  fork_before_run : ∀ (k : Nat) (e : Event L M), tr[k]? = some e → e.tid ≠ mainTid →
    ∃ (f : Nat) (u : Tid), f < k ∧ tr[f]? = some (⟨u, .fork e.tid⟩ : Event L M)
  /-- join-after-end: once a thread has been joined it has no further event -/
  join_after_end : ∀ (k : Nat) (u c : Tid), tr[k]? = some (⟨u, .join c⟩ : Event L M) →
    ∀ (j : Nat) (e : Event L M), k < j → tr[j]? = some e → e.tid ≠ c
end

/-- happens-before on trace positions -/
inductive HB (tr : Trace L M) : Nat → Nat → Prop where
  | po {i j : Nat} {e e' : Event L M} : i < j → tr[i]? = some e → tr[j]? = some e' → e.tid = e'.tid → HB tr i j
  | sw {i j : Nat} {t t' : Tid} {m : M} : i < j → tr[i]? = some (⟨t, .rel m⟩ : Event L M) → tr[j]? = some (⟨t', .acq m⟩ : Event L M) → HB tr i j
  | fork {i j : Nat} {t c : Tid} {e : Event L M} : i < j → tr[i]? = some (⟨t, .fork c⟩ : Event L M) → tr[j]? = some e → e.tid = c → HB tr i j
  | join {i j : Nat} {u c : Tid} {e : Event L M} : i < j → tr[i]? = some e → e.tid = c → tr[j]? = some (⟨u, .join c⟩ : Event L M) → HB tr i j
  | trans {i j k} : HB tr i j → HB tr j k → HB tr i k

/-- two events conflict: same location, different threads, at least one writes, not both atomic -/
def Conflict (a b : Event L M) : Prop :=
  a.tid ≠ b.tid ∧ ∃ l, a.op.loc? = some l ∧ b.op.loc? = some l ∧
    (a.op.isWrite = true ∨ b.op.isWrite = true) ∧ ¬ (a.op.isAtomic = true ∧ b.op.isAtomic = true)

/-- a data race: conflicting accesses at positions `i < j` not ordered by happens-before
    (happens-before never points backwards in the trace, so `¬ HB j i` is automatic) -/
def Race (tr : Trace L M) (i j : Nat) : Prop :=
  i < j ∧ ∃ a b : Event L M, tr[i]? = some a ∧ tr[j]? = some b ∧ Conflict a b ∧ ¬ HB tr i j

/-! ### the locking discipline -/

/-- how a location is protected during the parallel phase -/
inductive LocClass (M : Type) where
  | guarded (m : M)      -- every access holds mutex `m`
  | owned (t : Tid)      -- touched by thread `t` only (fresh objects; species-owned state)
  | readOnly             -- never written while the workers run
  | atomicOnly           -- accessed through sync/atomic only
deriving DecidableEq, Repr

/-- thread `t` holds `m` at position `k`: it acquired it before and has not released it since -/
def Holds (tr : Trace L M) (k : Nat) (t : Tid) (m : M) : Prop :=
  ∃ a : Nat, a < k ∧ tr[a]? = some (⟨t, .acq m⟩ : Event L M) ∧
    ∀ r : Nat, a < r → r < k → tr[r]? ≠ some (⟨t, .rel m⟩ : Event L M)

/-- thread `c` was joined by main before position `k` -/
def JoinedBefore (tr : Trace L M) (c : Tid) (k : Nat) : Prop :=
  ∃ x : Nat, x < k ∧ tr[x]? = some (⟨mainTid, .join c⟩ : Event L M)

/-- every `go` statement creating `c` comes after position `k` -/
def ForkedAfter (tr : Trace L M) (c : Tid) (k : Nat) : Prop :=
  ∀ (f : Nat) (u : Tid), tr[f]? = some (⟨u, .fork c⟩ : Event L M) → k < f

/-- a *serial* access: made by the main goroutine at a position where every other thread that ever runs has
    either already been joined or has not been created yet (by construction before the fork / after the join;
    several fork–join phases, e.g. consecutive epochs, are allowed) -/
def Serial (tr : Trace L M) (k : Nat) (e : Event L M) : Prop :=
  e.tid = mainTid ∧ ∀ (j : Nat) (e' : Event L M), tr[j]? = some e' → e'.tid ≠ mainTid → JoinedBefore tr e'.tid k ∨ ForkedAfter tr e'.tid k

def AccessOk (cls : L → LocClass M) (tr : Trace L M) (k : Nat) (e : Event L M) : Prop :=
  match e.op with
  | .rd l => Serial tr k e ∨
      (match cls l with
       | .guarded m => Holds tr k e.tid m
       | .owned t => e.tid = t
       | .readOnly => True
       | .atomicOnly => False)
  | .wr l => Serial tr k e ∨
      (match cls l with
       | .guarded m => Holds tr k e.tid m
       | .owned t => e.tid = t
       | .readOnly => False
       | .atomicOnly => False)
  | .atomic l => Serial tr k e ∨
      (match cls l with
       | .guarded m => Holds tr k e.tid m
       | .owned t => e.tid = t
       | .readOnly => False
       | .atomicOnly => True)
  | _ => True

/-- the discipline: every access is serial, or follows the protection class of its location -/
def Disciplined (cls : L → LocClass M) (tr : Trace L M) : Prop :=
  ∀ (k : Nat) (e : Event L M), tr[k]? = some e → AccessOk cls tr k e

end GoNeat.Par
