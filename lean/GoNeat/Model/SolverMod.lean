/-
  Standard network solver WITH MIMO control nodes (modules): `network.Network` built by `NewModularNetwork`
  (neat/network/network.go `ActivateSteps` third loop, `Flush`, `RecursiveSteps`, `NodeCount/LinkCount/Complexity`;
  neat/network/common.go `ActivateModule`).

  * index space = `allNodesMIMO`: node `i` of `allNodes` at index `i`, control node `k` at `nodes.length + k`
    (the convention of Model/Net.lean and Model/Genesis.lean).  The state is ONE `St W` over that index space, so
    every wiring is representable: links of neurons may come from control nodes, modules may read from / write to
    control nodes (Genesis never builds that: it attaches the links of a control gene to the control node's
    `Incoming`/`Outgoing` only, endpoints among the ordinary nodes).
  * the sweeps of Model/Solver.lean are reused unchanged; node lookups by index (`IsSensor` of a link source) go
    through `flat net` (= the network with `nodes ++ ctrl` as node table), the loops run over `net.nodes` as in Go.
  * `μ : Nat → List W → Option (List W)` = `NodeActivators.ActivateModuleByType` (`none` = unknown module
    activation type); it may return any number of outputs (`ActivateModule` checks the length).
  * `Network.Flush` iterates `allNodesMIMO` (repair 842abdd; before it: `allNodes` only, so control-node state was not
    reset - Model/LegacySolverMod.lean).
  * `Network.RecursiveSteps` on a modular network fails in `MaxActivationDepthWithCap` before touching anything.
  For `net.ctrl = []` everything here coincides with Model/Solver.lean (Proofs/SolverModFlush.lean, `*_refine`).
-/
import GoNeat.Model.Solver

namespace GoNeat.SolverMod
open GoNeat.Solver

variable {W : Type}

section
variable [Scalar W]

/-- node table of `allNodesMIMO`, used for lookups by index only -/
def flat (net : Net W) : Net W := { net with nodes := net.nodes ++ net.ctrl }

/-- state of a freshly built modular network -/
def init (net : Net W) : St W := (net.nodes ++ net.ctrl).map fun _ => NState.fresh

/-- the output loop of `ActivateModule`: `Outgoing[i].OutNode.setActivation(out); ….isActive = true` -/
def setOuts : List (NLink W) → List W → St W → St W
  | l :: ls, v :: vs, s => setOuts ls vs (upd s l.dst (fun x => { setActivation v x with isActive := true }))
  | _, _, s => s

/-- inputs of a module: `GetActiveOut` of every `Incoming` source, in `Incoming` order -/
def moduleInputs (cn : NNodeS W) (s : St W) : List W := cn.incoming.map fun l => activeOut (get s l.src)

/-- `ActivateModule` -/
def activateModule (μ : Nat → List W → Option (List W)) (cn : NNodeS W) (s : St W) : St W × Option Err :=
  match μ cn.act (moduleInputs cn s) with
  | none => (s, some .unknownModAct)
  | some outs =>
    if outs.length != cn.outgoing.length then (s, some .moduleOutLen)
    else (setOuts cn.outgoing outs s, none)

/-- third sweep of `ActivateSteps`: `cn.isActive = false; ActivateModule(cn); cn.isActive = true` per control node
    (control node number `k` of the list lives at index `i`) -/
def sweep3Aux (μ : Nat → List W → Option (List W)) : List (NNodeS W) → Nat → St W → St W × Option Err
  | [], _, s => (s, none)
  | cn :: rest, i, s =>
    match activateModule μ cn (upd s i (fun x => { x with isActive := false })) with
    | (s2, some e) => (s2, some e)
    | (s2, none) => sweep3Aux μ rest (i + 1) (upd s2 i (fun x => { x with isActive := true }))

def sweep3 (net : Net W) (μ : Nat → List W → Option (List W)) (s : St W) : St W × Option Err :=
  sweep3Aux μ net.ctrl net.nodes.length s

/-- first sweep over `allNodes`, link sources looked up in `allNodesMIMO` -/
def sweep1 (net : Net W) (s : St W) : St W := sweep1Aux (flat net) net.nodes 0 s

/-- one iteration of the body of the `for n.OutputIsOff() || !oneTime` loop: the three sweeps -/
def sweeps (net : Net W) (σ : Nat → W → Option W) (μ : Nat → List W → Option (List W)) (s : St W) :
    St W × Option Err :=
  match sweep2 net σ (sweep1 net s) with
  | (s2, some e) => (s2, some e)
  | (s2, none) => sweep3 net μ s2

def actLoop (net : Net W) (σ : Nat → W → Option W) (μ : Nat → List W → Option (List W)) (maxSteps : Int) :
    Nat → Nat → Bool → St W → Res W
  | 0, _, _, s => (s, false, some .fuel)
  | fuel + 1, abort, oneTime, s =>
    if outputIsOff net s || !oneTime then
      if (abort : Int) ≥ maxSteps then (s, false, some .exceeded)
      else
        match sweeps net σ μ s with
        | (s3, some e) => (s3, false, some e)
        | (s3, none) => actLoop net σ μ maxSteps fuel (abort + 1) true s3
    else (s, true, none)

/-- `Network.ActivateSteps` -/
def activateSteps (net : Net W) (σ : Nat → W → Option W) (μ : Nat → List W → Option (List W)) (maxSteps : Int)
    (s : St W) : Res W :=
  if maxSteps == 0 then (s, false, some .zeroSteps)
  else actLoop net σ μ maxSteps (maxSteps.toNat + 2) 0 false s

def fwdLoop (net : Net W) (σ : Nat → W → Option W) (μ : Nat → List W → Option (List W)) (steps : Int) :
    Nat → Bool → St W → Res W
  | 0, res, s => (s, res, none)
  | k + 1, _, s =>
    match activateSteps net σ μ steps s with
    | (s', _, some e) => (s', false, some e)
    | (s', r, none) => fwdLoop net σ μ steps k r s'

/-- `Network.ForwardSteps` -/
def forwardSteps (net : Net W) (σ : Nat → W → Option W) (μ : Nat → List W → Option (List W)) (steps : Int)
    (s : St W) : Res W :=
  if steps == 0 then (s, false, some .zeroSteps) else fwdLoop net σ μ steps steps.toNat false s

/-- `Network.RecursiveSteps`: `MaxActivationDepthWithCap(0)` refuses modular networks -/
def recursiveSteps (net : Net W) (σ : Nat → W → Option W) (μ : Nat → List W → Option (List W)) (s : St W) : Res W :=
  if net.ctrl.length > 0 then (s, false, some .modular)
  else
    let r := maxDepth net (s.map (·.visited))
    forwardSteps net σ μ (r.1 : Int) (setVisited s r.2)

/-- `Network.Flush` (after repair 842abdd): `Flushback` + `FlushbackCheck` on every node of `allNodesMIMO`, control
    nodes included (the state vector IS `allNodesMIMO`).  The loop before the repair (over `allNodes` only) is frozen
    in Model/LegacySolverMod.lean. -/
def flush (_net : Net W) (s : St W) : Res W := flushAux s

/-- `Network.LoadSensors` -/
def loadSensors (net : Net W) (xs : List W) (s : St W) : St W × Option Err := Solver.loadSensors (flat net) xs s

def step (net : Net W) (σ : Nat → W → Option W) (μ : Nat → List W → Option (List W)) (s : St W) : Op W → Res W
  | .load xs => let r := loadSensors net xs s; (r.1, r.2.isNone, r.2)
  | .activate n => activateSteps net σ μ n s
  | .forward n => forwardSteps net σ μ n s
  | .recursive => recursiveSteps net σ μ s
  | .relax => (s, false, some .notImpl)
  | .flush => flush net s

/-- run a sequence; returns the final state and the observation (`res`, `err`, `ReadOutputs()`) after every call -/
def run (net : Net W) (σ : Nat → W → Option W) (μ : Nat → List W → Option (List W)) :
    List (Op W) → St W → St W × List (Obs W)
  | [], s => (s, [])
  | op :: ops, s =>
    let r := step net σ μ s op
    let t := run net σ μ ops r.1
    (t.1, obsOf net r :: t.2)

/-! ### counts -/

/-- `Network.NodeCount` -/
def nodeCount (net : Net W) : Nat :=
  if net.ctrl.length == 0 then net.nodes.length else net.nodes.length + net.ctrl.length

/-- `Network.LinkCount` -/
def linkCount (net : Net W) : Nat :=
  let base := net.nodes.foldl (fun acc nd => acc + nd.incoming.length) 0
  if net.ctrl.length != 0 then net.ctrl.foldl (fun acc cn => acc + cn.incoming.length + cn.outgoing.length) base
  else base

/-- `Network.Complexity` -/
def complexity (net : Net W) : Nat := nodeCount net + linkCount net

/-! ### the wiring under which control-node state is never read -/

/-- no neuron and no module reads from a control node, no output is a control node.  Every network made by
    `Genome.Genesis` satisfies it (links of control genes are attached to the control node only, their endpoints are
    ordinary nodes).  Under it the control-node state is dead (C13Mod.std_mod_dead_state); since repair 842abdd it is
    no longer needed for flush = fresh. -/
def ctrlUnread (net : Net W) : Bool :=
  let n := net.nodes.length
  (net.nodes.all fun nd => !nd.isNeuron || nd.incoming.all fun l => decide (l.src < n)) &&
  (net.ctrl.all fun cn => cn.incoming.all fun l => decide (l.src < n)) &&
  (net.outputs.all fun o => decide (o < n))

end
end GoNeat.SolverMod
