/-
  Model of the descriptive statistics of experiment results (property C19):

  * `experiment/floats.go` - `Floats.{Min,Max,Sum,Mean,MeanVariance,Variance,StdDev,Median,Q25,Q75}` together with
    the gonum routines they call: `floats.Min/Max/Sum`, `stat.Mean`, `stat.MeanVariance` (corrected two-pass
    algorithm of Chan/Golub/LeVeque), `stat.Quantile(p, stat.Empirical, sorted copy, nil)` including gonum's panic on
    unsorted input (modelled as an error);
  * the trial / experiment aggregates of `experiment/trial.go` and `experiment/experiment.go`, written as the loops
    the Go code runs over the recorded generations.

  NaN results ("empty series") are `none`.  Series are NaN-free (the property speaks of finite series): gonum's
  NaN-skipping in Min/Max and its `HasNaN` guard in Quantile are not modelled.
  Polymorphic in the scalar `W` (`Scalar`, plus `HasSqrt` for the standard deviation).  Core Lean only.
-/
import GoNeat.Model.Scalar

namespace GoNeat.Stats
open GoNeat Scalar

/-- `math.Sqrt` -/
class HasSqrt (W : Type) where
  sqrt : W → W

instance : HasSqrt Float := ⟨Float.sqrt⟩

variable {W : Type} [Scalar W]

/-! ### gonum/floats, gonum/stat -/

/-- `floats.Min` on a non-empty slice: first smallest value -/
def minLoop (cur : W) (xs : List W) : W := xs.foldl (fun m v => if lt v m then v else m) cur
/-- `floats.Max` on a non-empty slice: first greatest value -/
def maxLoop (cur : W) (xs : List W) : W := xs.foldl (fun m v => if lt m v then v else m) cur

/-- `floats.Sum` (one admissible summation order: left to right from 0) -/
def sum (xs : List W) : W := xs.foldl add zero

/-- `stat.Mean(x, nil)` = `floats.Sum(x) / float64(len(x))` -/
def gonumMean (xs : List W) : W := div (sum xs) (ofInt xs.length)

/-- the second pass of `meanUnnormalisedVarianceSumWeights`: `ss += d*d; compensation += d` with `d = v - mean` -/
def ssComp (m : W) (xs : List W) : W × W :=
  xs.foldl (fun (acc : W × W) v => let d := sub v m; (add acc.1 (mul d d), add acc.2 d)) (zero, zero)

/-- `stat.MeanVariance(x, nil)`: corrected two-pass algorithm, unbiased normalisation `n - 1` -/
def gonumMeanVariance (xs : List W) : W × W :=
  let n : W := ofInt xs.length
  let m := gonumMean xs
  let sc := ssComp m xs
  let unnormalised := sub sc.1 (div (mul sc.2 sc.2) n)
  (m, div unnormalised (sub n one))

/-- `sort.Float64sAreSorted` -/
def isSorted : List W → Bool
  | [] => true
  | [_] => true
  | x :: y :: rest => !lt y x && isSorted (y :: rest)

inductive QErr
  /-- `panic("x data are not sorted")` -/
  | unsorted
  /-- `panic("impossible")` at the end of `empiricalQuantile` -/
  | impossible
  deriving DecidableEq, Repr

/-- loop of `empiricalQuantile`: `cumsum++; if cumsum >= fidx { return x[i] }` -/
def empiricalLoop (fidx : W) : List W → W → Option W
  | [], _ => none
  | x :: xs, c => let c' := add c one; if ge c' fidx then some x else empiricalLoop fidx xs c'

/-- `stat.Quantile(p, stat.Empirical, x, nil)` for `0 ≤ p ≤ 1` and non-empty `x` (the callers guarantee both) -/
def gonumQuantile (p : W) (xs : List W) : Except QErr W :=
  if !isSorted xs then .error .unsorted
  else match empiricalLoop (mul p (ofInt xs.length)) xs zero with
    | some v => .ok v
    | none => .error .impossible

/-- insertion into an ascending list (after the elements that are not greater) -/
def insertAsc (x : W) : List W → List W
  | [] => [x]
  | y :: ys => if lt x y then x :: y :: ys else y :: insertAsc x ys

/-- `sort.Float64s` on a copy: modelled as insertion sort; the theorems only use "a sorted permutation" -/
def sortAsc (xs : List W) : List W := xs.foldl (fun acc x => insertAsc x acc) []

/-! ### `experiment.Floats` (`none` = NaN) -/

def fMin : List W → Option W
  | [] => none
  | x :: xs => some (minLoop x xs)
def fMax : List W → Option W
  | [] => none
  | x :: xs => some (maxLoop x xs)
def fSum (xs : List W) : W := sum xs
def fMean : List W → Option W
  | [] => none
  | xs => some (gonumMean xs)
def fMeanVariance : List W → Option (W × W)
  | [] => none
  | xs => some (gonumMeanVariance xs)
def fVariance (xs : List W) : Option W := (fMeanVariance xs).map (·.2)
def fStdDev [HasSqrt W] (xs : List W) : Option W := (fVariance xs).map HasSqrt.sqrt

/-- `Floats.{Median,Q25,Q75}` with the sorting routine as a parameter -/
def fQuantileWith (sort : List W → List W) (p : W) : List W → Except QErr (Option W)
  | [] => .ok none
  | xs => (gonumQuantile p (sort xs)).map some

def pMedian : W := ofDec 5 1
def pQ25 : W := ofDec 25 2
def pQ75 : W := ofDec 75 2
def fMedian (xs : List W) : Except QErr (Option W) := fQuantileWith sortAsc pMedian xs
def fQ25 (xs : List W) : Except QErr (Option W) := fQuantileWith sortAsc pQ25 xs
def fQ75 (xs : List W) : Except QErr (Option W) := fQuantileWith sortAsc pQ75 xs

/-! ### recorded generations, trials, experiments -/

/-- what the aggregates read of `Generation.Champion` -/
structure Champ (W : Type) where
  fitness : W
  /-- `Champion.Species.Age` (`none`: species pointer nil) -/
  speciesAge : Option Int
  /-- `organismComplexity(Champion)` (`none`: phenotype error, the code uses `math.MaxInt`) -/
  complexity : Option Int

structure Gen (W : Type) where
  solved : Bool
  champion : Option (Champ W)
  diversity : Int
  fitness : List W
  age : List W
  complexity : List W
  winnerNodes : Int
  winnerGenes : Int
  winnerEvals : Int

/-- a trial whose `WinnerGeneration` cache is not set -/
structure Trial (W : Type) where
  gens : List (Gen W)

/-- `Trial.Solved` -/
def trialSolved (t : Trial W) : Bool := t.gens.any (·.solved)

/-- `Trial.ChampionsFitness` -/
def championsFitness (t : Trial W) : List W :=
  t.gens.map fun e => match e.champion with
    | some c => c.fitness
    | none => zero
/-- `Trial.ChampionSpeciesAges` -/
def championSpeciesAges (t : Trial W) : List W :=
  t.gens.map fun e => match e.champion with
    | some c => (match c.speciesAge with
      | some a => ofInt a
      | none => zero)
    | none => zero
/-- `Trial.ChampionsComplexities` (entries stay 0 where the complexity is `math.MaxInt`) -/
def championsComplexities (t : Trial W) : List W :=
  t.gens.map fun e => match e.champion with
    | some c => (match c.complexity with
      | some k => ofInt k
      | none => zero)
    | none => zero
/-- `Trial.Diversity` -/
def diversity (t : Trial W) : List W := t.gens.map fun e => ofInt e.diversity
/-- `Trial.Average`: per generation the means of the per-species lists -/
def average (t : Trial W) : List (Option W) × List (Option W) × List (Option W) :=
  (t.gens.map (fMean ·.fitness), t.gens.map (fMean ·.age), t.gens.map (fMean ·.complexity))

/-- loop of `Trial.WinnerStatistics` over the generations (first solved one) -/
def winnerLoop : List (Gen W) → Int × Int × Int × Int
  | [] => (0, 0, 0, 0)
  | e :: es => if e.solved then (e.winnerNodes, e.winnerGenes, e.winnerEvals, e.diversity) else winnerLoop es
/-- `Trial.WinnerStatistics` with `WinnerGeneration == nil` -/
def winnerStatistics (t : Trial W) : Int × Int × Int × Int :=
  match t.gens with
  | [] => (-1, -1, -1, -1)
  | gs => winnerLoop gs

/-- `sort.Sort(sort.Reverse(orgs)); orgs[0]`: a champion of maximal fitness - modelled as the first one
    (which of several equally fit champions comes first after `sort.Sort` is unspecified) -/
def bestLoop (cur : Champ W) (cs : List (Champ W)) : Champ W :=
  cs.foldl (fun b c => if lt b.fitness c.fitness then c else b) cur
/-- `Trial.BestOrganism(onlySolvers)`; every considered generation has a champion (else the Go code panics) -/
def bestOrganism (onlySolvers : Bool) (t : Trial W) : Option (Champ W) :=
  match t.gens.filterMap (fun e => if !onlySolvers || e.solved then e.champion else none) with
  | [] => none
  | c :: cs => some (bestLoop c cs)

structure Experiment (W : Type) where
  trials : List (Trial W)

/-- `float64(math.MaxInt)` -/
def maxIntW : W := ofInt 9223372036854775807

/-- `Experiment.BestFitness` -/
def bestFitness (e : Experiment W) : List W :=
  e.trials.map fun t => match bestOrganism false t with
    | some c => c.fitness
    | none => zero
/-- `Experiment.BestSpeciesAge` -/
def bestSpeciesAge (e : Experiment W) : List W :=
  e.trials.map fun t => match bestOrganism false t with
    | some c => (match c.speciesAge with
      | some a => ofInt a
      | none => zero)
    | none => zero
/-- `Experiment.BestComplexity` -/
def bestComplexity (e : Experiment W) : List W :=
  e.trials.map fun t => match bestOrganism false t with
    | some c => (match c.complexity with
      | some k => ofInt k
      | none => maxIntW)
    | none => zero
/-- `Experiment.AvgDiversity` -/
def avgDiversity (e : Experiment W) : List (Option W) := e.trials.map fun t => fMean (diversity t)
/-- `Experiment.EpochsPerTrial` -/
def epochsPerTrial (e : Experiment W) : List W := e.trials.map fun t => ofInt t.gens.length
/-- `Experiment.TrialsSolved`: `count++` per solved trial -/
def trialsSolved (e : Experiment W) : Nat := e.trials.foldl (fun c t => if trialSolved t then c + 1 else c) 0
/-- `Experiment.Solved` -/
def experimentSolved (e : Experiment W) : Bool := e.trials.any trialSolved
/-- `Experiment.SuccessRate` -/
def successRate (e : Experiment W) : W :=
  if e.trials.length > 0 then div (ofInt (trialsSolved e)) (ofInt e.trials.length) else zero
/-- `Experiment.AvgGenerationsPerTrial`: `total += float64(len(t.Generations))`, then `/ float64(len(e.Trials))` -/
def avgGenerationsPerTrial (e : Experiment W) : W :=
  let total := e.trials.foldl (fun (acc : W) t => add acc (ofInt t.gens.length)) zero
  if e.trials.length > 0 then div total (ofInt e.trials.length) else zero

/-- accumulators of `Experiment.AvgWinnerStatistics`: totals of nodes, genes, evals, diversity and the count -/
def winnerTotals (e : Experiment W) : Int × Int × Int × Int × Nat :=
  e.trials.foldl (fun acc t =>
    if trialSolved t then
      let w := winnerStatistics t
      (acc.1 + w.1, acc.2.1 + w.2.1, acc.2.2.1 + w.2.2.1, acc.2.2.2.1 + w.2.2.2, acc.2.2.2.2 + 1)
    else acc) (0, 0, 0, 0, 0)
/-- `Experiment.AvgWinnerStatistics` -/
def avgWinnerStatistics (e : Experiment W) : W × W × W × W :=
  let tot := winnerTotals e
  let count := tot.2.2.2.2
  if count == 0 then (ofInt (-1), ofInt (-1), ofInt (-1), ofInt (-1))
  else (div (ofInt tot.1) (ofInt count), div (ofInt tot.2.1) (ofInt count),
        div (ofInt tot.2.2.1) (ofInt count), div (ofInt tot.2.2.2.1) (ofInt count))

end GoNeat.Stats
