/-
  Scalar abstraction (DESIGN §2.2).

  All model code is polymorphic in the scalar type `W`.  Two kinds of instance exist:
  * `Scalar Float` (below) – IEEE-754 binary64, used only by the executable driver for the
    bit-exact correspondence with the Go implementation;
  * exact ordered-field instances built in `GoNeat/Proofs` (Mathlib) for "Kind B" theorems.
  Kind-A theorems quantify over every `W` with `[Scalar W]` and assume no law at all.
  Core-only: no Mathlib import here.
-/
namespace GoNeat

class Scalar (W : Type) where
  zero : W
  one : W
  add : W → W → W
  sub : W → W → W
  mul : W → W → W
  div : W → W → W
  neg : W → W
  abs : W → W
  /-- Go's `<` on float64 -/
  lt : W → W → Bool
  /-- Go's `<=` on float64 -/
  le : W → W → Bool
  /-- Go's `==` on float64 -/
  eq : W → W → Bool
  ofInt : Int → W
  /-- decimal literal `m * 10^(-e)` as the Go compiler rounds it -/
  ofDec : Nat → Nat → W
  /-- `float64(x) / (1<<63)`: the value `rand.Float64` derives from the raw draw `x` -/
  ofUnit63 : Nat → W
  /-- `math.Floor` followed by the `int(...)` conversion -/
  floorInt : W → Int
  /-- `math.Floor` -/
  floor : W → W
  /-- `math.Mod(x, 1.0)` -/
  fmod1 : W → W
  /-- `float32(x) == 1` (redraw test inside `rand.Float32`) -/
  f32IsOne : W → Bool
  /-- `float32(x) >= 0.3` with a float32 constant (only use of `rand.Float32` in goNEAT) -/
  f32Ge03 : W → Bool
  /-- `math.MaxFloat64` -/
  maxVal : W

namespace Scalar
variable {W : Type} [Scalar W]
@[inline] def gt (a b : W) : Bool := lt b a
@[inline] def ge (a b : W) : Bool := le b a
/-- `(a + b) / 2.0` -/
@[inline] def avg (a b : W) : W := div (add a b) (ofInt 2)
end Scalar

instance : Scalar Float where
  zero := 0.0
  one := 1.0
  add := (· + ·)
  sub := (· - ·)
  mul := (· * ·)
  div := (· / ·)
  neg := fun x => -x
  abs := Float.abs
  lt := fun a b => a < b
  le := fun a b => a ≤ b
  eq := fun a b => a == b
  ofInt := Float.ofInt
  ofDec := fun m e => OfScientific.ofScientific m true e
  ofUnit63 := fun x => x.toUInt64.toFloat / 9223372036854775808.0
  floorInt := fun x => (Float.floor x).toInt64.toInt
  floor := Float.floor
  fmod1 := fun x =>
    -- math.Mod(x, 1) = x - trunc(x) (exact in binary64; sign of x); ±Inf/NaN ↦ NaN
    if x.isNaN || x.isInf then (0.0 / 0.0)
    else
      let t := if x < 0.0 then Float.ceil x else Float.floor x
      let r := x - t
      if r == 0.0 && x < 0.0 then -0.0 else r
  f32IsOne := fun x => x.toFloat32 == (1.0 : Float32)
  f32Ge03 := fun x => x.toFloat32 >= (0.3 : Float32)
  maxVal := Float.ofBits 0x7FEFFFFFFFFFFFFF

end GoNeat
