/-
  Frozen copy of the `Execute` model as the code was BEFORE `fix:` commit a04f603 (DESIGN §4, F7): the solved
  branch of the generation loop notified `TrialRunFinished` itself and the code after the loop notified it
  again.  Exists only to host the machine-checked counterexample in `Props/C20.lean`; nothing else may import it.
-/
import GoNeat.Model.Experiment

namespace GoNeat.Experiment.Legacy
open GoNeat.Experiment

def genLoop (s : Script) (t : Nat) : Nat → Nat → Nat → Bool → GenOut
  | 0, _, _, c => ⟨[], [], .ok c⟩
  | fuel + 1, g, pe, c =>
    if c then ⟨[], [], .error .cancelled⟩
    else
      let c1 := s.evalCancels t g
      match s.evalRes t g with
      | .fail => ⟨[.eval t g t pe], [], .error (.evalFailed t g)⟩
      | .solved =>
        -- pre-fix: `trialObserver.TrialRunFinished(&trial)` inside the loop, before `break`
        ⟨.eval t g t pe :: (obs s (.evaluated t g) ++ obs s (.finished t)), [⟨g, t, true⟩],
          .ok (c1 || (s.observer && s.evaluatedCancels t g) || (s.observer && s.finishedCancels t))⟩
      | .unsolved =>
        if c1 then ⟨[.eval t g t pe], [], .error .cancelled⟩
        else if s.epochFails t g then ⟨[.eval t g t pe], [], .error .epochFailed⟩
        else
          let r := genLoop s t fuel (g + 1) (pe + 1) (s.observer && s.evaluatedCancels t g)
          ⟨.eval t g t pe :: .epoch t g :: (obs s (.evaluated t g) ++ r.events), ⟨g, t, false⟩ :: r.gens, r.exit⟩

def trialLoop (s : Script) : Nat → Nat → Bool → RunOut
  | 0, _, _ => ⟨[], [], none⟩
  | fuel + 1, t, c =>
    if !s.spawnOk t then ⟨[], [], some .spawnFailed⟩
    else if !s.execOk then ⟨[], [], some .badExecutor⟩
    else
      let r := genLoop s t s.maxGen 0 0 (c || (s.observer && s.startedCancels t))
      match r.exit with
      | .error e => ⟨obs s (.started t) ++ r.events, [], some e⟩
      | .ok c2 =>
        let rest := trialLoop s fuel (t + 1) (c2 || (s.observer && s.finishedCancels t))
        ⟨obs s (.started t) ++ (r.events ++ (obs s (.finished t) ++ rest.events)), ⟨t, r.gens⟩ :: rest.trials, rest.err⟩

def execute (s : Script) : List Event × Result :=
  if !s.hasOptions then ([], ⟨[], some .noOptions⟩)
  else
    let r := trialLoop s s.runs 0 s.preCancelled
    (r.events, ⟨r.trials, r.err⟩)

end GoNeat.Experiment.Legacy
