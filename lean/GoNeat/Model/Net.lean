/-
  Phenotype network data model shared by the structural (C11, C14) and the dynamic (C12, C13) parts
  (neat/network/network.go, nnode.go, link.go).

  Heap abstraction: Go's `Network` holds `[]*NNode`, every node holds `Incoming`/`Outgoing []*Link`
  with pointers to the endpoint nodes.  The model names nodes by their position `idx` in `allNodes`
  (ids are kept as data); links refer to endpoints by index.  Control (MIMO) nodes live in a separate
  list and are addressed by `ctrlBase + k` so that one index space covers `allNodesMIMO`.
-/
import GoNeat.Model.Genome

namespace GoNeat

/-- a `network.Link` as seen from one endpoint list -/
structure NLink (W : Type) where
  /-- index of `InNode` in the network's node table -/
  src : Nat
  /-- index of `OutNode` -/
  dst : Nat
  w : W
  recur : Bool
  timeDelayed : Bool := false
deriving Repr

/-- static part of a `network.NNode` -/
structure NNodeS (W : Type) where
  id : Int
  kind : Kind
  act : Nat
  incoming : List (NLink W)
  outgoing : List (NLink W)
deriving Repr

def NNodeS.isSensor {W} (n : NNodeS W) : Bool := n.kind == Kind.input || n.kind == Kind.bias
def NNodeS.isNeuron {W} (n : NNodeS W) : Bool := n.kind == Kind.hidden || n.kind == Kind.output

/-- static structure of a `network.Network`: `nodes` = `allNodes` (slice order), `inputs`/`outputs` = index
    lists in slice order, `ctrl` = control nodes (their links use indices into `nodes`, their own index is
    `nodes.length + k`) -/
structure Net (W : Type) where
  id : Int
  nodes : List (NNodeS W)
  inputs : List Nat
  outputs : List Nat
  ctrl : List (NNodeS W) := []
deriving Repr

/-- dynamic per-node state of the standard solver (`NNode.Activation`, `ActivationsCount`, `ActivationSum`,
    `lastActivation`, `lastActivation2`, `isActive`, `visited`) -/
structure NState (W : Type) where
  activation : W
  count : Nat
  sum : W
  last : W
  last2 : W
  isActive : Bool
  visited : Bool
deriving Repr

def NState.fresh {W} [Scalar W] : NState W :=
  { activation := Scalar.zero, count := 0, sum := Scalar.zero, last := Scalar.zero, last2 := Scalar.zero,
    isActive := false, visited := false }

end GoNeat
