/-
  The PLAIN genome text format as token lines (neat/genetics/genome_writer.go:36-135, genome_reader.go:49-204),
  the organism wire form (organism.go:115-140) and population files (population_io.go).

  * A text is a list of lines, a line is the list of its tokens (the pieces between single spaces:
    `strings.SplitN(line, " ", 2)` / `strings.Split(line, " ")` / the space-separated verbs of `Fscanf`).
    Splitting Go's bytes at '\n' and ' ' is done by the driver.
  * Integers and booleans are rendered/parsed concretely (`fmtInt`/`parseInt`: decimal digits with optional sign,
    what `%d` and `strconv.ParseInt(_,10,_)` accept of what `%d` prints; `true`/`false`).
  * float64 values are ABSTRACT: the format is parametric in `Codec.fmtF`/`Codec.parseF`; every theorem carries the
    explicit hypothesis `parseF (fmtF x) = some x` (Go's `%g` prints the shortest decimal that parses back to the
    same float64).  The driver validates the hypothesis on every float token Go wrote, with an exact
    decimal→binary64 conversion in `Nat` arithmetic (Driver/IO.lean).
  * Activation types are written by NAME (`ActivationNameFromType`) and read by `ActivationTypeFromName`; both maps
    are parameters (`actName`, `actOfName`), instantiated from the regenerated registry table.
  * Heap abstraction as everywhere: pointers are ids.  Where the Go reader would build a gene whose `InNode`/
    `OutNode` pointer is nil (endpoint id not among the nodes read so far; Go reports NO error and the nil is
    dereferenced by the first user) the model stops with `Err.nilEndpoint`.
  * Core Lean only; structural recursion only.
-/
import GoNeat.Model.Genome

namespace GoNeat.PlainIO

abbrev Line := List String

inductive Err where
  /-- `line: [...] can not be split` : the line holds no space -/
  | split
  | badInt | badFloat | badBool
  /-- `strconv.ParseInt(_, 10, 32|8)`: value out of range -/
  | intRange
  /-- fewer items on the line than the reader scans -/
  | eof
  /-- `node line is too short` -/
  | shortNode
  | dupTrait (id : Int)
  | dupNode (id : Int)
  /-- `ActivationTypeFromName` / `NeuronTypeByName`: unknown name -/
  | unknownName (s : String)
  /-- writer: `ActivationNameFromType` knows no name for the node's activation type -/
  | unknownActType
  /-- (model only, see header) a gene endpoint id that is not a node read so far: Go builds a nil pointer -/
  | nilEndpoint
  /-- `Fscanln`: more items on the organism header line than scanned -/
  | expectedNewline
  /-- population file: a genome line or `genomeend` before any `genomestart` (Go: nil `*bytes.Buffer`, panics) -/
  | nilBuffer
  /-- `getLastNodeId` / `getNextGeneInnovNum` on a genome without nodes / genes -/
  | noNodes | noGenes
  /-- a failed type assertion / index out of range / `make` with a negative length: the Go code panics -/
  | panic
  /-- YAML module: `no MIMO input/output node with id … can be found` -/
  | noModuleNode (id : Int)
  /-- YAML: `control node ID … is not unique` -/
  | dupControlNode (id : Int)
deriving Repr, DecidableEq

structure Codec (F : Type) where
  fmtF : F → String
  parseF : String → Option F
  /-- `NodeActivators.ActivationNameFromType` -/
  actName : Nat → Option String
  /-- `NodeActivators.ActivationTypeFromName` -/
  actOfName : String → Option Nat

/-! ### integers and booleans -/

def fmtNat (n : Nat) : String := String.ofList (Nat.toDigits 10 n)

def fmtInt : Int → String
  | .ofNat n => fmtNat n
  | .negSucc n => String.ofList ('-' :: Nat.toDigits 10 (n + 1))

def parseNatChars (cs : List Char) : Option Nat :=
  if cs.isEmpty then none
  else if cs.all Char.isDigit then some (Nat.ofDigitChars 10 cs 0)
  else none

def parseInt (s : String) : Option Int :=
  match s.toList with
  | '-' :: cs => (parseNatChars cs).map fun n => -(n : Int)
  | '+' :: cs => (parseNatChars cs).map fun n => (n : Int)
  | cs => (parseNatChars cs).map fun n => (n : Int)

/-- `strconv.ParseInt(s, 10, bits)` -/
def parseIntBits (bits : Nat) (s : String) : Except Err Int :=
  match parseInt s with
  | none => .error .badInt
  | some v => if -(2 ^ (bits - 1) : Int) ≤ v ∧ v < (2 ^ (bits - 1) : Int) then .ok v else .error .intRange

def fmtBool (b : Bool) : String := if b then "true" else "false"

def parseBool (s : String) : Option Bool :=
  if s = "true" then some true else if s = "false" then some false else none

/-! ### writer -/

variable {F : Type}

/-- trait id written for a trait pointer: `0` for nil -/
def traitIdOf : Option Int → Int
  | none => 0
  | some id => id

/-- `writeTrait` behind `"trait "`.  With no parameter at all Go leaves the trailing space of `"%d "`, i.e. one
    empty last token. -/
def traitLine (C : Codec F) (t : Trait F) : Line :=
  "trait" :: fmtInt t.id :: (if t.params.isEmpty then [""] else t.params.map C.fmtF)

/-- `NNode.NodeType()`: 1 = sensor (input, bias), 0 = neuron -/
def nodeTypeOf (n : Node) : Nat := if n.isSensor then 1 else 0

/-- `writeNetworkNode` behind `"node "` (an unknown activation type makes `WriteGenome` fail: see `writable`) -/
def nodeLine (C : Codec F) (n : Node) : Line :=
  ["node", fmtInt n.id, fmtInt (traitIdOf n.trait), fmtNat (nodeTypeOf n), fmtNat n.kind, (C.actName n.act).getD ""]

/-- `writeConnectionGene` behind `"gene "`: `"%d %d %d %g %t %d %g %t"` -/
def geneLine (C : Codec F) (g : Gene F) : Line :=
  ["gene", fmtInt (traitIdOf g.trait), fmtInt g.src, fmtInt g.dst, C.fmtF g.w, fmtBool g.recur, fmtInt g.inn,
   C.fmtF g.mnum, fmtBool g.en]

def startLine (id : Int) : Line := ["genomestart", fmtInt id]
def endLine (id : Int) : Line := ["genomeend", fmtInt id]

/-- the lines `plainGenomeWriter.WriteGenome` prints (control genes are not written in this format) -/
def render (C : Codec F) (g : Genome F) : List Line :=
  startLine g.id :: (g.traits.map (traitLine C) ++ (g.nodes.map (nodeLine C) ++ (g.genes.map (geneLine C) ++ [endLine g.id])))

/-- `WriteGenome` returns no error: every node's activation type has a registered name -/
def writable (C : Codec F) (g : Genome F) : Bool := g.nodes.all fun n => (C.actName n.act).isSome

def write (C : Codec F) (g : Genome F) : Except Err (List Line) :=
  if writable C g then .ok (render C g) else .error .unknownActType

/-! ### reader -/

/-- `n` times `Fscanf(r, "%g ", &x)` -/
def readFloats (C : Codec F) : Nat → Line → Except Err (List F)
  | 0, _ => .ok []
  | _ + 1, [] => .error .eof
  | n + 1, t :: ts =>
    match C.parseF t with
    | none => .error .badFloat
    | some x =>
      match readFloats C n ts with
      | .error e => .error e
      | .ok xs => .ok (x :: xs)

/-- `neat.NumTraitParams` -/
def numTraitParams : Nat := 8

/-- `readPlainTrait` on the tokens behind `"trait"` -/
def readTrait (C : Codec F) (rest : Line) : Except Err (Trait F) :=
  match rest with
  | [] => .error .eof
  | idTok :: ps =>
    match parseInt idTok with
    | none => .error .badInt
    | some id =>
      match readFloats C numTraitParams ps with
      | .error e => .error e
      | .ok params => .ok { id := id, params := params }

/-- the trait pointer the reader stores for a written trait id: `TraitWithId(id, traits)` -/
def traitRef (traits : List (Trait F)) (id : Int) : Option Int := (traitWithId id traits).map (·.id)

/-- `NodeNeuronType(int8 value)`: the conversion to `byte` wraps negative values -/
def kindOfInt (v : Int) : Nat := if v < 0 then (v + 256).toNat else v.toNat

/-- activation type of `network.NewNetworkNode()`: `SigmoidSteepenedActivation` -/
def defaultAct : Nat := 4

/-- `readPlainNetworkNode` on the tokens behind `"node"`: id, trait id, (node type: ignored), neuron type and,
    only when the line has exactly five fields, the activation name -/
def readNode (C : Codec F) (traits : List (Trait F)) (rest : Line) : Except Err Node :=
  match rest with
  | idTok :: trTok :: _ :: kindTok :: tl =>
    match parseIntBits 32 idTok with
    | .error e => .error e
    | .ok id =>
      match parseIntBits 32 trTok with
      | .error e => .error e
      | .ok tid =>
        match parseIntBits 8 kindTok with
        | .error e => .error e
        | .ok k =>
          match tl with
          | [nm] =>
            match C.actOfName nm with
            | none => .error (.unknownName nm)
            | some a => .ok { id := id, kind := kindOfInt k, act := a, trait := traitRef traits tid }
          | _ => .ok { id := id, kind := kindOfInt k, act := defaultAct, trait := traitRef traits tid }
  | _ => .error .shortNode

/-- `readPlainConnectionGene` on the tokens behind `"gene"`: `"%d %d %d %g %t %d %g %t "` -/
def readGene (C : Codec F) (traits : List (Trait F)) (nodes : List Node) (rest : Line) : Except Err (Gene F) :=
  match rest with
  | trTok :: inTok :: outTok :: wTok :: recTok :: innTok :: mutTok :: enTok :: _ =>
    match parseInt trTok, parseInt inTok, parseInt outTok with
    | some tid, some src, some dst =>
      match C.parseF wTok with
      | none => .error .badFloat
      | some w =>
        match parseBool recTok with
        | none => .error .badBool
        | some recur =>
          match parseInt innTok with
          | none => .error .badInt
          | some inn =>
            match C.parseF mutTok with
            | none => .error .badFloat
            | some mnum =>
              match parseBool enTok with
              | none => .error .badBool
              | some en =>
                if nodes.any (·.id == src) && nodes.any (·.id == dst) then
                  .ok { inn := inn, src := src, dst := dst, recur := recur, w := w, mnum := mnum, en := en,
                        trait := traitRef traits tid }
                else .error .nilEndpoint
    | _, _, _ => .error .badInt
  | _ => .error .eof

/-- the genome under construction in `plainGenomeReader.Read` -/
structure St (F : Type) where
  id : Int := 0
  traits : List (Trait F) := []
  nodes : List Node := []
  genes : List (Gene F) := []

def St.toGenome (s : St F) : Genome F := { id := s.id, traits := s.traits, nodes := s.nodes, genes := s.genes, modules := [] }

/-- one iteration of the scanner loop of `Read` on a line with keyword `kw` and remaining tokens `rest` -/
def stepKw (C : Codec F) (st : St F) (kw : String) (rest : Line) : Except Err (St F) :=
    if kw = "trait" then
      match readTrait C rest with
      | .error e => .error e
      | .ok t =>
        if (traitWithId t.id st.traits).isSome then .error (.dupTrait t.id)
        else .ok { st with traits := st.traits ++ [t] }
    else if kw = "node" then
      match readNode C st.traits rest with
      | .error e => .error e
      | .ok n =>
        if st.nodes.any (·.id == n.id) then .error (.dupNode n.id)
        else .ok { st with nodes := st.nodes ++ [n] }
    else if kw = "gene" then
      match readGene C st.traits st.nodes rest with
      | .error e => .error e
      | .ok g => .ok { st with genes := st.genes ++ [g] }
    else if kw = "genomeend" then
      match rest with
      | [] => .error .eof
      | idTok :: _ =>
        match parseInt idTok with
        | none => .error .badInt
        | some id => .ok { st with id := id }
    else .ok st   -- "genomestart", "/*" and every other keyword: the line is skipped

/-- one iteration of the scanner loop of `Read`; a line without a space cannot be split: error -/
def step (C : Codec F) (st : St F) (ln : Line) : Except Err (St F) :=
  match ln with
  | kw :: t :: ts => stepKw C st kw (t :: ts)
  | _ => .error .split

def parseLines (C : Codec F) : St F → List Line → Except Err (St F)
  | st, [] => .ok st
  | st, l :: ls =>
    match step C st l with
    | .error e => .error e
    | .ok st' => parseLines C st' ls

/-- `plainGenomeReader.Read`: reads to the END of the input (it does not stop at `genomeend`) -/
def parse (C : Codec F) (ls : List Line) : Except Err (Genome F) :=
  match parseLines C {} ls with
  | .error e => .error e
  | .ok st => .ok st.toGenome

/-- `ReadGenome(r, id)`: the id argument overrides the one read -/
def readGenome (C : Codec F) (ls : List Line) (id : Int) : Except Err (Genome F) :=
  match parse C ls with
  | .error e => .error e
  | .ok g => .ok { g with id := id }

/-! ### organism wire form (`Organism.MarshalBinary` / `UnmarshalBinary`) -/

/-- the fields of an organism that cross the wire -/
structure OrgBin (F : Type) where
  fitness : F
  generation : Int
  highestFitness : F
  champChild : Bool
  genotype : Genome F

/-- `fmt.Fprintln(&buf, o.Fitness, o.Generation, o.highestFitness, o.isPopulationChampionChild, o.Genotype.Id)` -/
def orgHeader (C : Codec F) (o : OrgBin F) : Line :=
  [C.fmtF o.fitness, fmtInt o.generation, C.fmtF o.highestFitness, fmtBool o.champChild, fmtInt o.genotype.id]

def marshal (C : Codec F) (o : OrgBin F) : List Line := orgHeader C o :: render C o.genotype

/-- `Fscanln` of the five header items, then `ReadGenome(rest, genotypeId)` -/
def unmarshal (C : Codec F) (ls : List Line) : Except Err (OrgBin F) :=
  match ls with
  | [] => .error .eof
  | hd :: rest =>
    match hd with
    | [fTok, gTok, hTok, cTok, idTok] =>
      match C.parseF fTok with
      | none => .error .badFloat
      | some fit =>
        match parseInt gTok with
        | none => .error .badInt
        | some gen =>
          match C.parseF hTok with
          | none => .error .badFloat
          | some hf =>
            match parseBool cTok with
            | none => .error .badBool
            | some cc =>
              match parseInt idTok with
              | none => .error .badInt
              | some gid =>
                match readGenome C rest gid with
                | .error e => .error e
                | .ok g => .ok { fitness := fit, generation := gen, highestFitness := hf, champChild := cc, genotype := g }
    | _ :: _ :: _ :: _ :: _ :: _ :: _ => .error .expectedNewline
    | _ => .error .eof

/-! ### population files (`Population.Write`, `Species.Write`, `ReadPopulation`) -/

/-- a comment line (`/* Species #… */`, `/* Organism #id Fitness: … */`, the winner marker): first token `/*` -/
def commentLine (toks : List String) : Line := "/*" :: toks

/-- `Population.Write`: the genomes one after the other -/
def renderPop (C : Codec F) : List (Genome F) → List Line
  | [] => []
  | g :: gs => render C g ++ renderPop C gs

/-- `Species.Write` per organism: its header comment (plus possibly a winner marker), then the genome -/
def renderPopCommented (C : Codec F) : List (List (List String) × Genome F) → List Line
  | [] => []
  | (cs, g) :: r => cs.map commentLine ++ (render C g ++ renderPopCommented C r)

/-- state of the `ReadPopulation` loop -/
structure PSt (F : Type) where
  /-- `outBuff` (nil = none): the lines collected for the current genome -/
  buf : Option (List Line) := none
  idCheck : Int := 0
  out : List (Genome F) := []

/-- what `ReadPopulation` does with a finished genome buffer -/
def finishGenome (C : Codec F) (st : PSt F) (b : List Line) : Except Err (PSt F) :=
  match readGenome C (b ++ [endLine st.idCheck]) st.idCheck with
  | .error e => .error e
  | .ok g =>
    if g.nodes.isEmpty then .error .noNodes
    else if g.genes.isEmpty then .error .noGenes
    else .ok { buf := none, idCheck := -1, out := st.out ++ [g] }

/-- one iteration of the scanner loop of `ReadPopulation`, WITH the proposed repair (notes/proposed_fix_C15.patch):
    the buffer starts with the complete line `genomestart <id>` -/
def popStepKw (C : Codec F) (st : PSt F) (kw : String) (rest : Line) : Except Err (PSt F) :=
    if kw = "genomestart" then
      match rest with
      | [t] =>
        match parseInt t with
        | none => .error .badInt
        | some id => .ok { st with buf := some [kw :: rest], idCheck := id }
      | _ => .error .badInt
    else if kw = "genomeend" then
      match st.buf with
      | none => .error .nilBuffer
      | some b => finishGenome C st b
    else if kw = "/*" then .ok st
    else
      match st.buf with
      | none => .error .nilBuffer
      | some b => .ok { st with buf := some (b ++ [kw :: rest]) }

def popStep (C : Codec F) (st : PSt F) (ln : Line) : Except Err (PSt F) :=
  match ln with
  | kw :: t :: ts => popStepKw C st kw (t :: ts)
  | _ => .error .split

def popLines (C : Codec F) : PSt F → List Line → Except Err (PSt F)
  | st, [] => .ok st
  | st, l :: ls =>
    match popStep C st l with
    | .error e => .error e
    | .ok st' => popLines C st' ls

/-- the genomes of the organisms `ReadPopulation` creates, in file order (speciation afterwards is C08's) -/
def parsePop (C : Codec F) (ls : List Line) : Except Err (List (Genome F)) :=
  match popLines C {} ls with
  | .error e => .error e
  | .ok st => .ok st.out

/-! ### `ReadPopulation` as shipped (pinned commit): the buffer starts with `"genomestart <id>"` WITHOUT a newline,
    so the first line collected afterwards is glued to it; the genome reader then sees one line whose keyword is
    `genomestart` and skips it: the first trait (or first node) of every genome is lost. -/
namespace Legacy

/-- `buf = some (glue, lines)`: `glue` holds the unterminated `genomestart` text while nothing was appended yet -/
structure PSt (F : Type) where
  buf : Option (Option Line × List Line) := none
  idCheck : Int := 0
  out : List (Genome F) := []

/-- appending `line ++ "\n"` to a buffer that still ends with the unterminated `genomestart <id>` -/
def glueLine (g : Line) (ln : Line) : Line :=
  match g.getLast?, ln with
  | some lastTok, kw :: rest => g.dropLast ++ ((lastTok ++ kw) :: rest)
  | _, _ => g ++ ln

def appendLine (b : Option Line × List Line) (ln : Line) : Option Line × List Line :=
  match b.1 with
  | some g => (none, b.2 ++ [glueLine g ln])
  | none => (none, b.2 ++ [ln])

def popStepKw (C : Codec F) (st : PSt F) (kw : String) (rest : Line) : Except Err (PSt F) :=
    if kw = "genomestart" then
      match rest with
      | [t] =>
        match parseInt t with
        | none => .error .badInt
        | some id => .ok { st with buf := some (some (kw :: rest), []), idCheck := id }
      | _ => .error .badInt
    else if kw = "genomeend" then
      match st.buf with
      | none => .error .nilBuffer
      | some b =>
        let b' := appendLine b (endLine st.idCheck)
        match readGenome C b'.2 st.idCheck with
        | .error e => .error e
        | .ok g =>
          if g.nodes.isEmpty then .error .noNodes
          else if g.genes.isEmpty then .error .noGenes
          else .ok { buf := none, idCheck := -1, out := st.out ++ [g] }
    else if kw = "/*" then .ok st
    else
      match st.buf with
      | none => .error .nilBuffer
      | some b => .ok { st with buf := some (appendLine b (kw :: rest)) }

def popStep (C : Codec F) (st : PSt F) (ln : Line) : Except Err (PSt F) :=
  match ln with
  | kw :: t :: ts => popStepKw C st kw (t :: ts)
  | _ => .error .split

def popLines (C : Codec F) : PSt F → List Line → Except Err (PSt F)
  | st, [] => .ok st
  | st, l :: ls =>
    match popStep C st l with
    | .error e => .error e
    | .ok st' => popLines C st' ls

def parsePop (C : Codec F) (ls : List Line) : Except Err (List (Genome F)) :=
  match popLines C {} ls with
  | .error e => .error e
  | .ok st => .ok st.out

end Legacy

/-! ### the decidable part of what the reader needs (`WFio`) -/

def fits (bits : Nat) (v : Int) : Bool := decide (-(2 ^ (bits - 1) : Int) ≤ v) && decide (v < (2 ^ (bits - 1) : Int))

/-- a trait pointer (nil or an id) is found again by `TraitWithId`: nil, or a non-zero id of a listed trait -/
def refOK (traits : List (Trait F)) : Option Int → Bool
  | none => true
  | some id => id != 0 && traits.any (·.id == id)

def nodeOK (C : Codec F) (traits : List (Trait F)) (n : Node) : Bool :=
  fits 32 n.id && fits 32 (traitIdOf n.trait) && decide (n.kind < 128) && refOK traits n.trait &&
    (match C.actName n.act with
     | none => false
     | some nm => C.actOfName nm == some n.act)

def geneOK (traits : List (Trait F)) (nodes : List Node) (g : Gene F) : Bool :=
  refOK traits g.trait && nodes.any (·.id == g.src) && nodes.any (·.id == g.dst)

/-- What the plain reader needs to give the written genome back: exactly eight parameters per trait, trait ids
    non-zero and pairwise different, node ids pairwise different and within int32, neuron type within int8,
    every trait pointer nil or one of the genome's traits, every gene endpoint one of the genome's nodes, every
    activation type registered under a name that maps back to it, and no control genes (the plain format has no
    syntax for modules). -/
def WFio (C : Codec F) (g : Genome F) : Bool :=
  g.traits.all (fun t => t.params.length == numTraitParams && t.id != 0) &&
  decide (g.traits.map (·.id)).Nodup &&
  decide (g.nodes.map (·.id)).Nodup &&
  g.nodes.all (nodeOK C g.traits) &&
  g.genes.all (geneOK g.traits g.nodes) &&
  g.modules.isEmpty

end GoNeat.PlainIO
