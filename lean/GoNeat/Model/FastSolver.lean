/-
  Fast network solver (neat/network/fast_network.go) and the translation `Network.FastNetworkSolver()`
  (neat/network/network.go).

  * `FastNet` = immutable part of `FastModularNetworkSolver` (counts, activation types, bias list, connections);
    `reverseAdjacentList` / `adjacentMatrix` are the derived functions `revAdj` / `matW` (the matrix keeps the
    weight of the LAST connection of a (source,target) pair; the reverse list keeps every occurrence).
  * `FState` = mutable arrays (`neuronSignals`, `neuronSignalsBeingProcessed`, `activated`, `inActivation`,
    `lastActivation`).
  * modules (`FastControlNode`) are NOT in this file: it is the model for `ctrl = []` / `modules = []` (the module
    loop of `forwardStep` and the module guard of `RecursiveSteps` do nothing); the modular model is
    Model/FastSolverMod.lean, which coincides with this one for `modules = []` (Proofs/FastModFlush.lean, `*_refine`).
  * On an activation error Go stores `-Inf` (first return value of `ActivateByType`) into the array cell it was
    assigning; the model does the same with `negInf`.
-/
import GoNeat.Model.Solver

namespace GoNeat.Fast
open GoNeat.Solver (Err)

variable {W : Type}

structure FLink (W : Type) where
  src : Nat
  dst : Nat
  w : W
deriving Repr

structure FastNet (W : Type) where
  nBias : Nat
  nInput : Nat
  nOutput : Nat
  nTotal : Nat
  acts : List Nat
  biasList : List W
  conns : List (FLink W)
deriving Repr

def FastNet.nSensor (fn : FastNet W) : Nat := fn.nBias + fn.nInput

structure FState (W : Type) where
  signals : List W
  processing : List W
  activated : List Bool
  inAct : List Bool
  lastAct : List W
deriving Repr

section
variable [Scalar W]

def negInf : W := Scalar.neg (Scalar.div Scalar.one Scalar.zero)

def getW (l : List W) (i : Nat) : W := l.getD i Scalar.zero
def getB (l : List Bool) (i : Nat) : Bool := l.getD i false

/-- `reverseAdjacentList[i]` -/
def revAdj (fn : FastNet W) (i : Nat) : List Nat := (fn.conns.filter fun c => c.dst == i).map (·.src)

def matWAux (s t : Nat) : List (FLink W) → W → W
  | [], acc => acc
  | c :: cs, acc => matWAux s t cs (if c.src == s && c.dst == t then c.w else acc)

/-- `adjacentMatrix[s][t]`: weight of the last connection s→t, 0 if none -/
def matW (fn : FastNet W) (s t : Nat) : W := matWAux s t fn.conns Scalar.zero

/-- `NewFastModularNetworkSolver`: bias signals 1, everything else 0 -/
def init (fn : FastNet W) : FState W :=
  { signals := (List.range fn.nTotal).map fun i => if i < fn.nBias then Scalar.one else Scalar.zero
    processing := List.replicate fn.nTotal Scalar.zero
    activated := List.replicate fn.nTotal false
    inAct := List.replicate fn.nTotal false
    lastAct := List.replicate fn.nTotal Scalar.zero }

abbrev Res (W : Type) := FState W × Bool × Option Err

/-! ### forwardStep -/

/-- first loop: `processing[target] += signals[source] * weight` per connection -/
def connLoop (signals : List W) : List (FLink W) → List W → List W
  | [], p => p
  | c :: cs, p => connLoop signals cs (p.set c.dst (Scalar.add (getW p c.dst) (Scalar.mul (getW signals c.src) c.w)))

/-- second loop over `i = sensorNeuronCount .. totalNeuronCount-1` (given as a list of indices) -/
def actLoop (fn : FastNet W) (σ : Nat → W → Option W) : List Nat → List W → List W × Option Err
  | [], p => (p, none)
  | i :: is, p =>
    let signal := getW p i
    let signal := if fn.nBias > 0 then Scalar.add signal (getW fn.biasList i) else signal
    match σ (fn.acts.getD i 0) signal with
    | none => (p.set i negInf, some .unknownAct)
    | some v => actLoop fn σ is (p.set i v)

/-- third loop: move the processed signals into storage, computing `isRelaxed` when `delta > 0` -/
def moveLoop (delta : W) (check : Bool) : List Nat → List W → List W → Bool → List W × List W × Bool
  | [], sig, p, r => (sig, p, r)
  | i :: is, sig, p, r =>
    let r' := if check then r && !(Scalar.lt delta (Scalar.abs (Scalar.sub (getW sig i) (getW p i)))) else r
    moveLoop delta check is (sig.set i (getW p i)) (p.set i Scalar.zero) r'

def neuronIdx (fn : FastNet W) : List Nat := (List.range (fn.nTotal - fn.nSensor)).map (· + fn.nSensor)

/-- `FastModularNetworkSolver.forwardStep` -/
def forwardStep (fn : FastNet W) (σ : Nat → W → Option W) (delta : W) (s : FState W) : Res W :=
  let p1 := connLoop s.signals fn.conns s.processing
  match actLoop fn σ (neuronIdx fn) p1 with
  | (p2, some e) => ({ s with processing := p2 }, false, some e)
  | (p2, none) =>
    let m := moveLoop delta (!(Scalar.le delta Scalar.zero)) (neuronIdx fn) s.signals p2 true
    ({ s with signals := m.1, processing := m.2.1 }, m.2.2, none)

def fwdLoop (fn : FastNet W) (σ : Nat → W → Option W) : Nat → Bool → FState W → Res W
  | 0, res, s => (s, res, none)
  | k + 1, _, s =>
    match forwardStep fn σ Scalar.zero s with
    | (s', _, some e) => (s', false, some e)
    | (s', r, none) => fwdLoop fn σ k r s'

/-- `ForwardSteps` -/
def forwardSteps (fn : FastNet W) (σ : Nat → W → Option W) (steps : Int) (s : FState W) : Res W :=
  fwdLoop fn σ steps.toNat false s

def relaxLoop (fn : FastNet W) (σ : Nat → W → Option W) (delta : W) : Nat → Bool → FState W → Res W
  | 0, res, s => (s, res, none)
  | k + 1, _, s =>
    match forwardStep fn σ delta s with
    | (s', _, some e) => (s', false, some e)
    | (s', true, none) => (s', true, none)
    | (s', false, none) => relaxLoop fn σ delta k false s'

/-- `Relax` -/
def relax (fn : FastNet W) (σ : Nat → W → Option W) (maxSteps : Int) (delta : W) (s : FState W) : Res W :=
  relaxLoop fn σ delta maxSteps.toNat false s

/-! ### RecursiveSteps -/

/-- `neuronSignalsBeingProcessed[cur] += x` -/
def addProc (s : FState W) (cur : Nat) (x : W) : FState W :=
  { s with processing := s.processing.set cur (Scalar.add (getW s.processing cur) x) }

/-- the `for` over `reverseAdjacentList[cur]`; `rec` = `recursiveActivateNode` with less fuel -/
def recAdj (fn : FastNet W) (rc : Nat → FState W → Res W) (cur : Nat) : List Nat → FState W → FState W × Option Err
  | [], s => (s, none)
  | adj :: rest, s =>
    if getB s.inAct adj then
      recAdj fn rc cur rest (addProc s cur (Scalar.mul (getW s.lastAct adj) (matW fn adj cur)))
    else
      let r : FState W × Option Err :=
        if !getB s.activated adj then
          match rc adj s with
          | (s', _, some e) => (s', some e)
          | (s', false, none) => (s', some .recFailed)
          | (s', true, none) => (s', none)
        else (s, none)
      match r with
      | (s', some e) => (s', some e)
      | (s', none) =>
        recAdj fn rc cur rest (addProc s' cur (Scalar.mul (getW s'.signals adj) (matW fn adj cur)))

/-- entry of `recursiveActivateNode` for a node not yet activated: mark it as being calculated, reset its pre-signal -/
def recStart (s : FState W) (cur : Nat) : FState W :=
  { s with inAct := s.inAct.set cur true, processing := s.processing.set cur Scalar.zero }

/-- tail of `recursiveActivateNode`: add the bias, mark as completed, run the activation function -/
def recFinish (fn : FastNet W) (σ : Nat → W → Option W) (cur : Nat) (s2 : FState W) : Res W :=
  let sig := getW s2.processing cur
  let sig := if fn.nBias > 0 then Scalar.add sig (getW fn.biasList cur) else sig
  let s3 := { s2 with processing := s2.processing.set cur sig,
                      activated := s2.activated.set cur true, inAct := s2.inAct.set cur false }
  match σ (fn.acts.getD cur 0) sig with
  | none => ({ s3 with signals := s3.signals.set cur negInf }, false, some .unknownAct)
  | some v => ({ s3 with signals := s3.signals.set cur v }, true, none)

/-- `recursiveActivateNode`; recursion depth ≤ number of neurons, `fuel = nTotal+1` suffices -/
def recNode (fn : FastNet W) (σ : Nat → W → Option W) : Nat → Nat → FState W → Res W
  | 0, _, s => (s, false, some .fuel)
  | fuel + 1, cur, s =>
    if getB s.activated cur then ({ s with inAct := s.inAct.set cur false }, true, none)
    else
      match recAdj fn (recNode fn σ fuel) cur (revAdj fn cur) (recStart s cur) with
      | (s2, some e) => (s2, false, some e)
      | (s2, none) => recFinish fn σ cur s2

/-- the initialisation loop of `RecursiveSteps` -/
def recInit (fn : FastNet W) (s : FState W) : FState W :=
  { s with
    activated := (List.range fn.nTotal).map fun i => decide (i < fn.nSensor)
    inAct := List.replicate fn.nTotal false
    lastAct := (List.range fn.nTotal).map fun i => if i ≥ fn.nSensor then getW s.signals i else getW s.lastAct i }

def recOutputs (fn : FastNet W) (σ : Nat → W → Option W) : List Nat → Bool → FState W → Res W
  | [], res, s => (s, res, none)
  | o :: os, _, s =>
    match recNode fn σ (fn.nTotal + 1) o s with
    | (s', _, some e) => (s', false, some e)
    | (s', false, none) => (s', false, some .recFailed)
    | (s', true, none) => recOutputs fn σ os true s'

/-- `RecursiveSteps` (no modules) -/
def recursiveSteps (fn : FastNet W) (σ : Nat → W → Option W) (s : FState W) : Res W :=
  recOutputs fn σ ((List.range fn.nOutput).map (· + fn.nSensor)) false (recInit fn s)

/-! ### Flush, LoadSensors, ReadOutputs -/

def zeroFrom (k : Nat) (l : List W) : List W := (List.range l.length).map fun i => if i ≥ k then Scalar.zero else getW l i

/-- `Flush` (after repair 1a387d5): zero `neuronSignals` from `biasNeuronCount` on (the bias signals are kept) and
    ALL of `neuronSignalsBeingProcessed`; nothing else.  The loop before the repair (both arrays from
    `biasNeuronCount` on) is frozen in Model/LegacySolverMod.lean. -/
def flush (fn : FastNet W) (s : FState W) : Res W :=
  ({ s with signals := zeroFrom fn.nBias s.signals, processing := zeroFrom 0 s.processing }, true, none)

def loadLoop (base : Nat) : List W → Nat → List W → List W
  | [], _, sig => sig
  | x :: xs, i, sig => loadLoop base xs (i + 1) (sig.set (base + i) x)

/-- `LoadSensors` -/
def loadSensors (fn : FastNet W) (xs : List W) (s : FState W) : FState W × Option Err :=
  if xs.length == fn.nInput then ({ s with signals := loadLoop fn.nBias xs 0 s.signals }, none)
  else (s, some .sensorsSize)

/-- `ReadOutputs` -/
def readOutputs (fn : FastNet W) (s : FState W) : List W :=
  (List.range fn.nOutput).map fun i => getW s.signals (fn.nSensor + i)

/-! ### operation sequences -/

inductive Op (W : Type) where
  | load (xs : List W)
  | forward (steps : Int)
  | recursive
  | relax (maxSteps : Int) (delta : W)
  | flush
deriving Repr

def step (fn : FastNet W) (σ : Nat → W → Option W) (s : FState W) : Op W → Res W
  | .load xs => let r := loadSensors fn xs s; (r.1, r.2.isNone, r.2)
  | .forward n => forwardSteps fn σ n s
  | .recursive => recursiveSteps fn σ s
  | .relax n d => relax fn σ n d s
  | .flush => flush fn s

def obsOf (fn : FastNet W) (r : Res W) : Solver.Obs W := { res := r.2.1, err := r.2.2, outs := readOutputs fn r.1 }

def run (fn : FastNet W) (σ : Nat → W → Option W) : List (Op W) → FState W → FState W × List (Solver.Obs W)
  | [], s => (s, [])
  | op :: ops, s =>
    let r := step fn σ s op
    let t := run fn σ ops r.1
    (t.1, obsOf fn r :: t.2)

/-! ### translation `Network.FastNetworkSolver()` (no control nodes) -/

/-- `neuronLookup[id]`: the map is filled in list order, later entries overwrite earlier ones -/
def lookupId : List (Int × Nat) → Int → Option Nat
  | [], _ => none
  | (k, v) :: rest, id =>
    match lookupId rest id with
    | some r => some r
    | none => if k == id then some v else none

/-- `processIncomingConnections` over a node list (given as indices into `nodes`) -/
def procIncoming (net : Net W) (lk : List (Int × Nat)) :
    List Nat → List W → List (FLink W) → Except Err (List W × List (FLink W))
  | [], biases, conns => .ok (biases, conns)
  | i :: rest, biases, conns =>
    match net.nodes[i]? with
    | none => .error .panic
    | some nd =>
      match lookupId lk nd.id with
      | none => .error .lookup
      | some t =>
        let rec links : List (NLink W) → List W → List (FLink W) → Except Err (List W × List (FLink W))
          | [], b, c => .ok (b, c)
          | l :: ls, b, c =>
            match net.nodes[l.src]? with
            | none => .error .panic
            | some sn =>
              match lookupId lk sn.id with
              | none => .error .lookup
              | some sIdx =>
                if sn.kind == Kind.bias then links ls (b.set t (Scalar.add (getW b t) l.w)) c
                else links ls b (c ++ [{ src := sIdx, dst := t, w := l.w }])
        match links nd.incoming biases conns with
        | .error e => .error e
        | .ok (b, c) => procIncoming net lk rest b c

def idxOfKind (net : Net W) (k : Kind) : List Nat :=
  (List.range net.nodes.length).filter fun i => (net.nodes[i]?.map (·.kind)) == some k

/-- `Network.FastNetworkSolver()` for a network without control nodes -/
def ofNet (net : Net W) : Except Err (FastNet W) :=
  let biasL := idxOfKind net Kind.bias
  let inL := idxOfKind net Kind.input
  let hidL := idxOfKind net Kind.hidden
  let order := biasL ++ inL ++ net.outputs ++ hidL
  let total := net.nodes.length
  -- processList writes activations[index] for consecutive indices: out of range iff more entries than nodes
  if order.length > total then .error .panic
  else if net.outputs.any (fun o => o ≥ total) then .error .panic
  else
    let nodeAt := fun i => net.nodes[i]?
    let acts0 := order.map fun i => (nodeAt i).map (·.act) |>.getD 0
    let acts := acts0 ++ List.replicate (total - order.length) 0
    let lk : List (Int × Nat) := (List.range order.length).map fun k =>
      ((nodeAt (order.getD k 0)).map (·.id) |>.getD 0, k)
    match procIncoming net lk inL (List.replicate total Scalar.zero) [] with
    | .error e => .error e
    | .ok (b1, c1) =>
      match procIncoming net lk hidL b1 c1 with
      | .error e => .error e
      | .ok (b2, c2) =>
        match procIncoming net lk net.outputs b2 c2 with
        | .error e => .error e
        | .ok (b3, c3) =>
          .ok { nBias := biasL.length, nInput := inL.length, nOutput := net.outputs.length, nTotal := total,
                acts := acts, biasList := b3, conns := c3 }

end
end GoNeat.Fast
