/-
  Reproduction of one species and the epoch turnover of the sequential executor
  (neat/genetics/species.go `reproduce`, population_epoch.go).
-/
import GoNeat.Model.Population

namespace GoNeat
open Scalar
variable {W : Type} [Scalar W]

/-- running state of `Species.reproduce` -/
structure ReproState (W : Type) where
  superChamp : Int
  champCloneDone : Bool
  reg : Reg W
  nextUid : Nat
  babies : List (Org W)

def newOrganism (uid : Nat) (g : Genome W) (generation : Int) : Org W :=
  { uid := uid, fitness := zero, genome := g, expectedOffspring := zero, generation := generation,
    originalFitness := zero, highestFitness := zero }

/-- the structural-or-parametric mutation chain applied to a fresh baby genome; `mateBranch` selects the variant
    of the connect-sensors line (in the mating branch the result overwrites `mutStructBaby` directly — same value) -/
def mutateBaby (o : EpochOpts W) (g : Genome W) (reg : Reg W) : Rand (Genome W × Reg W × Bool) := fun rs =>
  match Rand.float64 (W := W) rs with
  | .error e => .error e
  | .ok (f1, rs1) =>
    let afterStruct : R (Genome W × Reg W × Bool) :=
      if lt f1 o.mutateAddNodeProb then
        match mutateAddNode g reg o.mopts rs1 with
        | .error e => .error e
        | .ok ((g', reg', _), rs2) => .ok ((g', reg', true), rs2)
      else
        match Rand.float64 (W := W) rs1 with
        | .error e => .error e
        | .ok (f2, rs2) =>
          if lt f2 o.mutateAddLinkProb then
            match mutateAddLink g reg o.mopts rs2 with
            | .error e => .error e
            | .ok ((g', reg', _), rs3) => .ok ((g', reg', true), rs3)
          else
            match Rand.float64 (W := W) rs2 with
            | .error e => .error e
            | .ok (f3, rs3) =>
              if lt f3 o.mutateConnectSensors then mutateConnectSensors g reg rs3
              else .ok ((g, reg, false), rs3)
    match afterStruct with
    | .error e => .error e
    | .ok ((g', reg', true), rs') => .ok ((g', reg', true), rs')
    | .ok ((g', reg', false), rs') =>
      match mutateAllNonstructural g' o.mopts rs' with
      | .error e => .error e
      | .ok (g'', rs'') => .ok ((g'', reg', false), rs'')

/-- choice of a species for interspecies mating: up to five draws biased towards the best species -/
def pickOtherSpecies (s : Species W) (sorted : List (Species W)) : Nat → Species W → Rand (Species W)
  | 0, cur, rs => .ok (cur, rs)
  | giveup + 1, cur, rs =>
    if cur.id == s.id then
      match Rand.float64 (W := W) rs with
      | .error e => .error e
      | .ok (f, rs') =>
        let randMult := div f (ofInt 4)
        let idx := floorInt (mul randMult (ofInt sorted.length))
        if idx < 0 then .error (.error "panic:index")
        else match sorted[idx.toNat]? with
          | none => .error (.error "panic:index")
          | some sp => pickOtherSpecies s sorted giveup sp rs'
    else .ok (cur, rs)

/-- one offspring of `Species.reproduce` -/
def reproduceOne (o : EpochOpts W) (generation : Int) (s : Species W) (sorted : List (Species W)) (champ : Org W)
    (count : Int) (st : ReproState W) : Rand (ReproState W) := fun rs =>
  let poolSize := s.orgs.length
  let finish (g : Genome W) (reg : Reg W) (mutStruct mateBaby : Bool) (popChild : Bool) (hf : W) (st : ReproState W) : ReproState W :=
    let baby : Org W := { newOrganism st.nextUid g generation with
                          mutStructBaby := mutStruct, mateBaby := mateBaby, isPopChampionChild := popChild, highestFitness := hf }
    { st with reg := reg, nextUid := st.nextUid + 1, babies := st.babies ++ [baby] }
  if st.superChamp > 0 then
    match champ.genome.duplicate count with
    | .error e => .error e
    | .ok g0 =>
      let mutated : R (Genome W × Reg W × Bool) :=
        if st.superChamp > 1 then
          match Rand.float64 (W := W) rs with
          | .error e => .error e
          | .ok (f, rs1) =>
            if lt f (ofDec 8 1) || eq o.mutateAddLinkProb zero then
              match mutateLinkWeights g0 o.mopts.weightMutPower one .gaussian rs1 with
              | .error e => .error e
              | .ok (g1, rs2) => .ok ((g1, st.reg, false), rs2)
            else
              match mutateAddLink g0 st.reg o.mopts rs1 with
              | .error e => .error e
              | .ok ((g1, reg1, _), rs2) => .ok ((g1, reg1, true), rs2)
        else .ok ((g0, st.reg, false), rs)
      match mutated with
      | .error e => .error e
      | .ok ((g1, reg1, ms), rs') =>
        let last := st.superChamp == 1 && champ.isPopChampion
        let st' := finish g1 reg1 ms false last (if last then champ.originalFitness else zero) st
        .ok ({ st' with superChamp := st.superChamp - 1 }, rs')
  else if !st.champCloneDone && s.expectedOffspring > 5 then
    match champ.genome.duplicate count with
    | .error e => .error e
    | .ok g0 => .ok ({ finish g0 st.reg false false false zero st with champCloneDone := true }, rs)
  else
    match Rand.float64 (W := W) rs with
    | .error e => .error e
    | .ok (f, rs1) =>
      if lt f o.mutateOnlyProb || poolSize == 1 then
        match Rand.intn poolSize rs1 with
        | .error e => .error e
        | .ok (k, rs2) =>
          match s.orgs[k]? with
          | none => .error (.error "panic:index")
          | some mom =>
            match mom.genome.duplicate count with
            | .error e => .error e
            | .ok g0 =>
              match mutateBaby o g0 st.reg rs2 with
              | .error e => .error e
              | .ok ((g1, reg1, ms), rs3) => .ok (finish g1 reg1 ms false false zero st, rs3)
      else
        match Rand.intn poolSize rs1 with
        | .error e => .error e
        | .ok (k, rs2) =>
          match s.orgs[k]? with
          | none => .error (.error "panic:index")
          | some mom =>
            match Rand.float64 (W := W) rs2 with
            | .error e => .error e
            | .ok (f2, rs3) =>
              let dadR : R (Org W) :=
                if gt f2 o.interspeciesMateRate then
                  match Rand.intn poolSize rs3 with
                  | .error e => .error e
                  | .ok (k2, rs4) =>
                    match s.orgs[k2]? with
                    | none => .error (.error "panic:index")
                    | some d => .ok (d, rs4)
                else
                  match pickOtherSpecies s sorted 5 s rs3 with
                  | .error e => .error e
                  | .ok (sp, rs4) =>
                    match sp.orgs.head? with
                    | none => .error (.error "panic:index")
                    | some d => .ok (d, rs4)
              match dadR with
              | .error e => .error e
              | .ok (dad, rs4) =>
                match Rand.float64 (W := W) rs4 with
                | .error e => .error e
                | .ok (f3, rs5) =>
                  let childR : R (Genome W) :=
                    if lt f3 o.mateMultipointProb then
                      mateMultipoint mom.genome dad.genome count mom.originalFitness dad.originalFitness rs5
                    else
                      match Rand.float64 (W := W) rs5 with
                      | .error e => .error e
                      | .ok (f4, rs6) =>
                        if lt f4 (div o.mateMultipointAvgProb (add o.mateMultipointAvgProb o.mateSinglepointProb)) then
                          mateMultipointAvg mom.genome dad.genome count mom.originalFitness dad.originalFitness rs6
                        else mateSinglePoint mom.genome dad.genome count rs6
                  match childR with
                  | .error e => .error e
                  | .ok (child, rs7) =>
                    match Rand.float64 (W := W) rs7 with
                    | .error e => .error e
                    | .ok (f5, rs8) =>
                      if gt f5 o.mateOnlyProb || dad.genome.id == mom.genome.id ||
                         eq (compatibility o.compat dad.genome mom.genome) zero then
                        match mutateBaby o child st.reg rs8 with
                        | .error e => .error e
                        | .ok ((g1, reg1, ms), rs9) => .ok (finish g1 reg1 ms true false zero st, rs9)
                      else .ok (finish child st.reg false true false zero st, rs8)

def reproduceLoop (o : EpochOpts W) (generation : Int) (s : Species W) (sorted : List (Species W)) (champ : Org W) :
    Nat → Int → ReproState W → Rand (ReproState W)
  | 0, _, st, rs => .ok (st, rs)
  | n + 1, count, st, rs =>
    match reproduceOne o generation s sorted champ count st rs with
    | .error e => .error e
    | .ok (st', rs') => reproduceLoop o generation s sorted champ n (count + 1) st' rs'

/-- `Species.reproduce`: returns the babies, the updated registry and the next allocation id -/
def reproduceSpecies (o : EpochOpts W) (generation : Int) (s : Species W) (sorted : List (Species W)) (reg : Reg W) (nextUid : Nat) :
    Rand (List (Org W) × Reg W × Nat) := fun rs =>
  match s.orgs.head? with
  | none =>
    if s.expectedOffspring > 0 then .error (.error "reproduceEmptySpecies") else .error (.error "panic:index")
  | some champ =>
    let st0 : ReproState W := { superChamp := champ.superChampOffspring, champCloneDone := false, reg := reg,
                                nextUid := nextUid, babies := [] }
    match reproduceLoop o generation s sorted champ s.expectedOffspring.toNat 0 st0 rs with
    | .error e => .error e
    | .ok (st, rs') => .ok ((st.babies, st.reg, st.nextUid), rs')

/-! ### the epoch of the sequential executor -/

/-- state kept by `SequentialPopulationEpochExecutor` between the phases -/
structure ExecState where
  sortedIds : List Int
  bestSpeciesId : Int
deriving Repr

def adjustAll (o : EpochOpts W) : List (Species W) → Except Stop (List (Species W))
  | [] => .ok []
  | s :: ss =>
    match adjustFitness o s with
    | .error e => .error e
    | .ok s' =>
      match adjustAll o ss with
      | .error e => .error e
      | .ok ss' => .ok (s' :: ss')

/-- `prepareForReproduction` -/
def prepareForReproduction (o : EpochOpts W) (p : Pop W) : Rand (Pop W × ExecState) := fun rs =>
  match adjustAll o p.species with
  | .error e => .error e
  | .ok species1 =>
    let p1 := purgeZeroOffspringSpecies { p with species := species1 }
    let sorted := sortSpeciesDesc p1.species
    match sorted with
    | [] => .error (.error "panic:index")
    | best :: _ =>
      match best.orgs.head? with
      | none => .error (.error "panic:index")
      | some top =>
        let sorted1 := (setTopOrg best (fun t => { t with isPopChampion := true })) :: sorted.tail
        let record := gt top.originalFitness p1.highestFitness
        let p2 : Pop W := { p1 with highestFitness := if record then top.originalFitness else p1.highestFitness,
                                    epochsHighestLastChanged := if record then 0 else p1.epochsHighestLastChanged + 1 }
        let redistributed : R (List (Species W) × Int) :=
          if p2.epochsHighestLastChanged ≥ o.dropOffAge + 5 then
            match deltaCoding sorted1 o with
            | .error e => .error e
            | .ok l => .ok ((l, 0), rs)
          else if o.babiesStolen > 0 then
            match giveBabiesToTheBest sorted1 o rs with
            | .error e => .error e
            | .ok (l, rs') => .ok ((l, p2.epochsHighestLastChanged), rs')
          else .ok ((sorted1, p2.epochsHighestLastChanged), rs)
        match redistributed with
        | .error e => .error e
        | .ok ((sorted2, ehlc), rs') =>
          let p3 := purgeOrganisms { p2 with species := writeBack p2.species sorted2, epochsHighestLastChanged := ehlc }
          .ok ((p3, { sortedIds := sorted2.map (·.id), bestSpeciesId := best.id }), rs')

def reproduceAll (o : EpochOpts W) (generation : Int) (sorted : List (Species W)) :
    List (Species W) → Reg W → Nat → List (Org W) → Rand (List (Org W) × Reg W × Nat)
  | [], reg, uid, babies, rs => .ok ((babies, reg, uid), rs)
  | s :: ss, reg, uid, babies, rs =>
    match reproduceSpecies o generation s sorted reg uid rs with
    | .error e => .error e
    | .ok ((bs, reg', uid'), rs') => reproduceAll o generation sorted ss reg' uid' (babies ++ bs) rs'

/-- `reproduce` phase -/
def reproducePhase (o : EpochOpts W) (generation : Int) (p : Pop W) (ex : ExecState) : Rand (Pop W) := fun rs =>
  let sorted := ex.sortedIds.filterMap (fun i => p.species.find? (·.id == i))
  match reproduceAll o generation sorted p.species p.reg p.nextUid [] rs with
  | .error e => .error e
  | .ok ((babies, reg, uid), rs') =>
    if babies.length ≠ o.popSize then .error (.error "progenySizeMismatch")
    else
      match speciate o { p with reg := reg, nextUid := uid } babies with
      | .error e => .error e
      | .ok p' => .ok (p', rs')

/-- `finalizeReproduction` -/
def finalizeReproduction (p : Pop W) : Pop W :=
  let p1 := purgeOrAgeSpecies (purgeOldGeneration p)
  { p1 with reg := { p1.reg with records := [] } }

/-- `SequentialPopulationEpochExecutor.NextEpoch` -/
def nextEpoch (o : EpochOpts W) (generation : Int) (p : Pop W) : Rand (Pop W) := fun rs =>
  match prepareForReproduction o p rs with
  | .error e => .error e
  | .ok ((p1, ex), rs1) =>
    match reproducePhase o generation p1 ex rs1 with
    | .error e => .error e
    | .ok (p2, rs2) => .ok (finalizeReproduction p2, rs2)

end GoNeat

namespace GoNeat
open Scalar
variable {W : Type} [Scalar W]

def spawnLoop (g : Genome W) : Nat → Int → Nat → Rand (List (Org W))
  | 0, _, _, rs => .ok ([], rs)
  | n + 1, count, uid, rs =>
    match g.duplicate count with
    | .error e => .error e
    | .ok d =>
      match mutateLinkWeights d one one .gaussian rs with
      | .error e => .error e
      | .ok (d', rs1) =>
        match spawnLoop g n (count + 1) (uid + 1) rs1 with
        | .error e => .error e
        | .ok (rest, rs2) => .ok (newOrganism uid d' 1 :: rest, rs2)

/-- `NewPopulation` / `Population.spawn` -/
def spawn (o : EpochOpts W) (g : Genome W) : Rand (Pop W) := fun rs =>
  if o.popSize = 0 then .error (.error "wrongPopSize")
  else
    match spawnLoop g o.popSize 0 0 rs with
    | .error e => .error e
    | .ok (orgs, rs') =>
      match g.lastNodeId with
      | .error e => .error e
      | .ok lastNode =>
        match g.nextGeneInnov with
        | .error e => .error e
        | .ok nextInn =>
          let p0 : Pop W := { species := [], organisms := orgs.map (·.uid), lastSpecies := 0, highestFitness := zero,
                              epochsHighestLastChanged := 0,
                              reg := { records := [], nextInn := nextInn - 1, nextNode := lastNode + 1 },
                              nextUid := o.popSize }
          match speciate o p0 orgs with
          | .error e => .error e
          | .ok p => .ok (p, rs')

end GoNeat
