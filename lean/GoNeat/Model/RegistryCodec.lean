/-
  The two name maps of the activator registry (`NodeActivators.ActivationNameFromType` /
  `ActivationTypeFromName`) read off the REGENERATED table Gen/Registry.lean, and the plain-format codec built on
  them.  Core Lean only.
-/
import GoNeat.Gen.Registry
import GoNeat.Model.PlainIO

namespace GoNeat.PlainIO

/-- `forward[aType]` -/
def regActName (a : Nat) : Option String :=
  match GoNeat.Gen.Registry.registered.find? (·.code == a) with
  | none => none
  | some r => some r.name

/-- `inverse[name]` -/
def regActOfName (s : String) : Option Nat :=
  match GoNeat.Gen.Registry.registered.find? (·.name == s) with
  | none => none
  | some r => some r.code

/-- the codec of the real library: registry names, float spelling left open -/
def regCodec {F : Type} (fmtF : F → String) (parseF : String → Option F) : Codec F :=
  { fmtF := fmtF, parseF := parseF, actName := regActName, actOfName := regActOfName }

end GoNeat.PlainIO
