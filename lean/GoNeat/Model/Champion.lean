/-
  The library's own champion queries (property C10 speaks about "the species' fittest organism"; these are the
  functions through which a USER of the library asks for it): neat/genetics/species.go, organism.go.

  * `Species.FindChampion` (public): a running maximum over `org.Fitness` that starts at `-1.0` and is replaced on a
    strict `>`; returns nil when no organism's fitness exceeds -1 (in particular for an empty species).
  * `Species.findChampion` (unexported): `sort.Sort(sort.Reverse(s.Organisms))` IN PLACE, then `s.Organisms[0]`
    (index panic on an empty species).  `sort.Sort` is `goSort` (Model/GoSort.lean), the order is `Organisms.Less`
    (`orgLess` of Model/Population.lean: fitness, ties by highest fitness).
  * `Species.Size`, `Organism.CheckChampionChildDamaged`.

  Polymorphic in the scalar `W`.  Core Lean only.
-/
import GoNeat.Model.Population

namespace GoNeat.Champion
open GoNeat Scalar

variable {W : Type} [Scalar W]

/-- the literal `-1.0` -/
def minusOne : W := neg one

/-- the `for _, org := range s.Organisms` loop of `FindChampion`; `mx` = `champFitness`, `ch` = `champion` -/
def findLoop : List (Org W) → W → Option (Org W) → Option (Org W)
  | [], _, ch => ch
  | o :: os, mx, ch => if gt o.fitness mx then findLoop os o.fitness (some o) else findLoop os mx ch

/-- `Species.FindChampion` -/
def findChampionPublic (s : Species W) : Option (Org W) := findLoop s.orgs minusOne none

/-- `Species.findChampion`: the champion and the species with its member list re-sorted in place -/
def findChampionSort (s : Species W) : Except Stop (Org W × Species W) :=
  match sortOrgsDesc s.orgs with
  | [] => .error (.error "panic:index")
  | top :: rest => .ok (top, { s with orgs := top :: rest })

/-- `Species.Size` -/
def size (s : Species W) : Nat := s.orgs.length

/-- `Organism.CheckChampionChildDamaged` -/
def checkChampionChildDamaged (o : Org W) : Bool := o.isPopChampionChild && gt o.highestFitness o.fitness

end GoNeat.Champion
