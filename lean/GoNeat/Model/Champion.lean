/-
  The library's own champion queries (property C10 speaks about "the species' fittest organism"; these are the
  functions through which a USER of the library asks for it): neat/genetics/species.go, organism.go.

  * `Species.FindChampion` (public): a running maximum over `org.Fitness` that starts at `-1.0` and is replaced on a
    strict `>`; returns nil when no organism's fitness exceeds -1 (in particular for an empty species).
  * `Species.findChampion` (unexported): `sort.Sort(sort.Reverse(s.Organisms))` IN PLACE, then `s.Organisms[0]`
    (index panic on an empty species).  `sort.Sort` is `goSort` (Model/GoSort.lean), the order is `Organisms.Less`
    (`orgLess` of Model/Population.lean: fitness, ties by highest fitness).
  * `Species.Size`, `Organism.CheckChampionChildDamaged`.

  Polymorphic in the scalar `W`.  Core Lean only.
-/
import GoNeat.Model.Population

namespace GoNeat.Champion
open GoNeat Scalar

variable {W : Type} [Scalar W]

/-- the literal `-1.0` -/
def minusOne : W := neg one

/-- the `for _, org := range s.Organisms` loop of `FindChampion`; `mx` = `champFitness`, `ch` = `champion` -/
def findLoop : List (Org W) → W → Option (Org W) → Option (Org W)
  | [], _, ch => ch
  | o :: os, mx, ch => if gt o.fitness mx then findLoop os o.fitness (some o) else findLoop os mx ch

/-- `Species.FindChampion` -/
def findChampionPublic (s : Species W) : Option (Org W) := findLoop s.orgs minusOne none

/-- `Species.findChampion`: the champion and the species with its member list re-sorted in place -/
def findChampionSort (s : Species W) : Except Stop (Org W × Species W) :=
  match sortOrgsDesc s.orgs with
  | [] => .error (.error "panic:index")
  | top :: rest => .ok (top, { s with orgs := top :: rest })

/-- `Species.Size` -/
def size (s : Species W) : Nat := s.orgs.length

/-- `Organism.CheckChampionChildDamaged` -/
def checkChampionChildDamaged (o : Org W) : Bool := o.isPopChampionChild && gt o.highestFitness o.fitness

/-- the loop of `Species.ComputeMaxAndAvgFitness`: running total (left to right) and a running maximum that starts at
    the zero value of the named result `max` (so it never goes below 0) -/
def maxAvgLoop : List (Org W) → W → W → W × W
  | [], total, mx => (total, mx)
  | o :: os, total, mx => maxAvgLoop os (add total o.fitness) (if gt o.fitness mx then o.fitness else mx)

/-- `Species.ComputeMaxAndAvgFitness` -/
def computeMaxAndAvgFitness (s : Species W) : W × W :=
  let (total, mx) := maxAvgLoop s.orgs zero zero
  (mx, if s.orgs.length > 0 then div total (ofInt s.orgs.length) else zero)

/-- `ByOrganismFitness.Less` -/
def speciesFitnessLess (a b : Species W) : Bool :=
  lt (computeMaxAndAvgFitness a).1 (computeMaxAndAvgFitness b).1

/-- `sort.Sort(ByOrganismFitness(species))` and `sort.Sort(sort.Reverse(ByOrganismFitness(species)))` -/
def sortSpeciesByFitness (l : List (Species W)) : List (Species W) := goSort speciesFitnessLess l
def sortSpeciesByFitnessDesc (l : List (Species W)) : List (Species W) := goSort (fun a b => speciesFitnessLess b a) l

end GoNeat.Champion
