/-
  Expression of a genome as a phenotype network (C11): `Genome.Genesis` (neat/genetics/genome.go:399-496), and the
  network's graph view and counts (neat/network/network_graph.go, network.go:379-404), over the shared static
  network model of Model/Net.lean.

  Heap abstraction.  Go: every genome node gets a fresh `NNode` (`PhenotypeAnalogue`), a gene's endpoints are
  pointers to genome nodes, so the new link's endpoints are those nodes' analogues.  Model: the analogue of the
  genome node at position `i` is the network node at index `i`; a gene names its endpoints by id, resolved to the
  position of the genome node with that id (`idxOf`).  This agrees with the pointer semantics exactly when every
  gene endpoint is one of the genome's own node objects and node ids are unique - observed on the implementation
  by the ownership bits of the genome dump and demanded by `Spec/Genesis.lean: GenomeOk`.  A gene whose endpoint
  resolves to no node would be a nil `PhenotypeAnalogue` in Go (run-time panic): error `panic:nilAnalogue`.

  Control node `k` of the network has index `nodes.length + k` (position in `allNodesMIMO`).
  Traits / derived parameters of nodes and links are not part of the model (C11 does not speak about them).
-/
import GoNeat.Model.Net

namespace GoNeat.Genesis

variable {W : Type}

/-! ### Genesis -/

/-- `network.NewNNodeCopy` (id, role, activation type; no links yet) -/
def copyNode (n : Node) : NNodeS W := { id := n.id, kind := n.kind, act := n.act, incoming := [], outgoing := [] }

/-- position of the genome node a pointer with this id designates -/
def idxOf (nodes : List Node) (id : Int) : Option Nat := nodes.findIdx? (·.id == id)

/-- `outNode.Incoming = append(outNode.Incoming, l); inNode.Outgoing = append(inNode.Outgoing, l)` -/
def addLink (tbl : List (NNodeS W)) (l : NLink W) : List (NNodeS W) :=
  (tbl.modify l.dst fun nd => { nd with incoming := nd.incoming ++ [l] }).modify l.src
    fun nd => { nd with outgoing := nd.outgoing ++ [l] }

/-- the link a gene is expressed as, once its endpoints are resolved -/
def geneLink (nodes : List Node) (g : Gene W) : Option (NLink W) :=
  match idxOf nodes g.src, idxOf nodes g.dst with
  | some s, some d => some { src := s, dst := d, w := g.w, recur := g.recur }
  | _, _ => none

/-- the loop "create the links by iterating through the genes" -/
def linkGenes (nodes : List Node) : List (Gene W) → List (NNodeS W) → Except Stop (List (NNodeS W))
  | [], tbl => .ok tbl
  | g :: gs, tbl =>
    if !g.en then linkGenes nodes gs tbl
    else
      match geneLink nodes g with
      | none => .error (.error "panic:nilAnalogue")
      | some l => linkGenes nodes gs (addLink tbl l)

/-- wires of a control node: `NewLink(l.ConnectionWeight, in, out, false)` (recurrence flag forced to false) -/
def wireLinks (nodes : List Node) (ctrlIdx : Nat) (incoming : Bool) : List (Wire W) → Except Stop (List (NLink W))
  | [] => .ok []
  | w :: ws =>
    match idxOf nodes w.node with
    | none => .error (.error "panic:nilAnalogue")
    | some k =>
      match wireLinks nodes ctrlIdx incoming ws with
      | .error e => .error e
      | .ok ls =>
        .ok ((if incoming then { src := k, dst := ctrlIdx, w := w.w, recur := false }
              else { src := ctrlIdx, dst := k, w := w.w, recur := false }) :: ls)

/-- the loop over `ControlGenes`: one control node per ENABLED module, wired to its inputs and outputs; the links
    are added to the control node only -/
def ctrlNodes (nodes : List Node) : List (Module W) → Nat → Except Stop (List (NNodeS W))
  | [], _ => .ok []
  | m :: ms, next =>
    if !m.en then ctrlNodes nodes ms next
    else
      match wireLinks nodes next true m.ins with
      | .error e => .error e
      | .ok ins =>
        match wireLinks nodes next false m.outs with
        | .error e => .error e
        | .ok outs =>
          match ctrlNodes nodes ms (next + 1) with
          | .error e => .error e
          | .ok cs => .ok ({ id := m.ctrl.id, kind := m.ctrl.kind, act := m.ctrl.act, incoming := ins, outgoing := outs } :: cs)

/-- positions of the nodes satisfying `p`, in order -/
def positions (p : Node → Bool) : List Node → Nat → List Nat
  | [], _ => []
  | n :: ns, i => if p n then i :: positions p ns (i + 1) else positions p ns (i + 1)

/-- `Genome.Genesis(netId)` -/
def genesis (g : Genome W) (netId : Int) : Except Stop (Net W) :=
  if g.genes.isEmpty then .error (.error "noGenes")
  else
    let outs := positions (fun n => n.kind == Kind.output) g.nodes 0
    if outs.isEmpty then .error (.error "noOutputs")
    else
      match linkGenes g.nodes g.genes (g.nodes.map copyNode) with
      | .error e => .error e
      | .ok tbl =>
        match ctrlNodes g.nodes g.modules g.nodes.length with
        | .error e => .error e
        | .ok cs =>
          .ok { id := netId, nodes := tbl, inputs := positions (fun n => n.kind == Kind.input || n.kind == Kind.bias) g.nodes 0,
                outputs := outs, ctrl := cs }

/-- the phenotype an organism made from an add-link baby is evaluated with: `mutateAddLink` drops the network it built
    for its recurrence test when it inserts the new gene `x` (repair 585232e), so `Organism.Phenotype()` expresses
    the genome WITH `x` -/
def addLinkPhenotype (g : Genome W) (x : Gene W) (netId : Int) : Except Stop (Net W) :=
  genesis { g with genes := geneInsert g.genes x } netId

/-! ### graph view (`network_graph.go`) -/

/-- `allNodesMIMO` -/
def allMIMO (net : Net W) : List (NNodeS W) := net.nodes ++ net.ctrl

/-- id of the node object at index `i` of `allNodesMIMO` (what `l.InNode.ID()` / `l.OutNode.ID()` read) -/
def idAt (net : Net W) (i : Nat) : Option Int := ((allMIMO net)[i]?).map (·.id)

/-- `nodeWithID`: first node of `allNodesMIMO` with the id -/
def nodeWithID (net : Net W) (id : Int) : Option (NNodeS W) := (allMIMO net).find? (·.id == id)

/-- `Network.Node(id)`: (id, role, activation) of the node or nil -/
def node? (net : Net W) (id : Int) : Option (Int × Kind × Nat) :=
  (nodeWithID net id).map fun nd => (nd.id, nd.kind, nd.act)

/-- `Network.Nodes()`: ids in iteration order -/
def nodeIds (net : Net W) : List Int := (allMIMO net).map (·.id)

/-- `Network.From(id)`: ids of the successors, in iteration order -/
def fromIds (net : Net W) (id : Int) : List (Option Int) :=
  match nodeWithID net id with
  | none => []
  | some nd =>
    nd.outgoing.map (fun l => idAt net l.dst) ++
      (net.ctrl.filter fun cn => cn.incoming.any fun l => idAt net l.src == some id).map fun cn => some cn.id

/-- `Network.To(id)` -/
def toIds (net : Net W) (id : Int) : List (Option Int) :=
  match nodeWithID net id with
  | none => []
  | some nd =>
    nd.incoming.map (fun l => idAt net l.src) ++
      (net.ctrl.filter fun cn => cn.outgoing.any fun l => idAt net l.dst == some id).map fun cn => some cn.id

/-- the first loop of `edgeBetween`: scan `allNodes`, remember the nodes with the two ids, stop when both are known -/
def scanUV (uid vid : Int) : List (NNodeS W) → Option (NNodeS W) → Option (NNodeS W) → Option (NNodeS W) × Option (NNodeS W)
  | [], u, v => (u, v)
  | nd :: rest, u, v =>
    let u' := if nd.id == uid then some nd else u
    let v' := if nd.id == vid then some nd else v
    if u'.isSome && v'.isSome then (u', v') else scanUV uid vid rest u' v'

/-- the loop over `cn.Outgoing` inside ONE control node -/
def ctrlEdgeOut (net : Net W) (cn : NNodeS W) (oid : Int) (directed vKnown : Bool) : Option (Option (NLink W)) :=
  match cn.outgoing.find? fun l => idAt net l.dst == some oid with
  | some l => if !directed then some (some l) else if vKnown then some (some l) else some none
  | none => none

/-- result of the search inside ONE control node with id `cid`: `some r` = the function returns `r` here,
    `none` = nothing matched, go on with the next control node.  A matching INPUT wire answers an undirected query
    and a directed query that ends at the control node; for a directed query that STARTS at the control node the
    loop is left (`break`, repair 513f15a) and the output wires decide - the ordinary node may be an input and an
    output of the module.  (`Model/LegacyGenesis.lean` keeps the old `return nil`.) -/
def ctrlEdge (net : Net W) (cn : NNodeS W) (oid : Int) (directed uKnown vKnown : Bool) : Option (Option (NLink W)) :=
  match cn.incoming.find? fun l => idAt net l.src == some oid with
  | some l => if !directed || uKnown then some (some l) else ctrlEdgeOut net cn oid directed vKnown
  | none => ctrlEdgeOut net cn oid directed vKnown

def ctrlScan (net : Net W) (cid oid : Int) (directed uKnown vKnown : Bool) : List (NNodeS W) → Option (NLink W)
  | [] => none
  | cn :: rest =>
    if cn.id != cid then ctrlScan net cid oid directed uKnown vKnown rest
    else
      match ctrlEdge net cn oid directed uKnown vKnown with
      | some r => r
      | none => ctrlScan net cid oid directed uKnown vKnown rest

/-- `Network.edgeBetween(uid, vid, directed)` -/
def edgeBetween (net : Net W) (uid vid : Int) (directed : Bool) : Option (NLink W) :=
  match scanUV uid vid net.nodes none none with
  | (none, none) => none
  | (none, some _) => ctrlScan net uid vid directed false true net.ctrl
  | (some _, none) => ctrlScan net vid uid directed true false net.ctrl
  | (some uNode, some vNode) =>
    let first :=
      if !directed then uNode.incoming.find? fun l => idAt net l.src == some vid
      else vNode.incoming.find? fun l => idAt net l.src == some uid
    match first with
    | some l => some l
    | none => uNode.outgoing.find? fun l => idAt net l.dst == some vid

/-- `Network.Edge(uid, vid)` / `WeightedEdge` -/
def edge? (net : Net W) (uid vid : Int) : Option (NLink W) := edgeBetween net uid vid true
/-- `Network.HasEdgeFromTo` -/
def hasEdgeFromTo (net : Net W) (uid vid : Int) : Bool := (edgeBetween net uid vid true).isSome
/-- `Network.HasEdgeBetween` -/
def hasEdgeBetween (net : Net W) (xid yid : Int) : Bool := (edgeBetween net xid yid false).isSome
/-- `Network.Weight`: `(w, ok)`; `none` = `(0, false)` -/
def weight? (net : Net W) (xid yid : Int) : Option W := (edgeBetween net xid yid true).map (·.w)

/-! ### counts (`network.go`) -/

def nodeCount (net : Net W) : Nat := net.nodes.length + net.ctrl.length

def linkCount (net : Net W) : Nat :=
  (net.nodes.map fun nd => nd.incoming.length).sum +
    (net.ctrl.map fun cn => cn.incoming.length + cn.outgoing.length).sum

def complexity (net : Net W) : Nat := nodeCount net + linkCount net

end GoNeat.Genesis
