/-
  Frozen models of code as it was BEFORE the `fix:` commits in /repo.  Counterexample theorems in Props/Cxx.lean are
  stated against these definitions (DESIGN §4).  CORE ONLY.
-/
namespace GoNeat.Legacy

/-! ### C18 / F5 (fixed by 6e7d1ff): `maxModule` started its accumulator from `float64(math.MinInt64)` -/

/-- legacy `maxModule`: `maxVal := float64(math.MinInt64); for v in inputs { maxVal = max(maxVal, v) }`.
    Polymorphic in the scalar; `minInt64` is the scalar's image of -9223372036854775808. -/
def maxModule {α : Type} [Max α] (minInt64 : α) (inputs : List α) : α := inputs.foldl max minInt64

end GoNeat.Legacy
