/-
  An evaluator as the examples shipped with goNEAT write it (examples/xor/XOR.go, examples/pole*/cart*pole*.go):
  assign a fitness value to every organism, decide whether the generation is solved, then call
  `epoch.FillPopulationStatistics(pop)` - which sorts every species' organism list IN PLACE
  (Model/GenerationStats.lean) - and return.  The population such an evaluator leaves behind, which is what
  `NextEpoch` receives, is the fitness-assigned population with every species list re-ordered.

  Core Lean only.  Not part of the driver: used by Props/C20EpochFill.lean.
-/
import GoNeat.Model.ExperimentEpoch
import GoNeat.Model.GenerationStats

namespace GoNeat.Experiment
open GoNeat
variable {W : Type} [Scalar W]

/-- `fitnessEval` followed by `Generation.FillPopulationStatistics` on the generation record (marked `Solved` when the
    evaluator found a winner; the population the call leaves does not depend on that flag).  If the call indexes into
    an empty species (`panic`; impossible on the populations `Execute` hands out, C19Gen `fill_defined_iff`) the
    evaluator is modelled as failing, the population as it was. -/
def fillEval (fit : Nat → Nat → Org W → W) (solved : Nat → Nat → Pop W → Bool) (t g : Nat) (p : Pop W) : EvalResult W :=
  let r := fitnessEval fit solved t g p
  match GenStatsModel.fillFrom (r.outcome == .solved) none r.pop with
  | .ok (_, p') => ⟨p', r.outcome⟩
  | .error _ => ⟨r.pop, .fail⟩

end GoNeat.Experiment
