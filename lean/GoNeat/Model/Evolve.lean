/-
  C17: the whole sequential run as ONE function of (start genome, options, fitness assignment, raw stream):
  `NewPopulation` followed by `k` epoch turnovers of the sequential executor, the experiment assigning a
  fitness to every organism before each turnover.  The fitness assignment is any (deterministic) function of
  the generation number and the genome — it is an input, like the start genome.

  CORE LEAN ONLY.
-/
import GoNeat.Model.Epoch

namespace GoNeat
open Scalar
variable {W : Type} [Scalar W]

/-- the evaluation step between two turnovers: every organism gets `fit generation genome` -/
def assignFitness (fit : Int → Genome W → W) (generation : Int) (p : Pop W) : Pop W :=
  { p with species := p.species.map (fun s => { s with orgs := s.orgs.map (fun o => { o with fitness := fit generation o.genome }) }) }

/-- `k` consecutive generations: evaluate, then `NextEpoch` -/
def evolve (o : EpochOpts W) (fit : Int → Genome W → W) : Nat → Int → Pop W → Rand (Pop W)
  | 0, _, p, rs => .ok (p, rs)
  | k + 1, generation, p, rs =>
    match nextEpoch o generation (assignFitness fit generation p) rs with
    | .error e => .error e
    | .ok (p', rs') => evolve o fit k (generation + 1) p' rs'

/-- the populations after every epoch (what the twin-run check compares) -/
def evolveTrace (o : EpochOpts W) (fit : Int → Genome W → W) : Nat → Int → Pop W → Rand (List (Pop W))
  | 0, _, _, rs => .ok ([], rs)
  | k + 1, generation, p, rs =>
    match nextEpoch o generation (assignFitness fit generation p) rs with
    | .error e => .error e
    | .ok (p', rs') =>
      match evolveTrace o fit k (generation + 1) p' rs' with
      | .error e => .error e
      | .ok (ps, rs'') => .ok (p' :: ps, rs'')

/-- spawn + `k` epochs -/
def run (o : EpochOpts W) (fit : Int → Genome W → W) (g : Genome W) (k : Nat) : Rand (Pop W) := fun rs =>
  match spawn o g rs with
  | .error e => .error e
  | .ok (p, rs') => evolve o fit k 1 p rs'

end GoNeat
