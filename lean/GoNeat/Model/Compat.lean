/-
  Compatibility distance (neat/genetics/genome_compatibility.go): `compatLinear`, `compatFast`.
  Each walk returns the float result together with ghost counters (excess, disjoint, matching)
  so that the counting logic can be stated and proved independently of float arithmetic.
-/
import GoNeat.Model.Genome

namespace GoNeat
open Scalar

structure CompatOpts (W : Type) where
  disjointCoeff : W
  excessCoeff : W
  mutdiffCoeff : W
  /-- `GenCompatMethod == linear` -/
  linear : Bool

/-- ghost counters of a walk -/
structure Counts where
  excess : Nat := 0
  disjoint : Nat := 0
  matching : Nat := 0
deriving Repr, DecidableEq

variable {W : Type} [Scalar W]

/-! ### linear method -/

/-- accumulator of `compatLinear`: float counters exactly as the Go code keeps them, plus ghosts -/
structure LinAcc (W : Type) where
  numDisjoint : W
  numExcess : W
  mutDiffTotal : W
  numMatching : W
  cnt : Counts

def LinAcc.init : LinAcc W := ⟨zero, zero, zero, zero, {}⟩

/-- the merge walk of `compatLinear` (repaired version: runs until both lists end) -/
def linWalk : List (Gene W) → List (Gene W) → LinAcc W → LinAcc W
  | [], [], a => a
  | [], _ :: ys, a =>
    linWalk [] ys { a with numExcess := add a.numExcess one, cnt := { a.cnt with excess := a.cnt.excess + 1 } }
  | _ :: xs, [], a =>
    linWalk xs [] { a with numExcess := add a.numExcess one, cnt := { a.cnt with excess := a.cnt.excess + 1 } }
  | x :: xs, y :: ys, a =>
    if x.inn = y.inn then
      linWalk xs ys { a with numMatching := add a.numMatching one,
                             mutDiffTotal := add a.mutDiffTotal (abs (sub x.mnum y.mnum)),
                             cnt := { a.cnt with matching := a.cnt.matching + 1 } }
    else if x.inn < y.inn then
      linWalk xs (y :: ys) { a with numDisjoint := add a.numDisjoint one, cnt := { a.cnt with disjoint := a.cnt.disjoint + 1 } }
    else
      linWalk (x :: xs) ys { a with numDisjoint := add a.numDisjoint one, cnt := { a.cnt with disjoint := a.cnt.disjoint + 1 } }
termination_by l1 l2 => l1.length + l2.length

def compatLinearAcc (g og : Genome W) : LinAcc W := linWalk g.genes og.genes LinAcc.init

/-- `compatLinear` -/
def compatLinear (o : CompatOpts W) (g og : Genome W) : W :=
  let a := compatLinearAcc g og
  let comp := add (mul o.disjointCoeff a.numDisjoint) (mul o.excessCoeff a.numExcess)
  if gt a.numMatching zero then add comp (mul o.mutdiffCoeff (div a.mutDiffTotal a.numMatching)) else comp

/-! ### fast method — backward walk with the 4-state excess switch -/

structure FastAcc (W : Type) where
  sw : Nat            -- excessGenesSwitch
  compat : W
  mutDiff : W
  numMatching : Nat
  cnt : Counts

/-- the backward walk over the reversed gene lists (heads = last genes).  Mirrors the `for` loop:
    the two exhaustion tests at the loop end are the first two equations (the loop is only entered
    with both lists non-empty, `compatFast` handles the empty cases before). -/
def fastWalk : List (Gene W) → List (Gene W) → CompatOpts W → FastAcc W → FastAcc W
  | [], ys, o, a => -- list1Idx < 0: all remaining list2 genes are disjoint
    { a with compat := add a.compat (mul (ofInt ys.length) o.disjointCoeff),
             cnt := { a.cnt with disjoint := a.cnt.disjoint + ys.length } }
  | x :: xs, [], o, a => -- list2Idx < 0: all remaining list1 genes are disjoint
    { a with compat := add a.compat (mul (ofInt (xs.length + 1)) o.disjointCoeff),
             cnt := { a.cnt with disjoint := a.cnt.disjoint + (xs.length + 1) } }
  | x :: xs, y :: ys, o, a =>
    -- x = gene1 (genome 1), y = gene2 (genome 2)
    if y.inn > x.inn then
      fastWalk (x :: xs) ys o
        (if a.sw = 3 then { a with compat := add a.compat o.disjointCoeff, cnt := { a.cnt with disjoint := a.cnt.disjoint + 1 } }
         else if a.sw = 2 then { a with compat := add a.compat o.excessCoeff, cnt := { a.cnt with excess := a.cnt.excess + 1 } }
         else if a.sw = 1 then { a with sw := 3, compat := add a.compat o.disjointCoeff, cnt := { a.cnt with disjoint := a.cnt.disjoint + 1 } }
         else { a with sw := 2, compat := add a.compat o.excessCoeff, cnt := { a.cnt with excess := a.cnt.excess + 1 } })
    else if x.inn = y.inn then
      fastWalk xs ys o
        { a with sw := 3, mutDiff := add a.mutDiff (abs (sub x.mnum y.mnum)),
                 numMatching := a.numMatching + 1,
                 cnt := { a.cnt with matching := a.cnt.matching + 1 } }
    else
      fastWalk xs (y :: ys) o
        (if a.sw = 3 then { a with compat := add a.compat o.disjointCoeff, cnt := { a.cnt with disjoint := a.cnt.disjoint + 1 } }
         else if a.sw = 1 then { a with compat := add a.compat o.excessCoeff, cnt := { a.cnt with excess := a.cnt.excess + 1 } }
         else if a.sw = 2 then { a with sw := 3, compat := add a.compat o.disjointCoeff, cnt := { a.cnt with disjoint := a.cnt.disjoint + 1 } }
         else { a with sw := 1, compat := add a.compat o.excessCoeff, cnt := { a.cnt with excess := a.cnt.excess + 1 } })
termination_by l1 l2 => l1.length + l2.length

def compatFastAcc (o : CompatOpts W) (g og : Genome W) : FastAcc W :=
  fastWalk g.genes.reverse og.genes.reverse o ⟨0, zero, zero, 0, {}⟩

/-- `compatFast` -/
def compatFast (o : CompatOpts W) (g og : Genome W) : W :=
  match g.genes, og.genes with
  | [], [] => zero
  | [], ys => mul (ofInt ys.length) o.excessCoeff
  | xs, [] => mul (ofInt xs.length) o.excessCoeff
  | _, _ =>
    let a := compatFastAcc o g og
    if a.numMatching > 0 then
      add a.compat (div (mul a.mutDiff o.mutdiffCoeff) (ofInt a.numMatching))
    else a.compat

/-- `Genome.compatibility` -/
def compatibility (o : CompatOpts W) (g og : Genome W) : W :=
  if o.linear then compatLinear o g og else compatFast o g og

end GoNeat
