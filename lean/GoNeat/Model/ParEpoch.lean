/-
  C16(b), second part: the structural mutators and the epoch of the PARALLEL executor as computations that touch
  the shared registry (`Population.{innovations,nextInnovNum,nextNodeId}`) only through the four operations the Go
  code has - exactly at the granularity at which they are atomic:

      Innovations()            snapshot of the records (slice header under the mutex)          `Prog.snap`
      NextNodeId()             atomic.AddInt32, returns the NEW value                           `Prog.nextNode`
      NextInnovationNumber()   atomic.AddInt64, returns the NEW value                           `Prog.nextInn`
      StoreInnovation(i)       append under the mutex                                           `Prog.store`

  Everything between two such calls is pure, thread-local computation (the genome being mutated is owned by the
  goroutine).  `mutateAddLinkP` / `mutateAddNodeP` / `mutateConnectSensorsP` are `mutateAddLink` / `mutateAddNode` /
  `mutateConnectSensors` of Model/Mutate.lean with the registry accesses made explicit, in the order of
  genome_mutate.go (lookup in the SNAPSHOT; if nothing matches: random draws, `NextNodeId`?, `NextInnovationNumber`*,
  `StoreInnovation`).  `Prog.run` executes the operations back to back on one registry = the atomic model
  (Proofs/ParFrameAtomic.lean proves the equalities).  `pstep`/`runSched`: ANY scheduler list over any number of
  threads; each pick lets one thread perform ONE registry operation (with the pure computation up to its next one).

  CORE LEAN ONLY.
-/
import GoNeat.Model.Epoch

namespace GoNeat.C16
open GoNeat Scalar
variable {W : Type} [Scalar W]

/-- a thread-local computation interrupted by registry operations -/
inductive Prog (W : Type) (α : Type) where
  | done (a : α)
  | snap (k : List (Innov W) → Prog W α)
  | nextNode (k : Int → Prog W α)
  | nextInn (k : Int → Prog W α)
  | store (i : Innov W) (k : Prog W α)

namespace Prog
variable {α β : Type}

/-- ONE registry operation (a finished computation stays finished) -/
def step : Prog W α → Reg W → Prog W α × Reg W
  | .done a, reg => (.done a, reg)
  | .snap k, reg => (k reg.records, reg)
  | .nextNode k, reg => (k reg.nextNodeId.1, reg.nextNodeId.2)
  | .nextInn k, reg => (k reg.nextInnovation.1, reg.nextInnovation.2)
  | .store i k, reg => (k, reg.store i)

/-- all operations back to back on one registry: the atomic (sequential) reading -/
def run : Prog W α → Reg W → α × Reg W
  | .done a, reg => (a, reg)
  | .snap k, reg => (k reg.records).run reg
  | .nextNode k, reg => (k reg.nextNodeId.1).run reg.nextNodeId.2
  | .nextInn k, reg => (k reg.nextInnovation.1).run reg.nextInnovation.2
  | .store i k, reg => k.run (reg.store i)

def bind : Prog W α → (α → Prog W β) → Prog W β
  | .done a, f => f a
  | .snap k, f => .snap (fun r => (k r).bind f)
  | .nextNode k, f => .nextNode (fun n => (k n).bind f)
  | .nextInn k, f => .nextInn (fun n => (k n).bind f)
  | .store i k, f => .store i (k.bind f)

def result? : Prog W α → Option α
  | .done a => some a
  | _ => none

end Prog

/-- result of a structural mutator without the registry: genome, success flag, rest of the random stream -/
abbrev MRes (W : Type) := Except Stop ((Genome W × Bool) × List Nat)

/-- the atomic model's result type from a `run` -/
def packM (x : MRes W × Reg W) : R (Genome W × Reg W × Bool) :=
  match x.1 with
  | .error e => .error e
  | .ok ((g, b), rs) => .ok ((g, x.2, b), rs)

/-! ### mutateAddLink -/

def mutateAddLinkP (g : Genome W) (o : MutOpts W) (rs : List Nat) : Prog W (MRes W) :=
  if g.genes.isEmpty then .done (.error (.error "genesis:noGenes"))
  else if !g.nodes.any (·.kind == Kind.output) then .done (.error (.error "genesis:noOutputs"))
  else
    match Rand.float64 (W := W) rs with
    | .error e => .done (.error e)
    | .ok (f, rs1) =>
      let doRecur := lt f o.recurOnlyProb
      let fns := (g.nodes.takeWhile (·.isSensor)).length
      match findOpenLink g fns doRecur o.newLinkTries none rs1 with
      | .error e => .done (.error e)
      | .ok ((_, false), rs2) => .done (.ok ((g, false), rs2))
      | .ok ((none, true), rs2) => .done (.ok ((g, true), rs2))
      | .ok ((some (n1, n2), true), rs2) =>
        -- `for _, inn := range innovations.Innovations()`
        .snap fun recs =>
        match recs.find? (fun i => i.typ == 2 && i.inId == n1.id && i.outId == n2.id && i.recur == doRecur) with
        | some inn =>
          match traitAt g inn.traitNum with
          | .error e => .done (.error e)
          | .ok tr =>
            let gene : Gene W := { inn := inn.inn, src := n1.id, dst := n2.id, recur := doRecur, w := inn.w,
                                   mnum := zero, en := true, trait := tr }
            if g.haveGene gene then .done (.ok ((g, false), rs2))
            else if n1.id == n2.id && !doRecur then .done (.error (.error "wrongGeneCreated"))
            else .done (.ok (({ g with genes := geneInsert g.genes gene }, true), rs2))
        | none =>
          match Rand.intn g.traits.length rs2 with
          | .error e => .done (.error e)
          | .ok (traitNum, rs3) =>
            match newLinkWeight (W := W) rs3 with
            | .error e => .done (.error e)
            | .ok (w, rs4) =>
              -- `nextInnovId := innovations.NextInnovationNumber()`
              .nextInn fun innId =>
              match traitAt g traitNum with
              | .error e => .done (.error e)
              | .ok tr =>
                let gene : Gene W := { inn := innId, src := n1.id, dst := n2.id, recur := doRecur, w := w,
                                       mnum := w, en := true, trait := tr }
                let rec_ : Innov W := { typ := 2, inId := n1.id, outId := n2.id, inn := innId, inn2 := 0, w := w,
                                        traitNum := traitNum, newNode := 0, oldInn := 0, recur := doRecur }
                -- `innovations.StoreInnovation(*innovation)`, then the sanity check
                .store rec_
                  (if n1.id == n2.id && !doRecur then .done (.error (.error "wrongGeneCreated"))
                   else .done (.ok (({ g with genes := geneInsert g.genes gene }, true), rs4)))

/-! ### mutateAddNode -/

def mutateAddNodeP (g : Genome W) (o : MutOpts W) (rs : List Nat) : Prog W (MRes W) :=
  if g.genes.isEmpty then .done (.ok ((g, false), rs))
  else
    let pick := if g.genes.length < 15 then pickSplitSmall g g.genes 0 rs else pickSplitLarge g 20 rs
    match pick with
    | .error e => .done (.error e)
    | .ok (none, rs1) => .done (.ok ((g, false), rs1))
    | .ok (some k, rs1) =>
      match g.genes[k]? with
      | none => .done (.error (.error "panic:index"))
      | some gene =>
        let g1 : Genome W := { g with genes := setEnabledAt g.genes k false }
        .snap fun recs =>
        match recs.find? (fun i => i.typ == 1 && i.inId == gene.src && i.outId == gene.dst && i.oldInn == gene.inn) with
        | some inn =>
          match traitAt g1 0 with
          | .error e => .done (.error e)
          | .ok tr0 =>
            let node : Node := { id := inn.newNode, kind := Kind.hidden, act := defaultActivation, trait := tr0 }
            let gene1 : Gene W := { inn := inn.inn, src := gene.src, dst := node.id, recur := gene.recur, w := one,
                                    mnum := zero, en := true, trait := gene.trait }
            let gene2 : Gene W := { inn := inn.inn2, src := node.id, dst := gene.dst, recur := false, w := gene.w,
                                    mnum := zero, en := true, trait := gene.trait }
            if g1.hasNode node.id then .done (.ok ((g1, false), rs1))
            else
              .done (.ok (({ g1 with genes := geneInsert (geneInsert g1.genes gene1) gene2, nodes := nodeInsert g1.nodes node },
                           true), rs1))
        | none =>
          -- `newNodeId := nodeIdGenerator.NextNodeId()`
          .nextNode fun newNodeId =>
          match traitAt g1 0 with
          | .error e => .done (.error e)
          | .ok tr0 =>
            match randomNodeActivationType o rs1 with
            | .error e => .done (.error e)
            | .ok (act, rs2) =>
              let node : Node := { id := newNodeId, kind := Kind.hidden, act := act, trait := tr0 }
              -- two separate `NextInnovationNumber()` calls: the numbers need not be consecutive
              .nextInn fun inn1 =>
              .nextInn fun inn2 =>
              let gene1 : Gene W := { inn := inn1, src := gene.src, dst := node.id, recur := gene.recur, w := one,
                                      mnum := zero, en := true, trait := gene.trait }
              let gene2 : Gene W := { inn := inn2, src := node.id, dst := gene.dst, recur := false, w := gene.w,
                                      mnum := zero, en := true, trait := gene.trait }
              let rec_ : Innov W := { typ := 1, inId := gene.src, outId := gene.dst, inn := inn1, inn2 := inn2, w := zero,
                                      traitNum := 0, newNode := newNodeId, oldInn := gene.inn, recur := false }
              .store rec_
                (.done (.ok (({ g1 with genes := geneInsert (geneInsert g1.genes gene1) gene2, nodes := nodeInsert g1.nodes node },
                              true), rs2)))

/-! ### mutateConnectSensors -/

/-- result of one loop iteration: `none` = early `return false, nil` -/
abbrev CRes (W : Type) := Except Stop (Option (Genome W × Bool) × List Nat)

def connectOneP (sensor : Node) (output : Node) (g : Genome W) (linkAdded : Bool) (rs : List Nat) : Prog W (CRes W) :=
  if g.genes.any (fun x => x.src == sensor.id && x.dst == output.id) then .done (.ok (some (g, linkAdded), rs))
  else
    .snap fun recs =>
    match recs.find? (fun i => i.typ == 2 && i.inId == sensor.id && i.outId == output.id && !i.recur) with
    | some inn =>
      match traitAt g inn.traitNum with
      | .error e => .done (.error e)
      | .ok tr =>
        let gene : Gene W := { inn := inn.inn, src := sensor.id, dst := output.id, recur := false, w := inn.w,
                               mnum := zero, en := true, trait := tr }
        if g.haveGene gene then .done (.ok (none, rs))
        else .done (.ok (some ({ g with genes := geneInsert g.genes gene }, true), rs))
    | none =>
      match Rand.intn g.traits.length rs with
      | .error e => .done (.error e)
      | .ok (traitNum, rs1) =>
        match newLinkWeight (W := W) rs1 with
        | .error e => .done (.error e)
        | .ok (w, rs2) =>
          .nextInn fun innId =>
          match traitAt g traitNum with
          | .error e => .done (.error e)
          | .ok tr =>
            let gene : Gene W := { inn := innId, src := sensor.id, dst := output.id, recur := false, w := w,
                                   mnum := w, en := true, trait := tr }
            let rec_ : Innov W := { typ := 2, inId := sensor.id, outId := output.id, inn := innId, inn2 := 0, w := w,
                                    traitNum := traitNum, newNode := 0, oldInn := 0, recur := false }
            .store rec_ (.done (.ok (some ({ g with genes := geneInsert g.genes gene }, true), rs2)))

def connectLoopP (sensor : Node) : List Node → Genome W → Bool → List Nat → Prog W (MRes W)
  | [], g, added, rs => .done (.ok ((g, added), rs))
  | o :: os, g, added, rs =>
    (connectOneP sensor o g added rs).bind fun r =>
      match r with
      | .error e => .done (.error e)
      | .ok (none, rs') => .done (.ok ((g, false), rs'))
      | .ok (some (g', added'), rs') => connectLoopP sensor os g' added' rs'

def mutateConnectSensorsP (g : Genome W) (rs : List Nat) : Prog W (MRes W) :=
  if g.genes.isEmpty then .done (.error (.error "noGenes"))
  else
    let sensors := g.nodes.filter (·.isSensor)
    let outputs := g.nodes.filter (fun n => !n.isSensor)
    let disconnected := sensors.filter (fun s => !g.genes.any (fun x => x.src == s.id))
    if disconnected.isEmpty then .done (.ok ((g, false), rs))
    else
      match Rand.intn disconnected.length rs with
      | .error e => .done (.error e)
      | .ok (k, rs1) =>
        match disconnected[k]? with
        | none => .done (.error (.error "panic:index"))
        | some sensor => connectLoopP sensor outputs g false rs1

/-! ### threads under an arbitrary scheduler -/

structure PState (W : Type) (α : Type) where
  reg : Reg W
  threads : List (Prog W α)

/-- the scheduler picks thread `i`: it performs its next registry operation (a pick of a finished or non-existent
    thread is a no-op) -/
def pstep {α : Type} (st : PState W α) (i : Nat) : PState W α :=
  match st.threads[i]? with
  | none => st
  | some p => { reg := (p.step st.reg).2, threads := st.threads.set i (p.step st.reg).1 }

def runSched {α : Type} (st : PState W α) (sched : List Nat) : PState W α := sched.foldl pstep st

/-- which structural mutation a thread performs on its own genome -/
inductive MutKind (W : Type) where
  | addLink (o : MutOpts W)
  | addNode (o : MutOpts W)
  | connectSensors

def MutKind.prog (k : MutKind W) (g : Genome W) (rs : List Nat) : Prog W (MRes W) :=
  match k with
  | .addLink o => mutateAddLinkP g o rs
  | .addNode o => mutateAddNodeP g o rs
  | .connectSensors => mutateConnectSensorsP g rs

/-- the same mutation by the atomic model -/
def MutKind.atomic (k : MutKind W) (g : Genome W) (reg : Reg W) (rs : List Nat) : R (Genome W × Reg W × Bool) :=
  match k with
  | .addLink o => mutateAddLink g reg o rs
  | .addNode o => mutateAddNode g reg o rs
  | .connectSensors => mutateConnectSensors g reg rs

/-! ### one species goroutine: `Species.reproduce` with the registry accesses explicit -/

/-- force the success flag of a structural mutator to `true` (the callers ignore it: `mutateAddNode(...)` result dropped) -/
def flagTrue (r : MRes W) : Prog W (MRes W) :=
  match r with
  | .error e => .done (.error e)
  | .ok ((g', _), rs') => .done (.ok ((g', true), rs'))

/-- the structural stage of `mutateBaby` -/
def structStageP (o : EpochOpts W) (g : Genome W) (f1 : W) (rs1 : List Nat) : Prog W (MRes W) :=
  if lt f1 o.mutateAddNodeProb then (mutateAddNodeP g o.mopts rs1).bind flagTrue
  else
    match Rand.float64 (W := W) rs1 with
    | .error e => .done (.error e)
    | .ok (f2, rs2) =>
      if lt f2 o.mutateAddLinkProb then (mutateAddLinkP g o.mopts rs2).bind flagTrue
      else
        match Rand.float64 (W := W) rs2 with
        | .error e => .done (.error e)
        | .ok (f3, rs3) =>
          if lt f3 o.mutateConnectSensors then mutateConnectSensorsP g rs3
          else .done (.ok ((g, false), rs3))

/-- the parametric stage of `mutateBaby` (no registry access) -/
def paramStage (o : EpochOpts W) (r : MRes W) : Prog W (MRes W) :=
  match r with
  | .error e => .done (.error e)
  | .ok ((g', true), rs') => .done (.ok ((g', true), rs'))
  | .ok ((g', false), rs') =>
    match mutateAllNonstructural g' o.mopts rs' with
    | .error e => .done (.error e)
    | .ok (g'', rs'') => .done (.ok ((g'', false), rs''))

/-- `mutateBaby` of Model/Epoch.lean -/
def mutateBabyP (o : EpochOpts W) (g : Genome W) (rs : List Nat) : Prog W (MRes W) :=
  match Rand.float64 (W := W) rs with
  | .error e => .done (.error e)
  | .ok (f1, rs1) => (structStageP o g f1 rs1).bind (paramStage o)

abbrev SRes (W : Type) := Except Stop (ReproState W × List Nat)

/-- the baby is appended; the `reg` field of the running state is not used by the non-atomic model -/
def finishP (generation : Int) (g : Genome W) (mutStruct mateBaby : Bool) (popChild : Bool) (hf : W) (st : ReproState W) :
    ReproState W :=
  let baby : Org W := { newOrganism st.nextUid g generation with
                        mutStructBaby := mutStruct, mateBaby := mateBaby, isPopChampionChild := popChild, highestFitness := hf }
  { st with nextUid := st.nextUid + 1, babies := st.babies ++ [baby] }

/-- the super-champion mutation -/
def superChampMutP (o : EpochOpts W) (g0 : Genome W) (superChamp : Int) (rs : List Nat) : Prog W (MRes W) :=
  if superChamp > 1 then
    match Rand.float64 (W := W) rs with
    | .error e => .done (.error e)
    | .ok (f, rs1) =>
      if lt f (ofDec 8 1) || eq o.mutateAddLinkProb zero then
        match mutateLinkWeights g0 o.mopts.weightMutPower one .gaussian rs1 with
        | .error e => .done (.error e)
        | .ok (g1, rs2) => .done (.ok ((g1, false), rs2))
      else (mutateAddLinkP g0 o.mopts rs1).bind flagTrue
  else .done (.ok ((g0, false), rs))

/-- the mate of `mom` (same species, or the champion of another species) -/
def pickDad (o : EpochOpts W) (s : Species W) (sorted : List (Species W)) (f2 : W) (rs3 : List Nat) : R (Org W) :=
  if gt f2 o.interspeciesMateRate then
    match Rand.intn s.orgs.length rs3 with
    | .error e => .error e
    | .ok (k2, rs4) =>
      match s.orgs[k2]? with
      | none => .error (.error "panic:index")
      | some d => .ok (d, rs4)
  else
    match pickOtherSpecies s sorted 5 s rs3 with
    | .error e => .error e
    | .ok (sp, rs4) =>
      match sp.orgs.head? with
      | none => .error (.error "panic:index")
      | some d => .ok (d, rs4)

/-- the crossover -/
def mateChild (o : EpochOpts W) (mom dad : Org W) (count : Int) (f3 : W) (rs5 : List Nat) : R (Genome W) :=
  if lt f3 o.mateMultipointProb then
    mateMultipoint mom.genome dad.genome count mom.originalFitness dad.originalFitness rs5
  else
    match Rand.float64 (W := W) rs5 with
    | .error e => .error e
    | .ok (f4, rs6) =>
      if lt f4 (div o.mateMultipointAvgProb (add o.mateMultipointAvgProb o.mateSinglepointProb)) then
        mateMultipointAvg mom.genome dad.genome count mom.originalFitness dad.originalFitness rs6
      else mateSinglePoint mom.genome dad.genome count rs6

/-- one offspring of `Species.reproduce` -/
def reproduceOneP (o : EpochOpts W) (generation : Int) (s : Species W) (sorted : List (Species W)) (champ : Org W)
    (count : Int) (st : ReproState W) (rs : List Nat) : Prog W (SRes W) :=
  let poolSize := s.orgs.length
  if st.superChamp > 0 then
    match champ.genome.duplicate count with
    | .error e => .done (.error e)
    | .ok g0 =>
      (superChampMutP o g0 st.superChamp rs).bind fun r =>
        match r with
        | .error e => .done (.error e)
        | .ok ((g1, ms), rs') =>
          let last := st.superChamp == 1 && champ.isPopChampion
          let st' := finishP generation g1 ms false last (if last then champ.originalFitness else zero) st
          .done (.ok ({ st' with superChamp := st.superChamp - 1 }, rs'))
  else if !st.champCloneDone && s.expectedOffspring > 5 then
    match champ.genome.duplicate count with
    | .error e => .done (.error e)
    | .ok g0 => .done (.ok ({ finishP generation g0 false false false zero st with champCloneDone := true }, rs))
  else
    match Rand.float64 (W := W) rs with
    | .error e => .done (.error e)
    | .ok (f, rs1) =>
      if lt f o.mutateOnlyProb || poolSize == 1 then
        match Rand.intn poolSize rs1 with
        | .error e => .done (.error e)
        | .ok (k, rs2) =>
          match s.orgs[k]? with
          | none => .done (.error (.error "panic:index"))
          | some mom =>
            match mom.genome.duplicate count with
            | .error e => .done (.error e)
            | .ok g0 =>
              (mutateBabyP o g0 rs2).bind fun r =>
                match r with
                | .error e => .done (.error e)
                | .ok ((g1, ms), rs3) => .done (.ok (finishP generation g1 ms false false zero st, rs3))
      else
        match Rand.intn poolSize rs1 with
        | .error e => .done (.error e)
        | .ok (k, rs2) =>
          match s.orgs[k]? with
          | none => .done (.error (.error "panic:index"))
          | some mom =>
            match Rand.float64 (W := W) rs2 with
            | .error e => .done (.error e)
            | .ok (f2, rs3) =>
              match pickDad o s sorted f2 rs3 with
              | .error e => .done (.error e)
              | .ok (dad, rs4) =>
                match Rand.float64 (W := W) rs4 with
                | .error e => .done (.error e)
                | .ok (f3, rs5) =>
                  match mateChild o mom dad count f3 rs5 with
                  | .error e => .done (.error e)
                  | .ok (child, rs7) =>
                    match Rand.float64 (W := W) rs7 with
                    | .error e => .done (.error e)
                    | .ok (f5, rs8) =>
                      if gt f5 o.mateOnlyProb || dad.genome.id == mom.genome.id ||
                         eq (compatibility o.compat dad.genome mom.genome) zero then
                        (mutateBabyP o child rs8).bind fun r =>
                          match r with
                          | .error e => .done (.error e)
                          | .ok ((g1, ms), rs9) => .done (.ok (finishP generation g1 ms true false zero st, rs9))
                      else .done (.ok (finishP generation child false true false zero st, rs8))

def reproduceLoopP (o : EpochOpts W) (generation : Int) (s : Species W) (sorted : List (Species W)) (champ : Org W) :
    Nat → Int → ReproState W → List Nat → Prog W (SRes W)
  | 0, _, st, rs => .done (.ok (st, rs))
  | n + 1, count, st, rs =>
    (reproduceOneP o generation s sorted champ count st rs).bind fun r =>
      match r with
      | .error e => .done (.error e)
      | .ok (st', rs') => reproduceLoopP o generation s sorted champ n (count + 1) st' rs'

/-- result of a species goroutine: the babies, the next allocation id (ghost) and the rest of its random numbers -/
abbrev BRes (W : Type) := Except Stop ((List (Org W) × Nat) × List Nat)

/-- `Species.reproduce` as run by one goroutine of the parallel executor (`reg0` only fills the unused `reg` field of
    the running state) -/
def reproduceSpeciesP (o : EpochOpts W) (generation : Int) (s : Species W) (sorted : List (Species W)) (reg0 : Reg W)
    (nextUid : Nat) (rs : List Nat) : Prog W (BRes W) :=
  match s.orgs.head? with
  | none =>
    if s.expectedOffspring > 0 then .done (.error (.error "reproduceEmptySpecies")) else .done (.error (.error "panic:index"))
  | some champ =>
    let st0 : ReproState W := { superChamp := champ.superChampOffspring, champCloneDone := false, reg := reg0,
                                nextUid := nextUid, babies := [] }
    (reproduceLoopP o generation s sorted champ s.expectedOffspring.toNat 0 st0 rs).bind fun r =>
      match r with
      | .error e => .done (.error e)
      | .ok (st, rs') => .done (.ok ((st.babies, st.nextUid), rs'))

/-! ### the epoch of the parallel executor (population_epoch.go, `ParallelPopulationEpochExecutor`) -/

/-- a baby as the main goroutine decodes it from the wire (`Organism.UnmarshalBinary`): a fresh object (allocation id
    `uid`) with the fields the wire format carries - fitness, generation, highest fitness, the champion-child flag and
    the genome (plain genome format, C15) -/
def decodeBaby (uid : Nat) (b : Org W) : Org W :=
  { newOrganism uid b.genome b.generation with
    fitness := b.fitness, highestFitness := b.highestFitness, isPopChampionChild := b.isPopChampionChild }

def decodeAll : Nat → List (Org W) → List (Org W)
  | _, [] => []
  | uid, b :: bs => decodeBaby uid b :: decodeAll (uid + 1) bs

/-- the results in the order the channel delivers them (`arrival` lists goroutine indices); the first error wins -/
def collect (threads : List (Prog W (BRes W))) : List Nat → Except Stop (List (Org W))
  | [] => .ok []
  | t :: ts =>
    match threads[t]? with
    | some (.done (.ok ((babies, _), _))) =>
      match collect threads ts with
      | .error e => .error e
      | .ok rest => .ok (babies ++ rest)
    | some (.done (.error e)) => .error e
    | _ => .error (.error "par:goroutineNotFinished")

/-- everything the sequential model does not determine: the random numbers each goroutine happens to get from the
    shared (locked) source, the interleaving of the registry operations, the order of arrival on the channel -/
structure ParSchedule where
  streams : List (List Nat)
  sched : List Nat
  arrival : List Nat

/-- the goroutines of the parallel reproduction phase: one per species, each with the random numbers it happens to get -/
def speciesThreads (o : EpochOpts W) (generation : Int) (p1 : Pop W) (ex : ExecState) (streams : List (List Nat)) :
    List (Prog W (BRes W)) :=
  p1.species.zipIdx.map (fun (x : Species W × Nat) =>
    reproduceSpeciesP o generation x.1 (ex.sortedIds.filterMap (fun i => p1.species.find? (·.id == i))) p1.reg p1.nextUid
      (streams.getD x.2 []))

/-- `ParallelPopulationEpochExecutor.reproduce`: one goroutine per species over the shared registry, `wg.Wait()`, the
    babies decoded in order of arrival, size check, `speciate`.  (`wg.Wait()` + `range` over the closed channel deliver
    every result exactly once: `arrival` must be a permutation of the goroutine indices and every goroutine must have
    finished - schedules that do not satisfy this are not executions and are mapped to an error.) -/
def parReproducePhase (o : EpochOpts W) (generation : Int) (p : Pop W) (ex : ExecState) (ps : ParSchedule) : Except Stop (Pop W) :=
  let threads := speciesThreads o generation p ex ps.streams
  let st := runSched ({ reg := p.reg, threads := threads } : PState W (BRes W)) ps.sched
  if ¬ ps.arrival.Perm (List.range threads.length) then .error (.error "par:arrivalNotAPermutation")
  else
    match collect st.threads ps.arrival with
    | .error e => .error e
    | .ok babies =>
      if babies.length ≠ o.popSize then .error (.error "progenySizeMismatch")
      else
        speciate o { p with reg := st.reg } (decodeAll p.nextUid babies)

/-- `ParallelPopulationEpochExecutor.NextEpoch`: sequential preparation, parallel reproduction, sequential finalisation
    (the ghost allocation counter moves past the `PopSize` decoded babies) -/
def parEpoch (o : EpochOpts W) (generation : Int) (p : Pop W) (ps : ParSchedule) : Rand (Pop W) := fun rs =>
  match prepareForReproduction o p rs with
  | .error e => .error e
  | .ok ((p1, ex), rs1) =>
    match parReproducePhase o generation p1 ex ps with
    | .error e => .error e
    | .ok p2 => .ok ({ finalizeReproduction p2 with nextUid := p1.nextUid + o.popSize }, rs1)

end GoNeat.C16
