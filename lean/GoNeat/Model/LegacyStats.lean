/-
  Frozen copy of `Floats.{Median,Q25,Q75}` as they were BEFORE `fix:` commit 227b966 (DESIGN §4, F6): the series was
  handed to `stat.Quantile` in the caller's order, and gonum panics on unsorted data.  Exists only to host the
  machine-checked counterexample in `Props/C19.lean`; nothing else may import it.
-/
import GoNeat.Model.Stats

namespace GoNeat.Stats.Legacy
open GoNeat GoNeat.Stats

variable {W : Type} [Scalar W]

/-- pre-fix: `stat.Quantile(p, stat.Empirical, x, nil)` on the series as recorded -/
def fQuantile (p : W) (xs : List W) : Except QErr (Option W) := fQuantileWith id p xs

def fMedian (xs : List W) : Except QErr (Option W) := fQuantile pMedian xs

end GoNeat.Stats.Legacy
