/-
  Mutation operators (neat/genetics/genome_mutate.go, neat/trait.go `Mutate`, neat/neat.go
  `RandomNodeActivationType`, neat/math/math.go `SingleRouletteThrow`) and the innovation registry
  (`Population.{innovations,nextInnovNum,nextNodeId}`, neat/genetics/innovation.go).

  Every structural mutator is written as: choose (random) → resolve against the registry → apply,
  mirroring the three stages of the Go code.  All random draws are taken from the explicit raw stream in
  the order the Go code takes them.
-/
import GoNeat.Model.Genome

namespace GoNeat
open Scalar
variable {W : Type} [Scalar W]

/-! ### innovation registry -/

/-- `genetics.Innovation` (typ: 1 = new node, 2 = new link) -/
structure Innov (W : Type) where
  typ : Nat
  inId : Int
  outId : Int
  inn : Int
  inn2 : Int
  w : W
  traitNum : Int
  newNode : Int
  oldInn : Int
  recur : Bool
deriving Repr

/-- the innovation observer + node id generator part of `Population` -/
structure Reg (W : Type) where
  records : List (Innov W)
  /-- `nextInnovNum` (the last number handed out; `NextInnovationNumber` pre-increments) -/
  nextInn : Int
  /-- `nextNodeId` (pre-incremented by `NextNodeId`) -/
  nextNode : Int
deriving Repr

def Reg.nextInnovation (r : Reg W) : Int × Reg W := (r.nextInn + 1, { r with nextInn := r.nextInn + 1 })
def Reg.nextNodeId (r : Reg W) : Int × Reg W := (r.nextNode + 1, { r with nextNode := r.nextNode + 1 })
def Reg.store (r : Reg W) (i : Innov W) : Reg W := { r with records := r.records ++ [i] }

/-- options read by the mutators -/
structure MutOpts (W : Type) where
  recurOnlyProb : W
  newLinkTries : Nat
  activators : List Nat
  activatorProbs : List W
  traitMutationPower : W
  traitParamMutProb : W
  weightMutPower : W
  mutateRandomTraitProb : W
  mutateLinkTraitProb : W
  mutateNodeTraitProb : W
  mutateLinkWeightsProb : W
  mutateToggleEnableProb : W
  mutateGeneReenableProb : W

/-- `g.Traits[i]` as a trait reference; out of range panics -/
def traitAt (g : Genome W) (i : Int) : Except Stop (Option Int) :=
  if i < 0 then .error (.error "panic:index")
  else match g.traits[i.toNat]? with
    | none => .error (.error "panic:index")
    | some t => .ok (some t.id)

/-- the new weight of a novel link: `float64(RandSign()) * rand.Float64() * 10.0` -/
def newLinkWeight : Rand W := fun rs =>
  match Rand.signedUnit (W := W) rs with
  | .error e => .error e
  | .ok (x, rs') => .ok (mul x (ofInt 10), rs')

/-! ### SingleRouletteThrow / RandomNodeActivationType -/

def rouletteScan (throwValue : W) : List W → W → Nat → Option Nat
  | [], _, _ => none
  | v :: vs, acc, i =>
    let acc' := add acc v
    if le throwValue acc' then some i else rouletteScan throwValue vs acc' (i + 1)

/-- `math.SingleRouletteThrow` -/
def singleRouletteThrow (probs : List W) : Rand (Option Nat) := fun rs =>
  let total := probs.foldl add zero
  match Rand.float64 (W := W) rs with
  | .error e => .error e
  | .ok (f, rs') => .ok (rouletteScan (mul f total) probs zero 0, rs')

/-- `Options.RandomNodeActivationType` -/
def randomNodeActivationType (o : MutOpts W) : Rand Nat := fun rs =>
  match o.activators with
  | [] => .error (.error "noActivators")
  | [a] => .ok (a, rs)
  | _ =>
    if o.activators.length ≠ o.activatorProbs.length then .error (.error "activatorProbsMismatch")
    else
      match singleRouletteThrow o.activatorProbs rs with
      | .error e => .error e
      | .ok (none, _) => .error (.error "rouletteFailed")
      | .ok (some i, rs') =>
        match o.activators[i]? with
        | none => .error (.error "rouletteFailed")
        | some a => .ok (a, rs')

/-! ### mutateConnectSensors -/

/-- one iteration of the loop over non-sensor nodes.  Result: `none` = early `return false, nil`
    (innovation already in this genome), otherwise the updated genome/registry and the `linkAdded` flag. -/
def connectOne (sensor : Node) (output : Node) (g : Genome W) (reg : Reg W) (linkAdded : Bool) :
    Rand (Option (Genome W × Reg W × Bool)) := fun rs =>
  if g.genes.any (fun x => x.src == sensor.id && x.dst == output.id) then .ok (some (g, reg, linkAdded), rs)
  else
    match reg.records.find? (fun i => i.typ == 2 && i.inId == sensor.id && i.outId == output.id && !i.recur) with
    | some inn =>
      match traitAt g inn.traitNum with
      | .error e => .error e
      | .ok tr =>
        let gene : Gene W := { inn := inn.inn, src := sensor.id, dst := output.id, recur := false, w := inn.w,
                               mnum := zero, en := true, trait := tr }
        if g.haveGene gene then .ok (none, rs)
        else .ok (some ({ g with genes := geneInsert g.genes gene }, reg, true), rs)
    | none =>
      match Rand.intn g.traits.length rs with
      | .error e => .error e
      | .ok (traitNum, rs1) =>
        match newLinkWeight (W := W) rs1 with
        | .error e => .error e
        | .ok (w, rs2) =>
          let (innId, reg1) := reg.nextInnovation
          match traitAt g traitNum with
          | .error e => .error e
          | .ok tr =>
            let gene : Gene W := { inn := innId, src := sensor.id, dst := output.id, recur := false, w := w,
                                   mnum := w, en := true, trait := tr }
            let rec_ : Innov W := { typ := 2, inId := sensor.id, outId := output.id, inn := innId, inn2 := 0, w := w,
                                    traitNum := traitNum, newNode := 0, oldInn := 0, recur := false }
            .ok (some ({ g with genes := geneInsert g.genes gene }, reg1.store rec_, true), rs2)

def connectLoop (sensor : Node) : List Node → Genome W → Reg W → Bool → Rand (Genome W × Reg W × Bool)
  | [], g, reg, added, rs => .ok ((g, reg, added), rs)
  | o :: os, g, reg, added, rs =>
    match connectOne sensor o g reg added rs with
    | .error e => .error e
    | .ok (none, rs') => .ok ((g, reg, false), rs')
    | .ok (some (g', reg', added'), rs') => connectLoop sensor os g' reg' added' rs'

/-- `Genome.mutateConnectSensors` -/
def mutateConnectSensors (g : Genome W) (reg : Reg W) : Rand (Genome W × Reg W × Bool) := fun rs =>
  if g.genes.isEmpty then .error (.error "noGenes")
  else
    let sensors := g.nodes.filter (·.isSensor)
    let outputs := g.nodes.filter (fun n => !n.isSensor)
    let disconnected := sensors.filter (fun s => !g.genes.any (fun x => x.src == s.id))
    if disconnected.isEmpty then .ok ((g, reg, false), rs)
    else
      match Rand.intn disconnected.length rs with
      | .error e => .error e
      | .ok (k, rs1) =>
        match disconnected[k]? with
        | none => .error (.error "panic:index")
        | some sensor => connectLoop sensor outputs g reg false rs1

/-! ### Network.IsRecurrent on the phenotype of the enabled genes -/

/-- sources of the non-recurrent incoming links of node `n` in the phenotype (enabled genes, gene order) -/
def forwardSources (genes : List (Gene W)) (n : Int) : List Int :=
  (genes.filter (fun x => x.en && x.dst == n && !x.recur)).map (·.src)

/-- depth-first search of `Network.IsRecurrent` with the `count/thresh` cut-off, as a worklist loop:
    a call that returns `false` just lets the caller continue with its next link, so the pending calls
    form one flat list in DFS order.  Once `count > thresh` every remaining call returns `false`. -/
def isRecurrentLoop (genes : List (Gene W)) (outId : Int) (thresh : Nat) : Nat → List Int → Nat → Bool
  | 0, _, _ => false
  | _ + 1, [], _ => false
  | fuel + 1, n :: rest, count =>
    if count + 1 > thresh then false
    else if n == outId then true
    else isRecurrentLoop genes outId thresh fuel (forwardSources genes n ++ rest) (count + 1)

/-- `g.Phenotype.IsRecurrent(node1.analog, node2.analog, &count, thresh)` with `thresh = nodesLen²` -/
def isRecurrent (g : Genome W) (inId outId : Int) : Bool :=
  let thresh := g.nodes.length * g.nodes.length
  isRecurrentLoop g.genes outId thresh (thresh + 1) [inId] 0

/-! ### mutateAddLink -/

/-- `for nodeNum1 == nodeNum2 { n1 = Intn(nodesLen); n2 = fns + Intn(nodesLen - fns) }` (starts at 0,0) -/
def pickDistinct (nodesLen fns : Nat) : Nat → Rand (Nat × Nat)
  | 0, _ => .error .outOfRandom
  | fuel + 1, rs =>
    match Rand.intn nodesLen rs with
    | .error e => .error e
    | .ok (n1, rs1) =>
      match Rand.intn (nodesLen - fns) rs1 with
      | .error e => .error e
      | .ok (k, rs2) =>
        let n2 := fns + k
        if n1 == n2 then pickDistinct nodesLen fns fuel rs2 else .ok ((n1, n2), rs2)

/-- one attempt of the search loop: pick the node pair -/
def pickPair (nodesLen fns : Nat) (doRecur : Bool) : Rand (Nat × Nat) := fun rs =>
  if doRecur then
    match Rand.float64 (W := W) rs with
    | .error e => .error e
    | .ok (f, rs1) =>
      if gt f (ofDec 5 1) then
        match Rand.intn (nodesLen - fns) rs1 with
        | .error e => .error e
        | .ok (k, rs2) => .ok ((fns + k, fns + k), rs2)
      else pickDistinct nodesLen fns rs1.length rs1
  else pickDistinct nodesLen fns rs.length rs

/-- the search loop `for tryCount < opts.NewLinkTries`; returns the last examined pair and `found` -/
def findOpenLink (g : Genome W) (fns : Nat) (doRecur : Bool) : Nat → Option (Node × Node) → Rand (Option (Node × Node) × Bool)
  | 0, last, rs => .ok ((last, false), rs)
  | tries + 1, _, rs =>
    match pickPair (W := W) g.nodes.length fns doRecur rs with
    | .error e => .error e
    | .ok ((i1, i2), rs1) =>
      match g.nodes[i1]?, g.nodes[i2]? with
      | some n1, some n2 =>
        let linkExists := n2.isSensor || g.genes.any (fun x => x.src == n1.id && x.dst == n2.id && x.recur == doRecur)
        if linkExists then findOpenLink g fns doRecur tries (some (n1, n2)) rs1
        else
          let recurFlag := isRecurrent g n1.id n2.id
          if (!recurFlag && doRecur) || (recurFlag && !doRecur) then findOpenLink g fns doRecur tries (some (n1, n2)) rs1
          else .ok ((some (n1, n2), true), rs1)
      | _, _ => .error (.error "panic:index")

/-- `Genome.mutateAddLink` (fresh phenotype: `g.Phenotype == nil` on entry) -/
def mutateAddLink (g : Genome W) (reg : Reg W) (o : MutOpts W) : Rand (Genome W × Reg W × Bool) := fun rs =>
  if g.genes.isEmpty then .error (.error "genesis:noGenes")
  else if !g.nodes.any (·.kind == Kind.output) then .error (.error "genesis:noOutputs")
  else
    match Rand.float64 (W := W) rs with
    | .error e => .error e
    | .ok (f, rs1) =>
      let doRecur := lt f o.recurOnlyProb
      let fns := (g.nodes.takeWhile (·.isSensor)).length
      match findOpenLink g fns doRecur o.newLinkTries none rs1 with
      | .error e => .error e
      | .ok ((_, false), rs2) => .ok ((g, reg, false), rs2)
      | .ok ((none, true), rs2) => .ok ((g, reg, true), rs2)
      | .ok ((some (n1, n2), true), rs2) =>
        match reg.records.find? (fun i => i.typ == 2 && i.inId == n1.id && i.outId == n2.id && i.recur == doRecur) with
        | some inn =>
          match traitAt g inn.traitNum with
          | .error e => .error e
          | .ok tr =>
            let gene : Gene W := { inn := inn.inn, src := n1.id, dst := n2.id, recur := doRecur, w := inn.w,
                                   mnum := zero, en := true, trait := tr }
            if g.haveGene gene then .ok ((g, reg, false), rs2)
            else if n1.id == n2.id && !doRecur then .error (.error "wrongGeneCreated")
            else .ok (({ g with genes := geneInsert g.genes gene }, reg, true), rs2)
        | none =>
          match Rand.intn g.traits.length rs2 with
          | .error e => .error e
          | .ok (traitNum, rs3) =>
            match newLinkWeight (W := W) rs3 with
            | .error e => .error e
            | .ok (w, rs4) =>
              let (innId, reg1) := reg.nextInnovation
              match traitAt g traitNum with
              | .error e => .error e
              | .ok tr =>
                let gene : Gene W := { inn := innId, src := n1.id, dst := n2.id, recur := doRecur, w := w,
                                       mnum := w, en := true, trait := tr }
                let rec_ : Innov W := { typ := 2, inId := n1.id, outId := n2.id, inn := innId, inn2 := 0, w := w,
                                        traitNum := traitNum, newNode := 0, oldInn := 0, recur := doRecur }
                if n1.id == n2.id && !doRecur then .error (.error "wrongGeneCreated")
                else .ok (({ g with genes := geneInsert g.genes gene }, reg1.store rec_, true), rs4)

/-! ### mutateAddNode -/

def splittable (g : Genome W) (x : Gene W) : Bool :=
  x.en && (match nodeById g.nodes x.src with
           | some n => n.kind != Kind.bias
           | none => true)

/-- small genomes (< 15 genes): first splittable gene that also passes `rand.Float32() >= 0.3`;
    returns the index of the chosen gene -/
def pickSplitSmall (g : Genome W) : List (Gene W) → Nat → Rand (Option Nat)
  | [], _, rs => .ok (none, rs)
  | x :: xs, i, rs =>
    if splittable g x then
      match Rand.float32Ge03 W rs with
      | .error e => .error e
      | .ok (true, rs') => .ok (some i, rs')
      | .ok (false, rs') => pickSplitSmall g xs (i + 1) rs'
    else pickSplitSmall g xs (i + 1) rs

/-- larger genomes: up to 20 uniform tries -/
def pickSplitLarge (g : Genome W) : Nat → Rand (Option Nat)
  | 0, rs => .ok (none, rs)
  | tries + 1, rs =>
    match Rand.intn g.genes.length rs with
    | .error e => .error e
    | .ok (k, rs') =>
      match g.genes[k]? with
      | none => .error (.error "panic:index")
      | some x => if splittable g x then .ok (some k, rs') else pickSplitLarge g tries rs'

def setEnabledAt (genes : List (Gene W)) (k : Nat) (b : Bool) : List (Gene W) :=
  genes.modify k (fun x => { x with en := b })

/-- activation type code of `network.NewNNode` (SigmoidSteepenedActivation) -/
def defaultActivation : Nat := 4

/-- `Genome.mutateAddNode`.  Note: the chosen gene is disabled before the registry is consulted; on the
    "innovation already in this genome" exit the result is `false` with that gene still disabled. -/
def mutateAddNode (g : Genome W) (reg : Reg W) (o : MutOpts W) : Rand (Genome W × Reg W × Bool) := fun rs =>
  if g.genes.isEmpty then .ok ((g, reg, false), rs)
  else
    let pick := if g.genes.length < 15 then pickSplitSmall g g.genes 0 rs else pickSplitLarge g 20 rs
    match pick with
    | .error e => .error e
    | .ok (none, rs1) => .ok ((g, reg, false), rs1)
    | .ok (some k, rs1) =>
      match g.genes[k]? with
      | none => .error (.error "panic:index")
      | some gene =>
        let g1 : Genome W := { g with genes := setEnabledAt g.genes k false }
        match reg.records.find? (fun i => i.typ == 1 && i.inId == gene.src && i.outId == gene.dst && i.oldInn == gene.inn) with
        | some inn =>
          match traitAt g1 0 with
          | .error e => .error e
          | .ok tr0 =>
            let node : Node := { id := inn.newNode, kind := Kind.hidden, act := defaultActivation, trait := tr0 }
            let gene1 : Gene W := { inn := inn.inn, src := gene.src, dst := node.id, recur := gene.recur, w := one,
                                    mnum := zero, en := true, trait := gene.trait }
            let gene2 : Gene W := { inn := inn.inn2, src := node.id, dst := gene.dst, recur := false, w := gene.w,
                                    mnum := zero, en := true, trait := gene.trait }
            if g1.hasNode node.id then .ok ((g1, reg, false), rs1)
            else
              .ok (({ g1 with genes := geneInsert (geneInsert g1.genes gene1) gene2, nodes := nodeInsert g1.nodes node },
                    reg, true), rs1)
        | none =>
          let (newNodeId, reg1) := reg.nextNodeId
          match traitAt g1 0 with
          | .error e => .error e
          | .ok tr0 =>
            match randomNodeActivationType o rs1 with
            | .error e => .error e
            | .ok (act, rs2) =>
              let node : Node := { id := newNodeId, kind := Kind.hidden, act := act, trait := tr0 }
              let (inn1, reg2) := reg1.nextInnovation
              let (inn2, reg3) := reg2.nextInnovation
              let gene1 : Gene W := { inn := inn1, src := gene.src, dst := node.id, recur := gene.recur, w := one,
                                      mnum := zero, en := true, trait := gene.trait }
              let gene2 : Gene W := { inn := inn2, src := node.id, dst := gene.dst, recur := false, w := gene.w,
                                      mnum := zero, en := true, trait := gene.trait }
              let rec_ : Innov W := { typ := 1, inId := gene.src, outId := gene.dst, inn := inn1, inn2 := inn2, w := zero,
                                      traitNum := 0, newNode := newNodeId, oldInn := gene.inn, recur := false }
              .ok (({ g1 with genes := geneInsert (geneInsert g1.genes gene1) gene2, nodes := nodeInsert g1.nodes node },
                    reg3.store rec_, true), rs2)

/-! ### parametric mutations -/

inductive WeightMutator where
  | gaussian
  | coldGaussian
deriving DecidableEq, Repr

def linkWeightsLoop (power rate : W) (mt : WeightMutator) (severe : Bool) (genesCount endPart : W) :
    List (Gene W) → W → Rand (List (Gene W))
  | [], _, rs => .ok ([], rs)
  | x :: xs, num, rs =>
    -- gaussPoint / coldGaussPoint
    let points : R (W × W) :=
      if severe then .ok ((ofDec 3 1, ofDec 1 1), rs)
      else if ge genesCount (ofInt 10) && gt num endPart then .ok ((ofDec 5 1, ofDec 3 1), rs)
      else
        match Rand.float64 (W := W) rs with
        | .error e => .error e
        | .ok (f, rs') =>
          let gp := sub one rate
          if gt f (ofDec 5 1) then .ok ((gp, sub gp (ofDec 1 1)), rs') else .ok ((gp, gp), rs')
    match points with
    | .error e => .error e
    | .ok ((gaussPoint, coldGaussPoint), rs1) =>
      match Rand.signedUnit (W := W) rs1 with
      | .error e => .error e
      | .ok (su, rs2) =>
        let random := mul su power
        let step : R W :=
          match mt with
          | .gaussian =>
            match Rand.float64 (W := W) rs2 with
            | .error e => .error e
            | .ok (rc, rs3) =>
              if gt rc gaussPoint then .ok (add x.w random, rs3)
              else if gt rc coldGaussPoint then .ok (random, rs3)
              else .ok (x.w, rs3)
          | .coldGaussian => .ok (random, rs2)
        match step with
        | .error e => .error e
        | .ok (w', rs4) =>
          match linkWeightsLoop power rate mt severe genesCount endPart xs (add num one) rs4 with
          | .error e => .error e
          | .ok (xs', rs5) => .ok ({ x with w := w', mnum := w' } :: xs', rs5)

/-- `Genome.mutateLinkWeights` -/
def mutateLinkWeights (g : Genome W) (power rate : W) (mt : WeightMutator) : Rand (Genome W) := fun rs =>
  if g.genes.isEmpty then .error (.error "noGenes")
  else
    match Rand.float64 (W := W) rs with
    | .error e => .error e
    | .ok (f, rs1) =>
      let severe := gt f (ofDec 5 1)
      let genesCount : W := ofInt g.genes.length
      let endPart := mul genesCount (ofDec 8 1)
      match linkWeightsLoop power rate mt severe genesCount endPart g.genes zero rs1 with
      | .error e => .error e
      | .ok (genes, rs2) => .ok ({ g with genes := genes }, rs2)

/-- `Trait.Mutate` -/
def traitMutateParams (power prob : W) : List W → Rand (List W)
  | [], rs => .ok ([], rs)
  | p :: ps, rs =>
    match Rand.float64 (W := W) rs with
    | .error e => .error e
    | .ok (f, rs1) =>
      let stepped : R W :=
        if gt f prob then
          match Rand.signedUnit (W := W) rs1 with
          | .error e => .error e
          | .ok (su, rs2) =>
            let p' := add p (mul su power)
            .ok (if lt p' zero then zero else p', rs2)
        else .ok (p, rs1)
      match stepped with
      | .error e => .error e
      | .ok (p', rs3) =>
        match traitMutateParams power prob ps rs3 with
        | .error e => .error e
        | .ok (ps', rs4) => .ok (p' :: ps', rs4)

/-- `Genome.mutateRandomTrait` -/
def mutateRandomTrait (g : Genome W) (o : MutOpts W) : Rand (Genome W) := fun rs =>
  if g.traits.isEmpty then .error (.error "noTraits")
  else
    match Rand.intn g.traits.length rs with
    | .error e => .error e
    | .ok (k, rs1) =>
      match g.traits[k]? with
      | none => .error (.error "panic:index")
      | some t =>
        match traitMutateParams o.traitMutationPower o.traitParamMutProb t.params rs1 with
        | .error e => .error e
        | .ok (ps, rs2) => .ok ({ g with traits := g.traits.set k { t with params := ps } }, rs2)

/-- `Genome.mutateLinkTrait(times)` -/
def mutateLinkTrait (g : Genome W) : Nat → Rand (Genome W)
  | 0, rs => if g.traits.isEmpty || g.genes.isEmpty then .error (.error "noTraitsOrGenes") else .ok (g, rs)
  | times + 1, rs =>
    if g.traits.isEmpty || g.genes.isEmpty then .error (.error "noTraitsOrGenes")
    else
      match Rand.intn g.traits.length rs with
      | .error e => .error e
      | .ok (t, rs1) =>
        match Rand.intn g.genes.length rs1 with
        | .error e => .error e
        | .ok (k, rs2) =>
          match traitAt g t with
          | .error e => .error e
          | .ok tr => mutateLinkTrait { g with genes := g.genes.modify k (fun x => { x with trait := tr }) } times rs2

/-- `Genome.mutateNodeTrait(times)` -/
def mutateNodeTrait (g : Genome W) : Nat → Rand (Genome W)
  | 0, rs => if g.traits.isEmpty || g.nodes.isEmpty then .error (.error "noTraitsOrNodes") else .ok (g, rs)
  | times + 1, rs =>
    if g.traits.isEmpty || g.nodes.isEmpty then .error (.error "noTraitsOrNodes")
    else
      match Rand.intn g.traits.length rs with
      | .error e => .error e
      | .ok (t, rs1) =>
        match Rand.intn g.nodes.length rs1 with
        | .error e => .error e
        | .ok (k, rs2) =>
          match traitAt g t with
          | .error e => .error e
          | .ok tr => mutateNodeTrait { g with nodes := g.nodes.modify k (fun n => { n with trait := tr }) } times rs2

/-- `Genome.mutateToggleEnable(times)`: an enabled gene is disabled only if another enabled gene leaves the
    same source node; a disabled gene is left alone -/
def mutateToggleEnable (g : Genome W) : Nat → Rand (Genome W)
  | 0, rs => if g.genes.isEmpty then .error (.error "noGenes") else .ok (g, rs)
  | times + 1, rs =>
    if g.genes.isEmpty then .error (.error "noGenes")
    else
      match Rand.intn g.genes.length rs with
      | .error e => .error e
      | .ok (k, rs1) =>
        match g.genes[k]? with
        | none => .error (.error "panic:index")
        | some gene =>
          let g' :=
            if gene.en && g.genes.any (fun c => c.src == gene.src && c.en && c.inn != gene.inn)
            then { g with genes := setEnabledAt g.genes k false } else g
          mutateToggleEnable g' times rs1

def reenableFirst : List (Gene W) → List (Gene W)
  | [] => []
  | x :: xs => if !x.en then { x with en := true } :: xs else x :: reenableFirst xs

/-- `Genome.mutateGeneReEnable` -/
def mutateGeneReEnable (g : Genome W) : Except Stop (Genome W) :=
  if g.genes.isEmpty then .error (.error "noGenes") else .ok { g with genes := reenableFirst g.genes }

/-- `Genome.mutateAllNonstructural` -/
def mutateAllNonstructural (g : Genome W) (o : MutOpts W) : Rand (Genome W) := fun rs =>
  let stage (prob : W) (f : Genome W → Rand (Genome W)) (g : Genome W) : Rand (Genome W) := fun rs =>
    match Rand.float64 (W := W) rs with
    | .error e => .error e
    | .ok (x, rs') => if lt x prob then f g rs' else .ok (g, rs')
  match stage o.mutateRandomTraitProb (fun g => mutateRandomTrait g o) g rs with
  | .error e => .error e
  | .ok (g1, rs1) =>
    match stage o.mutateLinkTraitProb (fun g => mutateLinkTrait g 1) g1 rs1 with
    | .error e => .error e
    | .ok (g2, rs2) =>
      match stage o.mutateNodeTraitProb (fun g => mutateNodeTrait g 1) g2 rs2 with
      | .error e => .error e
      | .ok (g3, rs3) =>
        match stage o.mutateLinkWeightsProb (fun g => mutateLinkWeights g o.weightMutPower one .gaussian) g3 rs3 with
        | .error e => .error e
        | .ok (g4, rs4) =>
          match stage o.mutateToggleEnableProb (fun g => mutateToggleEnable g 1) g4 rs4 with
          | .error e => .error e
          | .ok (g5, rs5) =>
            stage o.mutateGeneReenableProb (fun g => fun rs => match mutateGeneReEnable g with
                                                              | .error e => .error e
                                                              | .ok g' => .ok (g', rs)) g5 rs5

end GoNeat
