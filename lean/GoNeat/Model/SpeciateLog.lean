/-
  Placement log of `Population.speciate` (ghost information for property C08 over whole epochs).

  `speciateLoopLog` is `speciateLoop` that additionally returns, per arriving organism, the population it arrived at
  (the species list "at that moment") and the organism.  `placeTarget` is the decision `speciateOne` takes there:
  `some i` = appended to the species at position `i`, `none` = a new species with id `lastSpecies + 1` is founded.
  Props/C08Epoch.lean proves that the first component is exactly `speciateLoop`.
-/
import GoNeat.Model.Epoch

namespace GoNeat
open Scalar
variable {W : Type} [Scalar W]

/-- the decision of `speciateOne` for organism `b` arriving at population `q` (threshold non-zero) -/
def placeTarget (o : EpochOpts W) (q : Pop W) (b : Org W) : Option Nat :=
  if q.species.isEmpty then none else bestCompatible o b.genome q.species 0 none maxVal

/-- `speciateLoop` with a placement log: (population at the moment of arrival, organism), in order of arrival -/
def speciateLoopLog (o : EpochOpts W) : Pop W → List (Org W) → Except Stop (Pop W × List (Pop W × Org W))
  | p, [] => .ok (p, [])
  | p, org :: rest =>
    match speciateOne o p org with
    | .error e => .error e
    | .ok p' =>
      match speciateLoopLog o p' rest with
      | .error e => .error e
      | .ok (q, log) => .ok (q, (p, org) :: log)

end GoNeat
