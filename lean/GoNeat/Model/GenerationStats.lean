/-
  Recording a generation from a population (property C19, the part that PRODUCES the per-generation series):
  `Generation.FillPopulationStatistics`, `Generation.Average`, `Generation.ChampionComplexity`
  (experiment/generation.go) and `organismComplexity` (experiment/common.go).

  * The Go code sorts every species' organism list IN PLACE (`sort.Sort(sort.Reverse(currSpecies.Organisms))`,
    order `Organisms.Less`: fitness, ties by highest fitness - `orgLess` of Model/Population.lean), so the model
    returns the statistics AND the population with the re-sorted species lists.  `sort.Sort` is `goSort`.
  * `currSpecies.Organisms[0]` of an empty species is a run-time panic: error `panic:index` (the statistics are
    only defined for populations without empty species - C02's invariant).
  * Complexity of an organism.  The `Org` records of the population model carry no phenotype; Go's
    `Organism.Phenotype()` returns the cached network, which `NewOrganism` built by `Genotype.Genesis(Genotype.Id)`
    (and rebuilds by the same call whenever it is nil).  MODELLING CHOICE: complexity is computed through `genesis`
    of the organism's genome (Model/Genesis.lean), `math.MaxInt` when `Genesis` fails.  For organisms whose genome
    was not altered after the phenotype was built (every organism `NewPopulation` / `NextEpoch` produce) this is the
    cached network's `Complexity()`; the correspondence op compares with the real value.
  * The running maximum starts at `float64(math.MinInt64)` = -2^63 and the champion is replaced on a strict `>`;
    nothing is selected when the generation is already marked `Solved` (the evaluator set the champion).

  Polymorphic in the scalar `W`.  Core Lean only.
-/
import GoNeat.Model.Population
import GoNeat.Model.Genesis
import GoNeat.Model.Stats

namespace GoNeat.GenStatsModel
open GoNeat Scalar

variable {W : Type} [Scalar W]

/-- `math.MaxInt` (64-bit) -/
def maxInt : Int := 9223372036854775807

/-- `float64(math.MinInt64)` -/
def minInt64W : W := ofInt (-9223372036854775808)

/-- `organismComplexity` of a non-nil organism: `Phenotype().Complexity()` = nodes + links of the expressed network;
    `math.MaxInt` when the phenotype cannot be built -/
def organismComplexity (o : Org W) : Int :=
  match Genesis.genesis o.genome o.genome.id with
  | .ok net => (Genesis.complexity net : Nat)
  | .error _ => maxInt

/-- what `FillPopulationStatistics` writes into the `Generation` record -/
structure GenStats (W : Type) where
  diversity : Nat
  fitness : List W
  age : List W
  complexity : List W
  champion : Option (Org W)

/-- result of the loop: the three series, the champion, the species with re-sorted member lists -/
structure LoopOut (W : Type) where
  fitness : List W
  age : List W
  complexity : List W
  champion : Option (Org W)
  species : List (Species W)

/-- the `for i, currSpecies := range pop.Species` loop; `mx` = `maxFitness`, `ch` = `g.Champion` -/
def fillLoop (solved : Bool) : List (Species W) → W → Option (Org W) → Except Stop (LoopOut W)
  | [], _, ch => .ok { fitness := [], age := [], complexity := [], champion := ch, species := [] }
  | s :: ss, mx, ch =>
    match sortOrgsDesc s.orgs with
    | [] => .error (.error "panic:index")
    | top :: rest =>
      let take := !solved && gt top.fitness mx
      match fillLoop solved ss (if take then top.fitness else mx) (if take then some top else ch) with
      | .error e => .error e
      | .ok r =>
        .ok { fitness := top.fitness :: r.fitness,
              age := ofInt s.age :: r.age,
              complexity := ofInt (organismComplexity top) :: r.complexity,
              champion := r.champion,
              species := { s with orgs := top :: rest } :: r.species }

/-- `Generation.FillPopulationStatistics` on a generation record whose `Solved` flag is `solved` and whose `Champion`
    field holds `champ0` -/
def fillFrom (solved : Bool) (champ0 : Option (Org W)) (p : Pop W) : Except Stop (GenStats W × Pop W) :=
  match fillLoop solved p.species minInt64W champ0 with
  | .error e => .error e
  | .ok r =>
    .ok ({ diversity := p.species.length, fitness := r.fitness, age := r.age, complexity := r.complexity,
           champion := r.champion },
         { p with species := r.species })

/-- `Generation.FillPopulationStatistics` on a fresh generation record (not solved, no champion yet) -/
def fillPopulationStatistics (p : Pop W) : Except Stop (GenStats W × Pop W) := fillFrom false none p

/-- `Generation.Average`: `(Fitness.Mean(), Age.Mean(), Complexity.Mean())`; `none` = NaN (no species) -/
def generationAverage (g : GenStats W) : Option W × Option W × Option W :=
  (Stats.fMean g.fitness, Stats.fMean g.age, Stats.fMean g.complexity)

/-- `Generation.ChampionComplexity` -/
def championComplexity (g : GenStats W) : Int :=
  match g.champion with
  | none => maxInt
  | some c => organismComplexity c

/-- the species (of the population after the call) that lists the organism: `Champion.Species` -/
def speciesOf (p : Pop W) (o : Org W) : Option (Species W) := p.species.find? (fun s => s.orgs.any (·.uid == o.uid))

/-- the generation record as the trial / experiment aggregates of Model/Stats.lean read it -/
def toGen (solved : Bool) (g : GenStats W) (p' : Pop W) : Stats.Gen W :=
  { solved := solved,
    champion := g.champion.map fun c =>
      { fitness := c.fitness, speciesAge := (speciesOf p' c).map (·.age),
        complexity := (let k := organismComplexity c; if k == maxInt then none else some k) },
    diversity := g.diversity, fitness := g.fitness, age := g.age, complexity := g.complexity,
    winnerNodes := 0, winnerGenes := 0, winnerEvals := 0 }

end GoNeat.GenStatsModel
