/-
  Frozen copies of `getLastNodeId` / `getNextGeneInnovNum` as they were BEFORE the `fix:` commit 48b1f99 (they looked
  at the LAST listed node / gene / control gene only).  They exist only to host the machine-checked counterexample
  `C03_counterexample` (Props/C03.lean); nothing else may import this file.
-/
import GoNeat.Model.Genome

namespace GoNeat.Legacy
open GoNeat
variable {W : Type}

/-- pre-fix `getLastNodeId` -/
def lastNodeId (g : Genome W) : Except Stop Int :=
  match g.nodes.getLast? with
  | none => .error (.error "noNodes")
  | some n => .ok (g.modules.foldl (fun acc m => if m.ctrl.id > acc then m.ctrl.id else acc) n.id)

/-- pre-fix `getNextGeneInnovNum` -/
def nextGeneInnov (g : Genome W) : Except Stop Int :=
  match g.genes.getLast? with
  | none => .error (.error "noGenes")
  | some last =>
    match g.modules.getLast? with
    | none => .ok (last.inn + 1)
    | some m => .ok ((if m.inn > last.inn then m.inn else last.inn) + 1)

end GoNeat.Legacy
