/-
  Types of the tables in the regenerated file Gen/Codec.lean (written by harness/cmd/gntranslate/codec.go).
  Core Lean only.
-/
namespace GoNeat.CodecTables

/-- one element of the value sequence of an Encode/Decode (gob) or Marshal/Unmarshal (text) function -/
inductive Step where
  /-- one value: a field of the receiver (path relative to it) or `len(Field)`, with its Go type -/
  | val (path : String) (ty : String)
  /-- one nested value sequence per element of the slice field, of element type `elem` -/
  | each (field : String) (elem : String)
  /-- the nested value sequence of the pointer field -/
  | sub (field : String) (codec : String)
  /-- the plain text of the genome held by the field -/
  | genome (field : String)
  /-- the steps up to the matching `guardEnd` are executed only under the condition -/
  | guardBegin (cond : String)
  | guardEnd
  /-- unrecognised statement (fail closed) -/
  | unknown (what : String)
deriving DecidableEq, Repr

structure YKey where
  /-- writer: function name; reader: `function/mapVariable` -/
  fn : String
  key : String
  /-- writer: Go type of the value; reader: conversion applied -/
  ty : String
  optional : Bool
deriving DecidableEq, Repr

structure JField where
  struct : String
  field : String
  ty : String
  /-- the name part of the `json:"…"` tag, with options (`modules,omitempty`) -/
  tag : String
  exported : Bool
deriving DecidableEq, Repr

structure PCall where
  fn : String
  /-- `Fprintf` `Fprint` `Fprintln` `Fscanf` `ParseInt` `Split` `SplitN` `Sprintf`, a constructor/lookup name, or
      `call` (a sibling writer/reader function, name in `format`) -/
  kind : String
  format : String
  /-- the space-separated items of a print/scan format (`strings.Fields`), e.g. `%d %g` -/
  verbs : List String
  args : List String
deriving DecidableEq, Repr

end GoNeat.CodecTables
