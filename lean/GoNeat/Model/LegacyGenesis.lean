/-
  Frozen pre-repair definitions of the C11 area; they exist only to host machine-checked counterexamples
  (`Props/C11.lean`), nothing else may import this file.

  * `edgeBetween` before 513f15a ("fix: edgeBetween looks at a control node's outgoing links when the ordinary node
    is also one of its inputs"): inside a control node a matching INPUT wire ended a directed query that starts at
    the control node with `return nil`, the output wires were never looked at.
  * the phenotype an add-link baby was evaluated with before 585232e ("fix: mutateAddLink drops the cached
    phenotype built before the new gene was added"): `mutateAddLink` ran `Genesis` for its recurrence test BEFORE
    inserting the new gene and left the result in `g.Phenotype`; `NewOrganism` copies `g.Phenotype`, so
    `Organism.Phenotype()` returned the network of the genome WITHOUT the new gene.
  (9995670, the typed-nil repair of `Node` / `Edge` / `WeightedEdge`, is about Go interface values and has no
  counterpart in the model: the model's `none` is the nil pointer; the interface-level `== nil` is observed by the
  harness and demanded by the driver.)
-/
import GoNeat.Model.Genesis

namespace GoNeat.Genesis.Legacy
open GoNeat.Genesis

variable {W : Type}

def ctrlEdge (net : Net W) (cn : NNodeS W) (oid : Int) (directed uKnown vKnown : Bool) : Option (Option (NLink W)) :=
  match cn.incoming.find? fun l => idAt net l.src == some oid with
  | some l => if !directed then some (some l) else if uKnown then some (some l) else some none
  | none =>
    match cn.outgoing.find? fun l => idAt net l.dst == some oid with
    | some l => if !directed then some (some l) else if vKnown then some (some l) else some none
    | none => none

def ctrlScan (net : Net W) (cid oid : Int) (directed uKnown vKnown : Bool) : List (NNodeS W) → Option (NLink W)
  | [] => none
  | cn :: rest =>
    if cn.id != cid then ctrlScan net cid oid directed uKnown vKnown rest
    else
      match ctrlEdge net cn oid directed uKnown vKnown with
      | some r => r
      | none => ctrlScan net cid oid directed uKnown vKnown rest

def edgeBetween (net : Net W) (uid vid : Int) (directed : Bool) : Option (NLink W) :=
  match scanUV uid vid net.nodes none none with
  | (none, none) => none
  | (none, some _) => ctrlScan net uid vid directed false true net.ctrl
  | (some _, none) => ctrlScan net vid uid directed true false net.ctrl
  | (some uNode, some vNode) =>
    let first :=
      if !directed then uNode.incoming.find? fun l => idAt net l.src == some vid
      else vNode.incoming.find? fun l => idAt net l.src == some uid
    match first with
    | some l => some l
    | none => uNode.outgoing.find? fun l => idAt net l.dst == some vid

def hasEdgeFromTo (net : Net W) (uid vid : Int) : Bool := (edgeBetween net uid vid true).isSome
def weight? (net : Net W) (xid yid : Int) : Option W := (edgeBetween net xid yid true).map (·.w)

/-- phenotype `NewOrganism` picked up from an add-link baby: built from the genome BEFORE `geneInsert(x)` -/
def addLinkPhenotype (g : Genome W) (_x : Gene W) (netId : Int) : Except Stop (Net W) := genesis g netId

end GoNeat.Genesis.Legacy
