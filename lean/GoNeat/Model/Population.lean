/-
  Population-level model: organisms, species, fitness adjustment, offspring quotas, stolen babies, delta
  coding, speciation, purging (neat/genetics/species.go, population.go, organism.go).

  Heap abstraction: Go shares `*Organism` between `Population.Organisms` and `Species.Organisms`, and
  `Organism.Species` points back.  The model stores organisms inside their species; `Pop.organisms` is the
  list of their allocation ids (`uid`, a ghost field) in the order of `Population.Organisms`.
  `sort.Sort` is modelled by `goSort` (Model/GoSort.lean): Go's insertion sort for slices of at most 12
  elements (stable), a checked transliteration of Go 1.23's pdqsort for longer ones (ties included).
-/
import GoNeat.Model.Mutate
import GoNeat.Model.Mate
import GoNeat.Model.Compat
import GoNeat.Model.GoSort

namespace GoNeat
open Scalar
variable {W : Type} [Scalar W]

structure Org (W : Type) where
  uid : Nat
  fitness : W
  genome : Genome W
  expectedOffspring : W
  generation : Int
  originalFitness : W
  toEliminate : Bool := false
  isChampion : Bool := false
  superChampOffspring : Int := 0
  isPopChampion : Bool := false
  isPopChampionChild : Bool := false
  highestFitness : W
  mutStructBaby : Bool := false
  mateBaby : Bool := false
deriving Repr

structure Species (W : Type) where
  id : Int
  age : Int
  maxFitnessEver : W
  expectedOffspring : Int
  isNovel : Bool
  orgs : List (Org W)
  ageOfLastImprovement : Int
deriving Repr

structure Pop (W : Type) where
  species : List (Species W)
  /-- allocation ids in the order of `Population.Organisms` -/
  organisms : List Nat
  lastSpecies : Int
  highestFitness : W
  epochsHighestLastChanged : Int
  reg : Reg W
  /-- next free allocation id (ghost) -/
  nextUid : Nat
deriving Repr

structure EpochOpts (W : Type) where
  popSize : Nat
  dropOffAge : Int
  ageSignificance : W
  survivalThresh : W
  babiesStolen : Int
  compatThreshold : W
  compat : CompatOpts W
  mutateOnlyProb : W
  mutateAddNodeProb : W
  mutateAddLinkProb : W
  mutateConnectSensors : W
  interspeciesMateRate : W
  mateMultipointProb : W
  mateMultipointAvgProb : W
  mateSinglepointProb : W
  mateOnlyProb : W
  mopts : MutOpts W

/-! ### sorting: `goSort` (Model/GoSort.lean) models `sort.Sort` -/

/-- `Organisms.Less` -/
def orgLess (a b : Org W) : Bool :=
  if lt a.fitness b.fitness then true
  else if eq a.fitness b.fitness then lt a.highestFitness b.highestFitness
  else false

/-- `sort.Sort(sort.Reverse(s.Organisms))` -/
def sortOrgsDesc (l : List (Org W)) : List (Org W) := goSort (fun a b => orgLess b a) l

/-- `byOrganismOrigFitness.Less` (species must be non-empty) -/
def speciesLess (a b : Species W) : Bool :=
  match a.orgs.head?, b.orgs.head? with
  | some o1, some o2 =>
    if lt o1.originalFitness o2.originalFitness then true
    else if eq o1.originalFitness o2.originalFitness then decide (a.age > b.age)
    else false
  | _, _ => false

def sortSpeciesDesc (l : List (Species W)) : List (Species W) := goSort (fun a b => speciesLess b a) l

/-! ### Species.adjustFitness -/

def adjustOrg (ageDebt : Int) (age : Int) (o : EpochOpts W) (n : Nat) (org : Org W) : Org W :=
  let f0 := org.fitness
  let f1 := if ageDebt ≥ 1 then mul f0 (ofDec 1 2) else f0
  let f2 := if age ≤ 10 then mul f1 o.ageSignificance else f1
  let f3 := if lt f2 zero then ofDec 1 4 else f2
  { org with originalFitness := f0, fitness := div f3 (ofInt n) }

def markOrgs (numParents : Int) : List (Org W) → Nat → List (Org W)
  | [], _ => []
  | x :: xs, i =>
    { x with isChampion := if i = 0 then true else x.isChampion,
             toEliminate := if (i : Int) ≥ numParents then true else x.toEliminate } :: markOrgs numParents xs (i + 1)

/-- `Species.adjustFitness` (panics on an empty species: index 0) -/
def adjustFitness (o : EpochOpts W) (s : Species W) : Except Stop (Species W) :=
  let ageDebt0 := (s.age - s.ageOfLastImprovement + 1) - o.dropOffAge
  let ageDebt := if ageDebt0 = 0 then 1 else ageDebt0
  let orgs1 := s.orgs.map (adjustOrg ageDebt s.age o s.orgs.length)
  let orgs2 := sortOrgsDesc orgs1
  match orgs2 with
  | [] => .error (.error "panic:index")
  | top :: _ =>
    let improved := gt top.originalFitness s.maxFitnessEver
    let numParents := floorInt (add (mul o.survivalThresh (ofInt s.orgs.length)) one)
    .ok { s with orgs := markOrgs numParents orgs2 0,
                 ageOfLastImprovement := if improved then s.age else s.ageOfLastImprovement,
                 maxFitnessEver := if improved then top.originalFitness else s.maxFitnessEver }

/-! ### offspring quotas -/

/-- `Species.countOffspring` on the expected-offspring values of the members -/
def countOffspringList : List W → W → Int → Int × W
  | [], skim, acc => (acc, skim)
  | e :: es, skim, acc =>
    let intPart := floorInt e
    let frac := fmod1 e
    let acc1 := acc + intPart
    let skim1 := add skim frac
    if ge skim1 one then
      let skimInt := floor skim1
      countOffspringList es (sub skim1 skimInt) (acc1 + floorInt skimInt)
    else countOffspringList es skim1 acc1

def countOffspring (s : Species W) (skim : W) : Int × W :=
  countOffspringList (s.orgs.map (·.expectedOffspring)) skim 0

/-- all organisms of the population in `Population.Organisms` order -/
def Pop.findOrg (p : Pop W) (uid : Nat) : Option (Org W) :=
  p.species.foldl (fun acc s => match acc with
    | some o => some o
    | none => s.orgs.find? (·.uid == uid)) none

def Pop.orgList (p : Pop W) : List (Org W) := p.organisms.filterMap p.findOrg

def assignQuotas : List (Species W) → W → Int → List (Species W) × W × Int
  | [], skim, tot => ([], skim, tot)
  | s :: ss, skim, tot =>
    let (e, skim') := countOffspring s skim
    let (rest, skim'', tot') := assignQuotas ss skim' (tot + e)
    ({ s with expectedOffspring := e } :: rest, skim'', tot')

/-- index of the last species whose quota is ≥ the running maximum (`>=` in the Go loop) -/
def bestQuotaIndex : List (Species W) → Nat → Int → Option Nat → Option Nat
  | [], _, _, best => best
  | s :: ss, i, mx, best =>
    if s.expectedOffspring ≥ mx then bestQuotaIndex ss (i + 1) s.expectedOffspring (some i)
    else bestQuotaIndex ss (i + 1) mx best

/-- "make up for lost floating point precision": if the quotas total less than the population size the last species
    with maximal quota gets one more; if that still is not enough ("population died") it gets everything -/
def fixupQuotas (species : List (Species W)) (totalExpected totalOrganisms : Int) : List (Species W) :=
  if totalExpected < totalOrganisms then
    match bestQuotaIndex species 0 0 none with
    | none => species
    | some b =>
      if totalExpected + 1 < totalOrganisms then
        (species.map (fun s => { s with expectedOffspring := 0 })).modify b (fun s => { s with expectedOffspring := totalOrganisms })
      else species.modify b (fun s => { s with expectedOffspring := s.expectedOffspring + 1 })
  else species

/-- `Population.purgeZeroOffspringSpecies` -/
def purgeZeroOffspringSpecies (p : Pop W) : Pop W :=
  let orgs := p.orgList
  let total := orgs.foldl (fun acc o => add acc o.fitness) zero
  let totalOrganisms : Int := p.organisms.length
  let overallAverage := div total (ofInt totalOrganisms)
  let setExp (o : Org W) : Org W :=
    if eq overallAverage zero then o else { o with expectedOffspring := div o.fitness overallAverage }
  let species1 := p.species.map (fun s => { s with orgs := s.orgs.map setExp })
  let (species2, _, totalExpected) := assignQuotas species1 zero 0
  let species3 := fixupQuotas species2 totalExpected totalOrganisms
  { p with species := species3.filter (fun s => s.expectedOffspring > 0) }

/-! ### delta coding and stolen babies: these act on the *sorted* species list; the result is written back
    to the population's species by id (the Go code mutates the shared species objects) -/

def setTopOrg (s : Species W) (f : Org W → Org W) : Species W :=
  match s.orgs with
  | [] => s
  | o :: os => { s with orgs := f o :: os }

/-- `Population.deltaCoding`: returns the updated sorted list -/
def deltaCoding (sorted : List (Species W)) (o : EpochOpts W) : Except Stop (List (Species W)) :=
  let halfPop : Int := (o.popSize / 2 : Nat)
  let restPop : Int := (o.popSize : Int) - halfPop
  match sorted with
  | [] => .error (.error "panic:index")
  | [s] =>
    if s.orgs.isEmpty then .error (.error "panic:index") else
    .ok [ { setTopOrg s (fun t => { t with superChampOffspring := o.popSize }) with
            expectedOffspring := o.popSize, ageOfLastImprovement := s.age } ]
  | s1 :: s2 :: rest =>
    if s1.orgs.isEmpty || s2.orgs.isEmpty then .error (.error "panic:index") else
    .ok ({ setTopOrg s1 (fun t => { t with superChampOffspring := halfPop }) with
           expectedOffspring := halfPop, ageOfLastImprovement := s1.age } ::
         { setTopOrg s2 (fun t => { t with superChampOffspring := restPop }) with
           expectedOffspring := restPop, ageOfLastImprovement := s2.age } ::
         rest.map (fun s => { s with expectedOffspring := 0 }))

/-- first loop of `giveBabiesToTheBest`: take babies from the worst species (walk the reversed list) -/
def stealLoop (babiesStolen : Int) : List (Species W) → Int → List (Species W) × Int
  | [], stolen => ([], stolen)
  | s :: ss, stolen =>
    if stolen < babiesStolen then
      if s.age > 5 && s.expectedOffspring > 2 then
        if s.expectedOffspring - 1 ≥ babiesStolen - stolen then
          let (rest, st) := stealLoop babiesStolen ss babiesStolen
          ({ s with expectedOffspring := s.expectedOffspring - (babiesStolen - stolen) } :: rest, st)
        else
          let (rest, st) := stealLoop babiesStolen ss (stolen + s.expectedOffspring - 1)
          ({ s with expectedOffspring := 1 } :: rest, st)
      else
        let (rest, st) := stealLoop babiesStolen ss stolen
        (s :: rest, st)
    else (s :: ss, stolen)

/-- second loop: hand the stolen babies to the top species.  Returns the list, the babies left and the stream. -/
def giveLoop (o : EpochOpts W) (blocks : List Int) : List (Species W) → Nat → Int → Rand (List (Species W) × Int)
  | [], _, stolen, rs => .ok (([], stolen), rs)
  | s :: ss, blockIndex, stolen, rs =>
    if (s.age - s.ageOfLastImprovement) > o.dropOffAge then
      -- `continue`: the block index is NOT advanced
      match giveLoop o blocks ss blockIndex stolen rs with
      | .error e => .error e
      | .ok ((rest, st), rs') => .ok ((s :: rest, st), rs')
    else
      let step : R (Species W × Int) :=
        if blockIndex < 3 && stolen ≥ (blocks[blockIndex]?).getD 0 then
          let b := (blocks[blockIndex]?).getD 0
          .ok (({ setTopOrg s (fun t => { t with superChampOffspring := b }) with expectedOffspring := s.expectedOffspring + b },
                stolen - b), rs)
        else if blockIndex ≥ 3 then
          match Rand.float64 (W := W) rs with
          | .error e => .error e
          | .ok (f, rs') =>
            if gt f (ofDec 1 1) then
              if stolen > 3 then
                .ok (({ setTopOrg s (fun t => { t with superChampOffspring := 3 }) with expectedOffspring := s.expectedOffspring + 3 },
                      stolen - 3), rs')
              else
                .ok (({ setTopOrg s (fun t => { t with superChampOffspring := stolen }) with expectedOffspring := s.expectedOffspring + stolen },
                      0), rs')
            else .ok ((s, stolen), rs')
        else .ok ((s, stolen), rs)
      match step with
      | .error e => .error e
      | .ok ((s', st), rs1) =>
        if st ≤ 0 then .ok ((s' :: ss, st), rs1)
        else
          match giveLoop o blocks ss (blockIndex + 1) st rs1 with
          | .error e => .error e
          | .ok ((rest, st'), rs2) => .ok ((s' :: rest, st'), rs2)

/-- `Population.giveBabiesToTheBest` on the sorted species list -/
def giveBabiesToTheBest (sorted : List (Species W)) (o : EpochOpts W) : Rand (List (Species W)) := fun rs =>
  let (revAfter, stolen) := stealLoop o.babiesStolen sorted.reverse 0
  let afterSteal := revAfter.reverse
  let blocks : List Int := [o.babiesStolen / 5, o.babiesStolen / 5, o.babiesStolen / 10]
  match giveLoop o blocks afterSteal 0 stolen rs with
  | .error e => .error e
  | .ok ((l, left), rs') =>
    if left > 0 then
      match l with
      | [] => .error (.error "panic:index")
      | s :: ss =>
        if s.orgs.isEmpty then .error (.error "panic:index") else
        .ok ({ setTopOrg s (fun t => { t with superChampOffspring := t.superChampOffspring + left }) with
               expectedOffspring := s.expectedOffspring + left } :: ss, rs')
    else .ok (l, rs')

/-- write the species of `updated` back into `species` (matched by id) -/
def writeBack (species updated : List (Species W)) : List (Species W) :=
  species.map (fun s => (updated.find? (·.id == s.id)).getD s)

/-! ### purging -/

/-- `Population.purgeOrganisms` -/
def purgeOrganisms (p : Pop W) : Pop W :=
  let doomed := (p.orgList.filter (·.toEliminate)).map (·.uid)
  { p with species := p.species.map (fun s => { s with orgs := s.orgs.filter (fun o => !doomed.contains o.uid) }),
           organisms := p.organisms.filter (fun u => !doomed.contains u) }

/-- `Population.purgeOldGeneration` -/
def purgeOldGeneration (p : Pop W) : Pop W :=
  { p with species := p.species.map (fun s => { s with orgs := s.orgs.filter (fun o => !p.organisms.contains o.uid) }),
           organisms := [] }

def renumber : List (Org W) → Int → List (Org W)
  | [], _ => []
  | o :: os, k => { o with genome := { o.genome with id := k } } :: renumber os (k + 1)

def purgeOrAgeLoop : List (Species W) → Int → List (Species W)
  | [], _ => []
  | s :: ss, count =>
    if s.orgs.isEmpty then purgeOrAgeLoop ss count
    else
      { s with isNovel := false, age := if s.isNovel then s.age else s.age + 1, orgs := renumber s.orgs count } ::
        purgeOrAgeLoop ss (count + s.orgs.length)

/-- `Population.purgeOrAgeSpecies` -/
def purgeOrAgeSpecies (p : Pop W) : Pop W :=
  let species := purgeOrAgeLoop p.species 0
  { p with species := species, organisms := species.flatMap (fun s => s.orgs.map (·.uid)) }

/-! ### speciation -/

/-- search of the closest compatible species: first species attaining the minimum among those below the threshold -/
def bestCompatible (o : EpochOpts W) (g : Genome W) : List (Species W) → Nat → Option Nat → W → Option Nat
  | [], _, best, _ => best
  | s :: ss, i, best, bestVal =>
    match s.orgs.head? with
    | none => bestCompatible o g ss (i + 1) best bestVal
    | some rep =>
      let c := compatibility o.compat g rep.genome
      if lt c o.compatThreshold && lt c bestVal then bestCompatible o g ss (i + 1) (some i) c
      else bestCompatible o g ss (i + 1) best bestVal

/-- one organism of `Population.speciate` -/
def speciateOne (o : EpochOpts W) (p : Pop W) (org : Org W) : Except Stop (Pop W) :=
  let newSpecies : Pop W :=
    { p with lastSpecies := p.lastSpecies + 1,
             species := p.species ++ [{ id := p.lastSpecies + 1, age := 1, maxFitnessEver := zero, expectedOffspring := 0,
                                        isNovel := true, orgs := [org], ageOfLastImprovement := 0 }] }
  if p.species.isEmpty then .ok newSpecies
  else if eq o.compatThreshold zero then .error (.error "compatThresholdZero")
  else
    match bestCompatible o org.genome p.species 0 none maxVal with
    | some i => .ok { p with species := p.species.modify i (fun s => { s with orgs := s.orgs ++ [org] }) }
    | none => .ok newSpecies

def speciateLoop (o : EpochOpts W) : Pop W → List (Org W) → Except Stop (Pop W)
  | p, [] => .ok p
  | p, org :: rest =>
    match speciateOne o p org with
    | .error e => .error e
    | .ok p' => speciateLoop o p' rest

/-- `Population.speciate` -/
def speciate (o : EpochOpts W) (p : Pop W) (orgs : List (Org W)) : Except Stop (Pop W) :=
  if orgs.isEmpty then .error (.error "noOrganismsToSpeciate") else speciateLoop o p orgs

end GoNeat
