/-
  Line-protocol driver (DESIGN Appendix B).  Reads one JSON case per line on stdin, dispatches on "op",
  prints one verdict per line.  Imports Model/Spec/Driver only (core Lean, no Mathlib) so that it can be
  compiled as a `lean_exe`.
-/
import GoNeat.Driver.All

open Lean GoNeat.Driver

def verdictJson (i : Nat) (op : String) (v : Verdict) : Json :=
  Json.mkObj [("i", jN i), ("op", jS op), ("corr", jB v.corr), ("spec", jB v.spec), ("nontrivial", jB v.nontrivial),
              ("tie", jB v.tie), ("cls", jS v.cls), ("sig", jS v.sig), ("detail", jS (v.detail.take 2000).toString),
              ("props", Json.mkObj (v.props.map fun (p, ok, why, sg) =>
                  (p, Json.mkObj [("ok", jB ok), ("why", jS (why.take 1500).toString), ("sig", jS sg)])))]

def handleLine (line : String) : String :=
  match Json.parse line with
  | .error e => (Json.mkObj [("i", jN 0), ("op", jS "?"), ("driverError", jS s!"parse: {e}")]).compress
  | .ok j =>
    let i := (fldNat j "i").toOption.getD 0
    let op := (fldStr j "op").toOption.getD "?"
    match allOps.lookup op with
    | none => (Json.mkObj [("i", jN i), ("op", jS op), ("driverError", jS "unknown op")]).compress
    | some h =>
      match h j with
      | .ok v => (verdictJson i op v).compress
      | .error e => (Json.mkObj [("i", jN i), ("op", jS op), ("driverError", jS e)]).compress

partial def loop (h : IO.FS.Stream) (out : IO.FS.Stream) : IO Unit := do
  let line ← h.getLine
  if line.isEmpty then return ()
  if line.trimAscii.toString != "" then
    out.putStrLn (handleLine line)
  loop h out

def main : IO Unit := do
  let stdin ← IO.getStdin
  let stdout ← IO.getStdout
  loop stdin stdout
  stdout.flush
