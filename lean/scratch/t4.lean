open List in
#check @List.nodup_iff_injective_getElem
#check @List.Nodup.getElem_inj_iff
#check @List.nodup_iff_getElem?_ne_getElem?
#check @List.pairwise_iff_getElem
#check @List.getElem_of_nodup
