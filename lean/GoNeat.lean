-- root of the GoNeat library: model, specifications, driver (core-only part)
import GoNeat.Model.Scalar
import GoNeat.Model.Rand
import GoNeat.Model.Genome
import GoNeat.Model.Compat
import GoNeat.Model.Net
import GoNeat.Spec.WF
import GoNeat.Spec.Compat
import GoNeat.Driver.All
