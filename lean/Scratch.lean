import GoNeat.Proofs.EpochRegistry
#print axioms GoNeat.C03.reproduceOne_shape
#print axioms GoNeat.C03.mate_from
