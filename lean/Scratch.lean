import GoNeat.Model.Epoch
open GoNeat
#check @goInsertionSort.go
#print goInsertionSort
