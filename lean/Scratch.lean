import GoNeat.Model.Mate
open GoNeat
#check @singlePointWalk.induct
