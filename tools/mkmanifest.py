#!/usr/bin/env python3
"""Regenerate MANIFEST.json from checks/*.json (claimed properties) and properties.jsonl (everything else -> not_applicable)."""
import json, os, glob, subprocess
V = os.path.dirname(os.path.dirname(os.path.abspath(__file__)))
props = [json.loads(l) for l in open(os.path.join(V, "properties.jsonl"))]
cfgs = {}
for p in glob.glob(os.path.join(V, "checks", "C*.json")):
    c = json.load(open(p))
    cfgs[c["property"]] = c
# checks that exist but are not claimed yet (one property id per line in checks/unclaimed.txt)
_u = os.path.join(V, "checks", "unclaimed.txt")
if os.path.exists(_u):
    for pid in open(_u).read().split():
        cfgs.pop(pid, None)
na_reasons = {}
p = os.path.join(V, "checks", "not_applicable.json")
if os.path.exists(p):
    na_reasons = json.load(open(p))
hooks = subprocess.run(["git", "-C", "/repo", "log", "--format=%h %s"], capture_output=True, text=True).stdout.splitlines()
hook_commits = [l.split()[0] for l in hooks if l.split(" ", 1)[1].startswith("verif hooks")]
m = {
    "version": 1,
    "setup_cmd": "./setup.sh",
    "hooks": {"guard": "verif",
              "enable": "go build -tags verif (the harness module replaces github.com/yaricom/goNEAT/v4 by /repo)",
              "baseline_off_cmd": "cd /repo && GOFLAGS=-mod=mod GOPROXY=off GOSUMDB=off GOTOOLCHAIN=local go test -vet=off -count=1 -timeout 25m ./...",
              "source_commits": hook_commits, "add_only": True},
    "engines": [{"name": "lean-proof+correspondence", "path": "check", "serves_properties": sorted(cfgs),
                 "kind_free_text": "Lean 4 theorems over a hand-written executable model (lean/GoNeat), tied to /repo on every run by a differential correspondence check (Go harness built with -tags verif -> JSON lines -> compiled Lean driver, floats compared bit for bit) and by translators that regenerate Lean files from the Go source (lean/GoNeat/Gen)"}],
    "checks": [],
    "notes": "see DESIGN.md; known_findings.jsonl lists repaired defects (fixed:) and known findings (known)",
    "not_applicable": [],
}
for pr in props:
    pid = pr["id"]
    if pid in cfgs:
        c = cfgs[pid]
        m["checks"].append({
            "property_id": pid,
            "quick_cmd": "./check %s --tier quick" % pid,
            "thorough_cmd": "./check %s --tier thorough" % pid,
            "evidence_file": "/verif/evidence/%s.json" % pid,
            "replay_cmd_template": "./check %s --replay {path}" % pid,
            "engine": "lean-proof+correspondence",
            "level_claimed": {"category": "proof", "text": c.get("level_text", ""), "design_ref": "DESIGN.md §3 " + pid},
            "level_note": c.get("level_note", ""),
            "technique": c.get("technique", "Lean 4 theorems over an executable model + differential correspondence with the Go implementation"),
        })
    else:
        m["not_applicable"].append({"property_id": pid, "reason": na_reasons.get(pid, "check not built yet (work in progress; the technique applies, see DESIGN.md §3)")})
json.dump(m, open(os.path.join(V, "MANIFEST.json"), "w"), indent=1)
print("claimed:", sorted(cfgs), "not claimed:", [x["property_id"] for x in m["not_applicable"]])
