/- diagnostics for C16: which rows of the regenerated access table break the committed discipline -/
import GoNeat.Spec.AccessExpect
import GoNeat.Gen.Access
open GoNeat GoNeat.AccessTable

def kindStr : AccKind → String
  | .rd => "read" | .wr => "write" | .atomic => "atomic"
def protStr : Prot → String
  | .plain => "plain (no lock held)" | .atomic => "atomic" | .underMutex hs => s!"under {hs}"
def classStr : SharedClass → String
  | .guarded m => s!"guarded by {m}" | .readOnly => "read-only" | .atomicOnly => "atomic-only"

def main : IO UInt32 := do
  let shared := sharedViolations AccessExpect.classOf Gen.accesses
  let unc := uncovered AccessExpect.expectations Gen.fieldWrites Gen.fieldReads
  let wrongOwn := Gen.fieldWrites.filter (fun w => lookupExpect AccessExpect.expectations w == some .parentRO)
  let ext := Gen.externalCalls.filter (fun e => !AccessExpect.externOk.contains e)
  for a in shared do
    IO.println s!"VIOLATING shared access: {kindStr a.kind} of {a.loc} in {a.fn}, {protStr a.prot}, at {a.pos} (required: {classStr (AccessExpect.classOf a.loc)})"
  for a in unc do
    IO.println s!"VIOLATING uncovered field access: {kindStr a.kind} of {a.label} in {a.fn}, receiver origin {a.origin}, at {a.pos} (no entry in Spec/AccessExpect.lean)"
  for a in wrongOwn do
    IO.println s!"VIOLATING write to the parent generation: {a.fn} {a.label} at {a.pos}"
  for e in ext do
    IO.println s!"VIOLATING external call not on the justified list: {e}"
  for u in Gen.unrecognised do
    IO.println s!"VIOLATING unrecognised construct: {u}"
  let ok := AccessExpect.obligation Gen.accesses Gen.fieldWrites Gen.fieldReads Gen.externalCalls Gen.unrecognised
  IO.println s!"access table: {Gen.accesses.length} shared accesses, {Gen.fieldWrites.length} field writes, {Gen.fieldReads.length} field reads, {Gen.externalCalls.length} external callees, {Gen.reachedFunctions.length} functions walked; obligation = {ok}"
  return (if ok then 0 else 1)
