#!/usr/bin/env python3
"""seed_meta.py <seeded-dir> <property> <pkg> <needs> <detected-by ...>   writes meta.json from the confirm log + check results"""
import sys, json, os
d, prop, pkg, needs = sys.argv[1:5]
detected = sys.argv[5:]
log = open(os.path.join(d, "confirm.log")).read() if os.path.exists(os.path.join(d, "confirm.log")) else ""
meta = {
 "breaks_property": prop,
 "demo_package_dir": pkg,
 "needs_to_manifest": needs,
 "origin": "written by a fresh sub-agent that was given only the property text and a scratch worktree of /repo (nothing from /verif)",
 "confirmed": {
   "how": "tools/confirm_seed.sh <dir> %s suite  (scratch worktree of /repo HEAD: demo passes clean, patch applies+builds, demo fails patched, full pinned suite passes patched)" % pkg,
   "clean_demo_passes": "clean-demo: PASS" in log, "patched_demo_fails": "patched-demo: FAIL" in log,
   "suite_passes_with_patch": "suite-with-patch: PASS" in log, "all": "CONFIRMED" in log and "NOT-CONFIRMED" not in log},
 "checks_run": "tools/run_seed_check.sh <dir> <checks> (patch applied to a scratch worktree of /repo, VERIF_REPO pointing at it)",
 "detected_by": detected,
}
json.dump(meta, open(os.path.join(d, "meta.json"), "w"), indent=1)
print(json.dumps(meta["confirmed"]))
