#!/bin/bash
# confirm_seed.sh <dir-with patch.diff + demo_test.go> <package-dir-of-demo> [suite]
# Confirms a seeded change in a scratch worktree of /repo (never in /repo itself):
#   1. demo passes on the clean tree   2. patch applies and builds   3. demo fails with the patch
#   4. (with "suite") the whole pinned test suite still passes with the patch
# Prints one line per step; exit 0 iff all confirmed. The scratch worktree is removed afterwards.
set -u
export GOFLAGS=-mod=mod GOPROXY=off GOSUMDB=off GOTOOLCHAIN=local
D=$(readlink -f "$1"); PKG="$2"; SUITE="${3:-}"
PATCH="$D/patch.diff"; DEMO=$(ls "$D"/*_test.go | head -1)
W=$(mktemp -d /tmp/conf_XXXXXX); rmdir "$W"
git -C /repo worktree add -q --detach "$W" HEAD || exit 2
cleanup() { git -C /repo worktree remove --force "$W" 2>/dev/null; rm -rf "$W"; }
trap cleanup EXIT
ok=1
cp "$DEMO" "$W/$PKG/zz_seed_demo_test.go"
TESTS=$(grep -o '^func Test[A-Za-z0-9_]*' "$DEMO" | sed 's/func //' | paste -sd'|')
(cd "$W/$PKG" && go test ${DEMO_FLAGS:-} -vet=off -count=1 -run "^($TESTS)\$" . >/tmp/conf_clean.$$ 2>&1) && echo "clean-demo: PASS (expected)" || { echo "clean-demo: FAIL (unexpected)"; tail -20 /tmp/conf_clean.$$; ok=0; }
(cd "$W" && git apply "$PATCH") && echo "apply: ok" || { echo "apply: FAILED"; exit 1; }
(cd "$W" && go build ./... >/tmp/conf_build.$$ 2>&1) && echo "build: ok" || { echo "build: FAILED"; tail /tmp/conf_build.$$; ok=0; }
(cd "$W/$PKG" && go test ${DEMO_FLAGS:-} -vet=off -count=1 -run "^($TESTS)\$" . >/tmp/conf_mut.$$ 2>&1) && { echo "patched-demo: PASS (unexpected: demo does not detect the change)"; ok=0; } || { echo "patched-demo: FAIL (expected)"; grep -m3 -E '^\s+\S+_test.go:|--- FAIL' /tmp/conf_mut.$$; }
rm -f "$W/$PKG/zz_seed_demo_test.go"
if [ "$SUITE" = suite ]; then
  (cd "$W" && go test -vet=off -count=1 -timeout 25m ./... >/tmp/conf_suite.$$ 2>&1) && echo "suite-with-patch: PASS (expected)" || { echo "suite-with-patch: FAIL"; grep -E '^(FAIL|--- FAIL|panic)' /tmp/conf_suite.$$ | head; ok=0; }
fi
rm -f /tmp/conf_*.$$
[ $ok = 1 ] && echo "CONFIRMED" || echo "NOT-CONFIRMED"
[ $ok = 1 ]
