#!/bin/bash
# run every claimed check (tier from $1, default quick) and print one line per check
cd "$(dirname "$0")/.."
T="${1:-quick}"
for c in $(python3 -c "import json;print(' '.join(x['property_id'] for x in json.load(open('MANIFEST.json'))['checks']))"); do
  s=$(date +%s); out=$(./check $c --tier $T 2>&1); rc=$?; e=$(date +%s)
  echo "$c rc=$rc $((e-s))s $(echo "$out" | grep -c '^KNOWN-FINDING') known | $(echo "$out" | grep -E 'VIOLATION|BROKEN' | head -2 | cut -c1-200)"
done
