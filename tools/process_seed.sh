#!/bin/bash
# process_seed.sh <Cxx> <pkg> [checks...]: take /tmp/seed_Cxx/out/{patchA,patchB}.diff etc into seeded/, start confirmation
# (background), run the given checks (default: the property's own) against each patch from the seed-run worktree.
set -u
P="$1"; PKG="$2"; shift 2; CHECKS="${*:-$P}"
cd /verif
# round 2: SRC=/tmp/seed2_$P and the two changes are stored as -C / -D
SRC="${SRC:-/tmp/seed_$P}"; R2="${R2:-}"
name() { if [ "$R2" = 6 ]; then case $1 in A) echo K;; B) echo L;; esac; elif [ "$R2" = 5 ]; then case $1 in A) echo I;; B) echo J;; esac; elif [ "$R2" = 4 ]; then case $1 in A) echo G;; B) echo H;; esac; elif [ "$R2" = 3 ]; then case $1 in A) echo E;; B) echo F;; esac; elif [ -n "$R2" ]; then case $1 in A) echo C;; B) echo D;; esac; else echo $1; fi; }
for X in A B; do
  [ -f $SRC/out/patch$X.diff ] || continue
  D=seeded/$P-$(name $X); mkdir -p $D
  cp $SRC/out/patch$X.diff $D/patch.diff
  cp $SRC/out/demo${X}_test.go $D/demo_test.go
  cp $SRC/out/notes$X.md $D/notes.md 2>/dev/null
  # package directory of the demo: named in the comment at the top of the demo file when it differs from the default
  DPKG=$(head -15 $D/demo_test.go | grep -oE '(neat(/(genetics|network|math))?|experiment(/utils)?)\b' | head -1); DPKG=${DPKG:-$PKG}
  PKGLINE=$(grep -m1 '^package ' $D/demo_test.go | awk '{print $2}' | sed 's/_test$//')
  case $PKGLINE in genetics) DPKG=neat/genetics;; network) DPKG=neat/network;; math) DPKG=neat/math;; neat) DPKG=neat;; experiment) DPKG=experiment;; utils) DPKG=experiment/utils;; esac
  (tools/confirm_seed.sh $D $DPKG suite > $D/confirm.log 2>&1 &)
done
git -C /repo worktree remove --force $SRC 2>/dev/null
[ -n "${NOCHECK:-}" ] && exit 0
for X in A B; do
  D=seeded/$P-$(name $X); [ -d $D ] || continue
  echo "##### $D"
  VERIF_DIR=/tmp/vw_seedrun tools/run_seed_check.sh $D $CHECKS
done
