#!/bin/bash
# process_seed.sh <Cxx> <pkg> [checks...]: take /tmp/seed_Cxx/out/{patchA,patchB}.diff etc into seeded/, start confirmation
# (background), run the given checks (default: the property's own) against each patch from the seed-run worktree.
set -u
P="$1"; PKG="$2"; shift 2; CHECKS="${*:-$P}"
cd /verif
for X in A B; do
  [ -f /tmp/seed_$P/out/patch$X.diff ] || continue
  D=seeded/$P-$X; mkdir -p $D
  cp /tmp/seed_$P/out/patch$X.diff $D/patch.diff
  cp /tmp/seed_$P/out/demo${X}_test.go $D/demo_test.go
  cp /tmp/seed_$P/out/notes$X.md $D/notes.md 2>/dev/null
  (tools/confirm_seed.sh $D $PKG suite > $D/confirm.log 2>&1 &)
done
git -C /repo worktree remove --force /tmp/seed_$P 2>/dev/null
for X in A B; do
  D=seeded/$P-$X; [ -d $D ] || continue
  echo "##### $D"
  VERIF_DIR=/tmp/vw_seedrun tools/run_seed_check.sh $D $CHECKS
done
