#!/usr/bin/env python3
"""prints the DESIGN.md §9 table from seeded/*/meta.json"""
import json, glob, os
V = os.path.dirname(os.path.dirname(os.path.abspath(__file__)))
print("| seeded change | breaks | needs, in order to manifest | caught by |")
print("|---|---|---|---|")
for d in sorted(glob.glob(os.path.join(V, "seeded", "*"))):
    m = json.load(open(os.path.join(d, "meta.json")))
    ok = "" if m["confirmed"]["all"] else " (NOT confirmed)"
    print("| `seeded/%s`%s | %s | %s | %s |" % (os.path.basename(d), ok, m["breaks_property"], m["needs_to_manifest"], "; ".join(m["detected_by"])))
