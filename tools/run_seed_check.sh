#!/bin/bash
# run_seed_check.sh <seeded-dir> <Cxx> [<Cyy> ...]    (env TIER=quick|thorough, VERIF_DIR=/verif worktree to run from)
# Applies seeded/<id>/patch.diff to a scratch worktree of /repo and runs the named checks against it
# (VERIF_REPO=<scratch>). Prints the VIOLATION lines / verdict per check. Scratch worktree removed afterwards.
set -u
D=$(readlink -f "$1"); shift
V="${VERIF_DIR:-/verif}"; TIER="${TIER:-quick}"
W=$(mktemp -d /tmp/seedrun_XXXXXX); rmdir "$W"
git -C /repo worktree add -q --detach "$W" HEAD || exit 2
# untracked verif hook files of /repo (not yet committed) are needed by the harness
(cd /repo && git ls-files --others --exclude-standard | grep 'verif_export' | while read f; do cp "/repo/$f" "$W/$f"; done)
cleanup() { git -C /repo worktree remove --force "$W" 2>/dev/null; rm -rf "$W"; }
trap cleanup EXIT
(cd "$W" && git apply "$D/patch.diff") || { echo "apply FAILED"; exit 2; }
for c in "$@"; do
  # one check at a time per framework directory: the harness binary and the regenerated Gen/*.lean files are per directory
  mkdir -p "$V/build"
  out=$(cd "$V" && VERIF_REPO="$W" flock "$V/build/seedrun.lock" ./check "$c" --tier "$TIER" 2>&1)
  rc=$?
  echo "== $c rc=$rc"
  echo "$out" | grep -E 'VIOLATION|BROKEN|KNOWN' | cut -c1-400
  echo "$out" | tail -1 | cut -c1-300
done
