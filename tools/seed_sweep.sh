#!/bin/bash
# seed_sweep.sh <VERIF_SEED> [ids...]: run each seeded change against its property's quick check with the given seed;
# prints one line per change: CAUGHT / MISSED
S="$1"; shift
cd "$(dirname "$0")/.."
IDS="${*:-$(ls seeded)}"
for id in $IDS; do
  P=${id%%-*}
  out=$(VERIF_SEED=$S VERIF_DIR=${VERIF_DIR:-/tmp/vw_seedrun} tools/run_seed_check.sh seeded/$id $P 2>&1)
  if echo "$out" | grep -q "VIOLATION"; then echo "seed=$S $id CAUGHT $(echo "$out" | grep -m1 VIOLATION | grep -o 'no-failing-input-found')"; else echo "seed=$S $id MISSED"; fi
done
