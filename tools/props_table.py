#!/usr/bin/env python3
"""prints the DESIGN.md §8.3 table (per property: proof obligations, correspondence ops, headline statement) from checks/*.json"""
import json, glob, os
V = os.path.dirname(os.path.dirname(os.path.abspath(__file__)))
print("| property | proof obligations (theorems audited on every run) | correspondence ops (quick / thorough cases) | Lean modules |")
print("|---|---|---|---|")
for p in sorted(glob.glob(os.path.join(V, "checks", "C*.json"))):
    c = json.load(open(p))
    th = c.get("theorems", [])
    names = ", ".join("`%s`" % t.split(".")[-1] for t in th[:6]) + (" … (%d in all)" % len(th) if len(th) > 6 else "")
    ops = ", ".join("%s %s/%s" % (k, v.get("quick"), v.get("thorough")) for k, v in c.get("ops", {}).items())
    extra = ", ".join(e.get("name", "?") for e in c.get("extra", []))
    mods = ", ".join(m.replace("GoNeat.", "") for m in c.get("lean_modules", []))
    print("| %s | %d: %s | %s%s | %s |" % (c["property"], len(th), names, ops, ("; extra: " + extra) if extra else "", mods))
