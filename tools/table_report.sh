#!/bin/sh
# usage: table_report.sh <verif dir> c16|c17 ; prints the rows of the regenerated table that break the committed
# expectations and exits non-zero if there are any (the proof obligation itself is the Lean theorem; this is the
# human-readable witness that goes into the replay file)
set -e
cd "$1/lean"
case "$2" in
  c16) lake build GoNeat.Spec.AccessExpect GoNeat.Gen.Access >/dev/null 2>&1 || { echo "VIOLATING: generated access table does not elaborate"; lake build GoNeat.Gen.Access 2>&1 | tail -20; exit 1; }
       exec lake env lean --run ../tools/c16_report.lean ;;
  c17) lake build GoNeat.Spec.NonDetExpect GoNeat.Gen.NonDet >/dev/null 2>&1 || { echo "VIOLATING: generated nondeterminism table does not elaborate"; lake build GoNeat.Gen.NonDet 2>&1 | tail -20; exit 1; }
       exec lake env lean --run ../tools/c17_report.lean ;;
esac
