#!/usr/bin/env python3
"""mk_seed_prompt.py <Cxx> <round> : print the brief for a seeding sub-agent of round <round> (>= 2).
The brief contains ONLY the property text and the mechanisms of earlier seeded changes (function, file, what it needs),
never anything about the checks.  Template: the round-3 prompt text (kept here verbatim)."""
import json, re, sys, glob, os
P, R = sys.argv[1], int(sys.argv[2])
prop = next(json.loads(l) for l in open('/verif/properties.jsonl') if json.loads(l)['id'] == P)
wt = f"/tmp/seed{R}_{P}"
q = prop.get('quantifier') or {}
qtext = q.get('text', '') if isinstance(q, dict) else str(q)
anchors = prop.get('anchors') or {}
files = anchors.get('files', [])
mech = '; '.join(f"{m.get('name','')} ({m.get('where','')})" for m in anchors.get('mechanism', []))
earlier = []
for d in sorted(glob.glob(f'/verif/seeded/{P}-*')):
    patch = open(os.path.join(d, 'patch.diff')).read()
    fs = sorted(set(re.findall(r'^\+\+\+ b/(\S+)', patch, re.M)))
    fns = []
    for m in re.finditer(r'^@@.*@@ (?:func )?(?:\([^)]*\) )?(\w+)', patch, re.M):
        if m.group(1) not in fns and m.group(1) not in ('import', 'type', 'var', 'const', 'package'): fns.append(m.group(1))
    meta = json.load(open(os.path.join(d, 'meta.json')))
    earlier.append(f"  - {', '.join(fns) or 'top-level'} in {', '.join(fs)} ({meta.get('needs_to_manifest','')})")
tmpl = open('/verif/tools/seed_prompt_template.txt').read()
print(tmpl.replace('@WT@', wt).replace('@ID@', P).replace('@TITLE@', prop['title']).replace('@STATEMENT@', prop['statement'])
      .replace('@QUANT@', qtext).replace('@FILES@', ', '.join(files)).replace('@MECH@', mech).replace('@EARLIER@', '\n'.join(earlier)))
