/- diagnostics for C17: nondeterminism sources outside the committed allow-list -/
import GoNeat.Spec.NonDetExpect
import GoNeat.Gen.NonDet
open GoNeat GoNeat.NonDetTable

def kindStr : NDKind → String
  | .mapRange => "map iteration" | .time => "time" | .goStmt => "go statement" | .selectStmt => "select"
  | .selectCtxPoll => "cancellation poll" | .chan => "channel operation" | .ptrFormat => "pointer formatting"
  | .randSource => "random source" | .env => "environment" | .runtime => "runtime introspection"
  | .unsafePtr => "address as data" | .unresolved => "unresolved call"

def main : IO UInt32 := do
  let bad := notAllowed NonDetExpect.allowed Gen.nondetSources
  for r in bad do
    IO.println s!"VIOLATING nondeterminism source: {kindStr r.kind} in {r.fn} at {r.pos}: {r.what}"
  for m in Gen.nondetMissingRoots do
    IO.println s!"VIOLATING missing root: {m}"
  IO.println s!"nondeterminism table: {Gen.nondetSources.length} occurrences ({bad.length} not allowed), {Gen.nondetReached.length} functions walked"
  return (if bad.isEmpty && Gen.nondetMissingRoots.isEmpty then 0 else 1)
