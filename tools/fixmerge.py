import re,sys
# Props.lean: union of import lines
p='/verif/lean/GoNeat/Props.lean'
s=open(p).read()
lines=[l for l in s.split('\n') if l.startswith('import ') or l.startswith('--')]
seen=[]
for l in lines:
    if l not in seen: seen.append(l)
open(p,'w').write('\n'.join(seen)+'\n')
# All.lean: union of imports + union of *Ops names
p='/verif/lean/GoNeat/Driver/All.lean'
s=open(p).read()
imps=[]
for l in s.split('\n'):
    if l.startswith('import ') and l not in imps: imps.append(l)
ops=[]
for m in re.finditer(r'\b([a-zA-Z]+Ops)\b', s):
    if m.group(1) not in ops and m.group(1)!='allOps': ops.append(m.group(1))
out="/- table of all driver ops; one `*Ops` list per area -/\n"+'\n'.join(imps)+"\n\nnamespace GoNeat.Driver\ndef allOps : List (String × Handler) :=\n  "+"\n  ++ ".join(ops)+"\nend GoNeat.Driver\n"
open(p,'w').write(out)
print(out)
